"""C16 - client and tower agree on every byte of the wire format (DESIGN.md section 6, C16).

Oracle: spec/Wire.tla - the table of messages (fields, JSON keys, encodings: hex, byte-reversed hex for transaction ids,
status names, numbers, strings), the value classes of every kind of field, the failures the tower emits and how they
appear on the wire, the layouts of the signed byte strings (with the injectivity argument checked by TLC).
  spec -> impl   MC_Wire enumerates message x field-class products and prints one CASE line each; this module turns the
                 classes into concrete values; harness/api_rig (wire mode) lets the CLIENT's real request code
                 (watchtower_plugin::net::http) send them to the tower's REAL warp router, in front of a scripted tonic
                 service that records what the router parsed and answers what the case says, and reports what the client's
                 real response code returns; a forwarding proxy records the bytes on the wire; the real to_vec
                 implementations give the signed byte strings.  The obligations of Wire.tla are evaluated here:
                 RequestRoundTrip, ReplyRoundTrip, WireForm, ErrorForm, LayoutForm.
                 "joint" cases run the same client code against a real tower (composition).
"""
import binascii
import hashlib
import json
import os
import random
import struct
import subprocess
import time

from common import BIN, ToolError, Verdict, build, log, seed, tlc, unwrap_print, workdir, write_evidence

PID = "C16"
RIG = os.path.join(BIN, "api_rig")
MAX_SIGNATURES = 12
ZBASE = "ybndrfg8ejkmcpqxot1uwisza345h769"
U32 = {"zero": 0, "one": 1, "i32max": 2 ** 31 - 1, "i32max_plus1": 2 ** 31, "u32max": 2 ** 32 - 1}
SITES = {"request": "watchtower-plugin/src/net/http.rs -> teos/src/api/http.rs",
         "reply": "teos/src/api/http.rs -> watchtower-plugin/src/net/http.rs",
         "error": "teos/src/api/http.rs::match_status -> watchtower-plugin/src/net/http.rs::ApiResponse"}


def hx(b):
    return binascii.hexlify(b).decode()


def enumerate_cases(wd, depth, stats):
    cases, meta = [], []

    def on_line(line):
        tag, val = unwrap_print(line)
        if tag == "CASE" and val and val[1] is not None:
            cases.append(val[1])
        elif tag == "META" and val and val[1] is not None:
            meta.append(val[1])

    r = tlc("MC_Wire", "MC_Wire.cfg", wd, workers=4, timeout=1500, want_lines=on_line,
            consts={"Emit": "TRUE", "Depth": str(depth)})
    if not r.ok:
        raise ToolError("Wire.tla itself violates %s" % r.violated)
    if not meta or len(cases) != r.distinct:
        raise ToolError("TLC printed %d cases for %d states" % (len(cases), r.distinct))
    stats["states"] = r.distinct
    stats["transitions"] = r.generated
    stats["tlc_wall_s"] = round(r.wall, 1)
    cases.sort(key=lambda c: json.dumps(c, sort_keys=True))
    return meta[0], cases


# ---------------------------------------------------------------------------------------------------
# classes -> values

class Gen:
    def __init__(self, meta, info, rng):
        self.meta, self.info, self.rng = meta, info, rng
        self.key_i = 0

    def rbytes(self, n):
        return bytes(self.rng.getrandbits(8) for _ in range(n))

    def key(self):
        k = self.info["fresh"][self.key_i % len(self.info["fresh"])]
        self.key_i += 1
        return binascii.unhexlify(k)

    def u32(self, cls):
        return U32[cls] if cls in U32 else self.rng.getrandbits(32)

    def fixed(self, cls, n):
        if cls == "zeros":
            return b"\x00" * n
        if cls == "ones":
            return b"\xff" * n
        if cls == "ascending":
            return bytes(range(n))
        return self.rbytes(n)

    def var(self, cls, big):
        n = {"len0": 0, "len1": 1, "len2": 2, "mid": self.rng.randrange(20, 300)}.get(cls)
        if n is None:
            n = big
        return self.rbytes(n)

    def string(self, cls, big):
        rng = self.rng
        if cls == "empty":
            return ""
        if cls == "zbase32":
            return "".join(rng.choice(ZBASE) for _ in range(self.info["signature_len"]))
        if cls == "quotes":
            return rng.choice(['a"b\\c/d\'e', '"', '\\', '\\"', '""', "{\"k\":\"v\"}", "\\u0041\\n", "'; DROP TABLE users; --"])
        if cls == "unicode":
            return rng.choice(["é中\U0001f600ß", "ÿ", "  ", "﻿x", "\U0010ffff", "é", "ࠀ￿"])
        if cls == "control":
            return rng.choice(["\u0000\u0001\n\t\r\u001f\u007f", "\u0000", "\n", "a\u0000b", "\u001b[31m", "\u0008\u000c"])
        if cls == "long":
            return "".join(rng.choice(ZBASE) for _ in range(big))
        raise ToolError("string class " + cls)

    def value(self, fd, cls, big_var, big_str):
        enc = fd["enc"]
        if enc == "number":
            return self.u32(cls)
        if enc == "string":
            return self.string(cls, big_str)
        if enc == "status_name":
            return cls
        if enc == "hex_list":
            n = {"none": 0, "one": 1, "two": 2, "many": 300}[cls]
            return [self.rbytes(16) for _ in range(n)]
        if fd["width"] == 33:
            return self.key()
        if fd["width"] == 0:
            return self.var(cls, big_var)
        return self.fixed(cls, fd["width"])


def wire_json(meta, msg, variant, values):
    """The JSON value Wire.tla's table prescribes for message `msg` holding `values` (leaf name -> value)."""
    out = {}
    for fd in meta["messages"][msg]:
        if fd["enc"] == "object":
            sub = variant if "|" in fd["of"] else fd["of"]
            out[fd["key"]] = wire_json(meta, sub, variant, values)
        else:
            out[fd["key"]] = encode(fd, values[fd["name"]])
    return out


def encode(fd, v):
    enc = fd["enc"]
    if enc == "hex":
        return hx(v)
    if enc == "hex_reversed":
        return hx(v[::-1])
    if enc == "hex_list":
        return [hx(x) for x in v]
    return v          # number, string, status name


def lower_hex(meta, msg, variant, obj):
    """hex digits may be written in either case: normalise the observed JSON where the table says hex"""
    if not isinstance(obj, dict):
        return obj
    out = dict(obj)
    for fd in meta["messages"][msg]:
        k = fd["key"]
        if k not in out:
            continue
        if fd["enc"] == "object":
            sub = variant if "|" in fd["of"] else fd["of"]
            out[k] = lower_hex(meta, sub, variant, out[k])
        elif fd["enc"] in ("hex", "hex_reversed") and isinstance(out[k], str):
            out[k] = out[k].lower()
        elif fd["enc"] == "hex_list" and isinstance(out[k], list):
            out[k] = [x.lower() if isinstance(x, str) else x for x in out[k]]
    return out


def compact_len(obj):
    return len(json.dumps(obj, separators=(",", ":"), ensure_ascii=False).encode("utf-8"))


def concretise(gen, case):
    """-> the api_rig case (values as hex / numbers / strings) and the python-side values"""
    meta = gen.meta
    ep = case["ep"]
    limit = case["limit"]
    # request: first with empty fillers, then fill "long" / "max" up to the size limit
    req = {}
    fillers = []
    for fd in case["req_fields"]:
        cls = case["req"][fd["name"]]
        if (fd["enc"] == "string" and cls == "long") or (fd["enc"] in ("hex", "hex_reversed") and fd["width"] == 0 and cls == "max"):
            fillers.append(fd)
            req[fd["name"]] = "" if fd["enc"] == "string" else b""
        else:
            req[fd["name"]] = gen.value(fd, cls, 0, 0)
    for i, fd in enumerate(fillers):
        room = limit - compact_len(wire_json(meta, case["req_msg"], "", req))
        last = i == len(fillers) - 1
        if fd["enc"] == "string":
            req[fd["name"]] = gen.string("long", max(room if last else min(room // 2, 200), 1))
        else:
            req[fd["name"]] = gen.rbytes(max((room if last else room - 200) // 2, 0))
    # reply
    rep = {}
    for fd in case["rep_fields"]:
        rep[fd["name"]] = gen.value(fd, case["rep"][fd["name"]], 70000, 5000)
    if ep == "register":
        rep["user_id"] = req["user_id"]            # the tower echoes the user id
    c = {"ep": ep, "via": case["via"], "req": {k: rig_value(v) for k, v in req.items()}}
    if case["fam"] == "error":
        x = gen.u32(case["x"]) if case["x"] != "-" else None
        msg = case["msg"].replace("{x}", str(x)) if x is not None else case["msg"]
        c["reply"] = {"kind": "err", "grpc": case["grpc"], "msg": msg}
    else:
        r = {"kind": "ok"}
        for k, v in rep.items():
            r[k] = rig_value(v)
        if ep == "get_appointment":
            r["data"] = "appointment" if case["variant"] == "Appointment" else "tracker"
            r["status"] = meta["status_number"][rep["status"]]
        c["reply"] = r
        c["sign_reply"] = case["via"] == "typed" and ep in ("add_appointment", "register")
    return c, req, rep


def rig_value(v):
    if isinstance(v, bytes):
        return hx(v)
    if isinstance(v, list):
        return [hx(x) for x in v]
    return v


def split_http(raw):
    i = raw.find(b"\r\n\r\n")
    if i < 0:
        return None, None, raw
    head = raw[:i].decode("latin-1")
    first = head.split("\r\n")[0]
    headers = {}
    for ln in head.split("\r\n")[1:]:
        if ":" in ln:
            k, v = ln.split(":", 1)
            headers[k.strip().lower()] = v.strip()
    body = raw[i + 4:]
    if "chunked" in headers.get("transfer-encoding", "").lower():
        out, b = b"", body
        while True:
            j = b.find(b"\r\n")
            if j < 0:
                break
            n = int(b[:j].split(b";")[0], 16)
            if n == 0:
                break
            out += b[j + 2:j + 2 + n]
            b = b[j + 2 + n + 2:]
        body = out
    elif "content-length" in headers:
        body = body[:int(headers["content-length"])]
    return first, headers, body


def layout_expected(meta, name, values):
    """bytes of a signed structure per Wire.tla's Layouts"""
    out = b""
    for f in meta["layouts"][name]["fields"]:
        v = values[f["f"]]
        if f["enc"] == "u32be":
            out += struct.pack(">I", v)
        elif f["enc"] == "utf8":
            out += v.encode("utf-8")
        else:
            out += v
    return out


def check_layout(meta, name, values, observed_hex, out):
    if observed_hex is None:
        out.append(("layout:" + name, "the signed bytes of %s were not produced" % name))
        return
    obs = binascii.unhexlify(observed_hex)
    exp = layout_expected(meta, name, values)
    lay = meta["layouts"][name]
    varlen = len(obs) - lay["fixed_len"]
    if len(obs) != len(exp):
        out.append(("layout:%s:length" % name, "to_vec has %d bytes, the layout gives %d" % (len(obs), len(exp))))
        return
    if obs != exp:
        # which field is misplaced
        off = 0
        for f in lay["fields"]:
            w = f["w"] if f["w"] else varlen
            if obs[off:off + w] != exp[off:off + w]:
                out.append(("layout:%s:%s" % (name, f["f"]), "field %s at offset %d is %s, expected %s" %
                            (f["f"], off, hx(obs[off:off + w])[:40], hx(exp[off:off + w])[:40])))
                return
            off += w


def judge(meta, case, conc, req, rep, res):
    """-> list of (tag, text): disagreements with the obligations of Wire.tla"""
    out = []
    ep = case["ep"]
    if res["client"].get("kind") == "panic":
        out.append(("panic", "panic in the client: %s" % res["client"].get("what")))
        return out
    # ---- the request on the wire (WireForm) and at the internal API (RequestRoundTrip)
    first, headers, body = split_http(binascii.unhexlify(res["wire_request_hex"]))
    if first is None:
        out.append(("request-wire-form", "the client sent no HTTP request"))
        return out
    if len(body) > case["limit"]:
        return [("outside", "request of %d bytes is above the limit" % len(body))]
    if not first.startswith("POST /%s " % ep):
        out.append(("request-wire-form", "request line %r" % first))
    try:
        sent = json.loads(body.decode("utf-8"))
    except (UnicodeDecodeError, ValueError):
        sent = None
    exp_req = wire_json(meta, case["req_msg"], "", req)
    if lower_hex(meta, case["req_msg"], "", sent) != exp_req:
        out.append(("request-wire-form", "the client wrote %r, the table gives %r" % (body[:300], json.dumps(exp_req)[:300])))
    cap = res["captured"]
    if case["refused"]:
        if cap:
            out.append(("request-roundtrip:refusal", "a request with an empty signature reached the internal API"))
        cl = res["client"]
        if case["via"] == "generic" or ep == "add_appointment":
            if cl.get("kind") != "api_error" or cl.get("error_code") != case["refused_code"]:
                out.append(("reply-roundtrip:refusal", "the client made %r of the refusal" % (cl,)))
        return out
    if len(cap) != 1:
        out.append(("request-roundtrip", "the internal API received %d requests: %r / client: %r" % (len(cap), cap, res["client"])))
        return out
    got = cap[0]
    for fd in case["req_fields"]:
        v = req[fd["name"]]
        want = rig_value(v)
        if got.get(fd["name"]) != want:
            out.append(("request-roundtrip:" + fd["name"], "%s: the client was given %r, the tower parsed %r" %
                        (fd["name"], str(want)[:120], str(got.get(fd["name"]))[:120])))
    # ---- signed bytes (LayoutForm)
    lay = res["layouts"]
    if ep == "add_appointment":
        check_layout(meta, "appointment", req, lay.get("appointment"), out)
    # ---- the reply
    first, headers, body = split_http(binascii.unhexlify(res["wire_reply_hex"]))
    if first is None:
        out.append(("reply-wire-form", "no HTTP reply on the wire"))
        return out
    try:
        status = int(first.split(" ")[1])
        wire = json.loads(body.decode("utf-8"))
    except (IndexError, UnicodeDecodeError, ValueError):
        out.append(("reply-wire-form", "reply %r %r is no JSON" % (first, body[:200])))
        return out
    cl = res["client"]
    if case["fam"] == "error":
        msg = conc["reply"]["msg"]
        exp = {"error": msg, "error_code": case["err_code"]}
        if status != case["err_status"] or wire != exp:
            out.append(("error-form", "failure %s %r is written as %d %r; the table gives %d %r" %
                        (case["grpc"], msg, status, body[:200], case["err_status"], exp)))
        if cl.get("kind") != "api_error" or cl.get("error") != msg or cl.get("error_code") != case["err_code"]:
            out.append(("error-roundtrip", "the tower failed with (%r, %d), the client returns %r" % (msg, case["err_code"], cl)))
        return out
    scripted = res["scripted_reply"]
    rep = dict(rep)
    if conc.get("sign_reply"):      # the rig put the tower's real signature into the reply
        for k in ("signature", "subscription_signature"):
            if k in rep:
                rep[k] = scripted[k]
    exp_rep = wire_json(meta, case["rep_msg"], case["variant"], rep)
    if status != 200 or lower_hex(meta, case["rep_msg"], case["variant"], wire) != exp_rep:
        out.append(("reply-wire-form", "the tower wrote %d %r, the table gives %r" % (status, body[:300], json.dumps(exp_rep)[:300])))
    if cl.get("kind") != "ok":
        out.append(("reply-roundtrip", "the client could not use the reply: %r" % (cl,)))
        return out
    for fd in case["rep_fields"]:
        name = fd["name"]
        want = rig_value(rep[name])
        if fd["enc"] == "status_name":
            want = meta["status_number"][rep[name]]
        if cl.get(name) != want:
            out.append(("reply-roundtrip:" + name, "%s: the tower produced %r, the client returns %r" %
                        (name, str(want)[:120], str(cl.get(name))[:120])))
    if ep == "get_appointment":
        want = "appointment" if case["variant"] == "Appointment" else "tracker"
        if cl.get("data") != want:
            out.append(("reply-roundtrip:variant", "the tower sent a %s, the client reads a %s" % (want, cl.get("data"))))
    # ---- receipts built by the client from the reply (LayoutForm)
    if ep == "register":
        vals = {"user_id": req["user_id"], "available_slots": rep["available_slots"],
                "subscription_start": rep["subscription_start"], "subscription_expiry": rep["subscription_expiry"]}
        check_layout(meta, "registration_receipt", vals, lay.get("registration_receipt"), out)
        if case["via"] == "typed":
            check_layout(meta, "registration_receipt", vals, cl.get("to_vec"), out)
    if ep == "add_appointment":
        vals = {"user_signature": req["signature"], "start_block": rep["start_block"]}
        check_layout(meta, "appointment_receipt", vals, lay.get("appointment_receipt"), out)
        if case["via"] == "typed":
            r = cl.get("receipt") or {}
            check_layout(meta, "appointment_receipt", vals, r.get("to_vec"), out)
            if r.get("user_signature") != req["signature"] or r.get("start_block") != rep["start_block"] or r.get("signature") != rep["signature"]:
                out.append(("reply-roundtrip:receipt", "the client's receipt %r differs from (%r, %r, %r)" %
                            (r, req["signature"][:40], rep["start_block"], rep["signature"][:40])))
    return out


def judge_joint(conc, res):
    out = []
    j = res["joint"]
    if j.get("kind") == "panic":
        return [("panic", "panic in the client: %s" % j.get("what"))]
    reg, add, get, sub = j.get("register", {}), j.get("add", {}), j.get("get", {}), j.get("sub", {})
    if reg.get("kind") != "ok" or not reg.get("verifies"):
        out.append(("joint:register", "registration receipt unusable: %r" % reg))
        return out
    if add.get("kind") != "ok" or not add.get("verifies"):
        out.append(("joint:add", "appointment receipt unusable: %r" % add))
        return out
    if add["receipt"]["user_signature"] != j["user_signature"]:
        out.append(("joint:add", "the receipt is about another user signature"))
    if (get.get("kind") != "ok" or get.get("data") != "appointment" or get.get("status") != 1
            or get.get("locator") != conc["locator"] or get.get("encrypted_blob") != conc["encrypted_blob"]
            or get.get("to_self_delay") != conc["to_self_delay"]):
        out.append(("joint:get", "get_appointment returns %r for %r" % (str(get)[:300], str(conc)[:300])))
    if (sub.get("kind") != "ok" or conc["locator"] not in sub.get("locators", [])
            or sub.get("available_slots") != add.get("available_slots")
            or sub.get("subscription_expiry") != reg.get("subscription_expiry")):
        out.append(("joint:sub", "get_subscription_info returns %r after register %r / add %r" % (sub, reg, add)))
    return out


def judge_convert(meta, conc, res):
    """watchtower-plugin/src/convert.rs: Wire.tla's LocatorOfDisplayed and plain-hex locators"""
    out = []
    v = res["convert"]
    if v.get("kind") == "panic":
        return [("panic", "panic in the plugin's conversions: %s" % v.get("what"))]
    n = meta["locator_len"]
    want = hx(binascii.unhexlify(conc["commitment_txid"])[::-1][:n])       # prefix of the reversed displayed id
    g = v.get("given", {})
    if g.get("locator") != want:
        out.append(("convert:locator", "displayed txid %s: the client derives locator %s, the rule gives %s" %
                    (conc["commitment_txid"], g.get("locator", g), want)))
    if g.get("commit_num") != conc["commitnum"] or g.get("penalty_tx_same") is not True:
        out.append(("convert:hook", "the hook payload is read as %r (commitnum %d)" % (g, conc["commitnum"])))
    r = v.get("real", {})
    if r.get("locator") != v.get("tower_locator_of_real_tx") or \
            r.get("locator") != hx(binascii.unhexlify(v["real_txid_display"])[::-1][:n]):
        out.append(("convert:locator-agreement", "transaction %s: client locator %s, tower locator %s" %
                    (v.get("real_txid_display"), r.get("locator", r), v.get("tower_locator_of_real_tx"))))
    for k in ("get_params_array", "get_params_object"):
        p = v.get(k, {})
        if p.get("locator") != conc["locator"].lower() or p.get("tower_id") != v.get("tower_id"):
            out.append(("convert:getappointment-params", "%s: locator %s is read as %r" % (k, conc["locator"], p)))
    return out


def scenario_of(case):
    if case["fam"] == "error":
        return "error:%s:%s:%s" % (case["ep"], case["grpc"], case["x"])
    side = case["req"] if case["fam"] == "request" else case["rep"]
    return "%s:%s:%s:%s" % (case["fam"], case["ep"], case["via"], ",".join("%s=%s" % kv for kv in sorted(side.items())))


def run_rig(wd, concrete, name):
    cases_path = os.path.join(wd, name + "_cases.ndjson")
    res_path = os.path.join(wd, name + "_results.ndjson")
    with open(cases_path, "w") as f:
        for c in concrete:
            f.write(json.dumps(c) + "\n")
    p = subprocess.run([RIG, "wire", cases_path, res_path, os.path.join(wd, name + "_rig")], stdout=subprocess.PIPE,
                       stderr=subprocess.PIPE, text=True, timeout=3000)
    if p.returncode != 0:
        raise ToolError("api_rig wire failed: " + p.stderr[-2000:])
    results = {}
    with open(res_path) as f:
        for ln in f:
            r = json.loads(ln)
            results[r["id"]] = r
    if len(results) != len(concrete):
        raise ToolError("api_rig answered %d of %d cases" % (len(results), len(concrete)))
    return results


def selftest(meta, items, results):
    """corrupted observations must be rejected"""
    tried = detected = picked = 0
    for (case, conc, req, rep) in items[::7]:
        if picked >= 12:
            break
        base = results[conc["id"]]
        if case["fam"] != "reply" or judge(meta, case, conc, req, rep, base):
            continue
        picked += 1
        for mut in ("captured", "client", "wire"):
            r = json.loads(json.dumps(base))
            if mut == "captured":
                k = sorted(k for k in r["captured"][0] if k not in ("ep", "has_appointment"))[0]
                v = r["captured"][0][k]
                r["captured"][0][k] = (v + "00") if isinstance(v, str) else v + 1
            elif mut == "client":
                k = sorted(k for k, v in r["client"].items() if isinstance(v, int) and not isinstance(v, bool))
                if not k:
                    continue
                r["client"][k[0]] ^= 1
            else:
                raw = binascii.unhexlify(r["wire_reply_hex"])
                i = raw.rfind(b'":') + 2
                raw = raw[:i] + (b"7" if raw[i:i + 1] != b"7" else b"8") + raw[i + 1:]
                r["wire_reply_hex"] = hx(raw)
            tried += 1
            if judge(meta, case, conc, req, rep, r):
                detected += 1
    # (no conforming observation to corrupt: every exchange disagrees, which the run reports by itself)
    if tried != detected:
        raise ToolError("binding self-test: %d of %d corrupted observations were rejected" % (detected, tried))
    return detected


def main(tier, replay=None):
    t0 = time.time()
    wd = workdir(PID)
    build(["api_rig"])
    verdict = Verdict(PID)
    stats = {}
    depth = 9          # the full class product in both tiers (the tiers differ in how many values are drawn per case)
    meta, cases = enumerate_cases(wd, depth, stats)
    p = subprocess.run([RIG, "info", os.path.join(wd, "info"), "400"], stdout=subprocess.PIPE, stderr=subprocess.PIPE, text=True,
                       timeout=600)
    if p.returncode != 0:
        raise ToolError("api_rig info failed: " + p.stderr[-2000:])
    info = json.loads(p.stdout.strip().splitlines()[-1])

    if replay:
        data = json.load(open(replay))["replay"]
        conc = dict(data["concrete"])
        conc["id"] = 0
        results = run_rig(wd, [conc], "replay")
        if conc["ep"] == "joint":
            dis = judge_joint(conc, results[0])
        elif conc["ep"] == "convert":
            dis = judge_convert(meta, conc, results[0])
        else:
            req = {k: (binascii.unhexlify(v) if data["req_types"][k] == "bytes" else v) for k, v in data["req"].items()}
            rep = {}
            for k, v in data["rep"].items():
                t = data["rep_types"][k]
                rep[k] = binascii.unhexlify(v) if t == "bytes" else [binascii.unhexlify(x) for x in v] if t == "list" else v
            dis = judge(meta, data["abstract"], conc, req, rep, results[0])
        for tag, text in dis:
            verdict.disagree(tag, "replay", "replay", text, data)
        nviol = verdict.finish()
        log("replay of %s: %s" % (replay, "still disagrees" if nviol else "no disagreement"))
        return 1 if nviol else 0

    rng = random.Random(seed())
    gen = Gen(meta, info, rng)
    k = 1 if tier == "quick" else 5
    items = []
    concrete = []
    for case in cases:
        for _ in range(k):
            conc, req, rep = concretise(gen, case)
            conc["id"] = len(concrete)
            concrete.append(conc)
            items.append((case, conc, req, rep))
    n_joint = 40 if tier == "quick" else 1000
    joint = []
    for i in range(n_joint):
        blob = gen.rbytes(rng.choice([1, 16, 17, 100, 700, 900]) if i >= 6 else [1, 2, 16, 33, 800, 900][i])   # never empty: the API refuses an empty blob
        conc = {"ep": "joint", "user": i, "locator": hx(gen.fixed(rng.choice(["zeros", "ones", "ascending", "random"]), 16) if i < 4
                                                         else gen.rbytes(16)),
                "encrypted_blob": hx(blob), "to_self_delay": gen.u32(rng.choice(list(U32) + ["random"])), "id": len(concrete)}
        concrete.append(conc)
        joint.append(conc)
    n_conv = 60 if tier == "quick" else 1500
    conv = []
    for i in range(n_conv):
        txid = [bytes(range(32)), b"\x00" * 31 + b"\x01", b"\xff" * 16 + b"\x00" * 16][i] if i < 3 else gen.rbytes(32)
        loc = gen.fixed(["zeros", "ones", "ascending", "random"][i % 4], 16)
        conc = {"ep": "convert", "n": i + 1, "pad": rng.choice([0, 1, 50, 700]), "commitment_txid": hx(txid),
                "commitnum": gen.u32(list(U32)[i % 5] if i < 10 else "random"),
                "locator": hx(loc).upper() if i % 7 == 3 else hx(loc), "id": len(concrete)}
        concrete.append(conc)
        conv.append(conc)
    results = run_rig(wd, concrete, "run")
    selftest_error = None
    try:
        stats["selftest_corruptions_detected"] = selftest(meta, items, results)
    except ToolError as e:       # must not hide what the run itself finds: reported only when nothing else is
        selftest_error = e
        stats["selftest_corruptions_detected"] = 0

    n_dis = 0
    per_tag = {}
    outside = 0
    distinct = set()
    nontrivial = set()
    samples = []
    for (case, conc, req, rep) in items:
        res = results[conc["id"]]
        dis = judge(meta, case, conc, req, rep, res)
        if dis and dis[0][0] == "outside":
            outside += 1
            continue
        key = json.dumps([case[x] for x in ("fam", "ep", "via", "variant", "req", "rep", "grpc", "msg", "x")], sort_keys=True)
        distinct.add(key)
        side = case["req_fields"] if case["fam"] == "request" else case["rep_fields"]
        vals = case["req"] if case["fam"] == "request" else case["rep"]
        if case["fam"] == "error" or any(vals[fd["name"]] not in ("random", "zbase32", "mid", "two", "key", "being_watched") for fd in side):
            nontrivial.add(key)
        for tag, text in dis:
            n_dis += 1
            per_tag[tag] = per_tag.get(tag, 0) + 1
            if len(verdict.violations) < MAX_SIGNATURES:
                cc = {x: y for x, y in conc.items() if x != "id"}
                verdict.disagree(tag, SITES[case["fam"]], scenario_of(case), "%s %s (%s): %s" % (case["fam"], case["ep"], case["via"], text),
                                 {"abstract": case, "concrete": cc,
                                  "req": {a: rig_value(b) for a, b in req.items()},
                                  "req_types": {a: "bytes" if isinstance(b, bytes) else "other" for a, b in req.items()},
                                  "rep": {a: rig_value(b) for a, b in rep.items()},
                                  "rep_types": {a: "bytes" if isinstance(b, bytes) else "list" if isinstance(b, list) else "other"
                                                for a, b in rep.items()},
                                  "observed": {x: (res[x] if len(str(res[x])) < 2000 else str(res[x])[:2000]) for x in ("captured", "client")}})
        if len(samples) < 4 and conc["id"] % 211 == 7:
            _, _, wbody = split_http(binascii.unhexlify(res["wire_request_hex"]))
            _, _, rbody = split_http(binascii.unhexlify(res["wire_reply_hex"]))
            samples.append({"case": {x: case[x] for x in ("fam", "ep", "via", "variant", "req", "rep")},
                            "request_on_the_wire": wbody.decode("utf-8", "replace")[:300],
                            "tower_parsed": res["captured"][:1], "reply_on_the_wire": rbody.decode("utf-8", "replace")[:300],
                            "client_returned": {a: (b if len(str(b)) < 200 else str(b)[:200]) for a, b in res["client"].items()}})
    for conc in joint:
        for tag, text in judge_joint(conc, results[conc["id"]]):
            n_dis += 1
            per_tag[tag] = per_tag.get(tag, 0) + 1
            if len(verdict.violations) < MAX_SIGNATURES:
                verdict.disagree(tag, "client <-> real tower", "joint", text, {"concrete": {x: y for x, y in conc.items() if x != "id"},
                                                                                "observed": results[conc["id"]]["joint"]})
    for conc in conv:
        for tag, text in judge_convert(meta, conc, results[conc["id"]]):
            n_dis += 1
            per_tag[tag] = per_tag.get(tag, 0) + 1
            if len(verdict.violations) < MAX_SIGNATURES:
                verdict.disagree(tag, "watchtower-plugin/src/convert.rs", "convert", text,
                                 {"concrete": {x: y for x, y in conc.items() if x != "id"}, "observed": results[conc["id"]]["convert"]})
    nviol = verdict.finish()
    if selftest_error and not nviol:
        raise selftest_error
    fam_counts = {}
    for (case, _, _, _) in items:
        fam_counts[case["fam"]] = fam_counts.get(case["fam"], 0) + 1
    write_evidence(PID, tier, "exploration", {
        "evaluations": len(concrete),
        "distinct_nontrivial": len(nontrivial),
        "rule": "TLC enumerates MC_Wire: for each of the 4 endpoints the product of the value classes of the request's fields, of "
                "the reply's fields (get_appointment: both nested variants) - %s - and every failure the tower emits; each case "
                "is one exchange executed with the client's real code, the tower's real router and real to_vec; distinct = "
                "distinct case (one TLC state), non-trivial = at least one field in a class other than the default one "
                "(boundary integer, empty / 1-byte / limit-filling byte string, escaping-relevant string, ordered bytes, other "
                "status, empty / long list) or a failure reply" %
                ("at most %d fields away from the default class" % depth if depth < 9 else "the full product"),
        "exhaustive": True,
        "states": stats["states"],
        "transitions": stats["transitions"],
        "tlc_wall_s": stats["tlc_wall_s"],
        "class_product_depth": depth,
        "cases": len(cases),
        "exchanges_per_family": fam_counts,
        "requests_above_the_size_limit_not_judged": outside,
        "joint_sequences_with_a_real_tower": len(joint),
        "plugin_conversions_checked": len(conv),
        "disagreements": n_dis,
        "disagreements_per_tag": per_tag,
        "selftest_corruptions_detected": stats["selftest_corruptions_detected"],
        "known_findings_hit": verdict.known_hits,
        "samples": samples,
    }, [
        "the tower side of the scripted exchanges is the real warp router (teos::api::http::serve) with a recording tonic service "
        "in place of InternalAPI; the values 'the tower parsed' are those the router hands to the internal API, the values 'the "
        "tower produced' are the protobuf replies / gRPC failures handed to the router",
        "the client side is watchtower_plugin::net::http (register, send_appointment, post_request, process_post_response) with "
        "the response types watchtower-plugin/src/main.rs uses; get_appointment and get_subscription_info have no library function",
        "send_appointment panics on a reply signature that is not decodable (that is C14's subject): through it only replies signed "
        "by the tower are compared, other reply signatures go through the generic path",
        "hex digits are accepted in either case on the wire; key order and white space of the JSON text are not constrained",
        "an empty request signature and an empty encrypted blob are refused by the API with error code 2 (as documented) and are expected to be refused",
        "watchtower-plugin/src/convert.rs is bound through its two wire-relevant conversions: the commitment_revocation payload "
        "(displayed txid -> locator, commitnum, penalty transaction) and the getappointment parameters; the locator rule "
        "(prefix of the reversed displayed id) is stated and checked on samples in Wire.tla",
        "values are sampled inside each class (VERIF_SEED); 'for all values' is decided per class boundary, not per value",
        "the injectivity of the signed layouts is checked by TLC on scaled-down widths (fixed widths 2/1, alphabet of two "
        "letters, variable field up to 2 letters) and bound to the code by comparing to_vec with the layout on every case",
    ], time.time() - t0, nviol)
    return 1 if nviol else 0
