"""C06 (DESIGN.md section 6): tower campaign judged by Trace_Tower.tla / TowerProps.tla."""
import towerlib as T
import towercheck

PID = "C06"


def scenarios(rng, tier):
    sc = T.fam_auth(rng) + T.fam_auth(rng, cfg=T.CFG_F) + T.fam_breach(rng)[:6] + T.fam_late(rng)[::4] + T.fam_shared(rng)
    sc += T.fam_random(rng, 12 if tier == "quick" else 150)
    if tier == "thorough":
        sc += T.fam_auth(rng, cfg=T.CFG_A) + T.fam_breach(rng) + T.fam_expiry(rng, cfgs=(T.CFG_B,))
    return sc


RULE = 'every endpoint x signature class (valid, valid for another message, unregistered key, truncated, bit-flipped, not zbase32, empty) x user state (registered, expired, purged, never registered); two / three users on the same locator (users 1 and 2 hold keys that are the negation of one another: same x coordinate, other parity byte) with different blobs (other penalty, other size, undecryptable) in both submission orders, dispute confirmed afterwards or already in the cache; random histories with bad signatures mixed in'


def main(tier, replay=None):
    import mc_tower
    design = None if replay else mc_tower.design_stats(PID, tier)
    return towercheck.run(PID, tier, replay, scenarios, RULE, towercheck.COMMON_ASSUMPTIONS, design_stats=design)
