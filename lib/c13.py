"""C13 - the client delivers pending data once a tower recovers; status is truthful (DESIGN.md section 6).
Specification spec/Client.tla (OneLoop, NoFlood, EndsUnreachable, ManualRetryGate, temporal Delivered under fairness),
real watchtower-client binary, traces judged by spec/Trace_Client.tla (incl. the timing obligations on the towers' log)."""
import clientlib as L

PID = "C13"
CLASSES = ["accept", "sub_error", "reject", "garbage", "broken", "badsig", "malsig"]


def scenarios(rng, tier, wd, stats):
    q = tier == "quick"
    sc = L.regression_scripts()
    rp = L.fam_retry_path("c13", CLASSES)
    if q:
        rp = [s for s in rp if not any(("garbage%d" % i) in s["name"] or ("malsig%d" % i) in s["name"] for i in range(2, 10))]
    sc += rp + L.fam_outage("c13", [300, 1200, 2600] if q else [100, 300, 600, 900, 1200, 1800, 2600, 3500, 5000, 7000])
    sc += L.fam_retrier_states("c13")
    sc += [s for s in L.fam_kill("c13", rng, 2 if q else 30)]
    if not q:
        # the window between wake-up and start of an idle retrier, swept
        for off in range(1800, 4200, 200):
            s = L.Sc("c13-wake-%d" % off, 1, fam="wake_window", covers=["notify@woken"])
            s.regall().down("t1").notify("l1").wait_state("t1", ["unreachable"], 1, L.giveup_bound_ms() + 1500).up("t1")
            s.sleep(off).notify("l2").delivered("t1").probe()
            sc.append(s.done())
        for i in range(3):
            sc += L.fam_retrier_states("c13-r%d" % i)
    sc += L.tlc_scripts("c13", rng, wd, stats, 10 if q else 150)
    sc += L.fam_random("c13", rng, 10 if q else 250)
    return sc


RULE = ("families: every reply class on the retry path followed by a well-behaved phase in which everything must be delivered "
        "within the bound; outage / recovery timings relative to the back-off schedule, give-up and automatic retry; "
        "subscription errors with renewal on both paths; new revocations and manual retries with the retrier running / "
        "idle / failed / absent / woken and for a misbehaving tower; kills and restarts; TLC -simulate behaviours of "
        "MC_ClientGen as scripts; seeded random fault sequences; regression scripts. non-trivial / distinct as for C05")


def main(tier, replay=None):
    return L.run_check(PID, tier, replay, scenarios, RULE)
