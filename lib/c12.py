"""C12 (DESIGN.md section 6): a bitcoind outage never drops a response and the tower recovers by itself.

Fault enumeration over (history x where the outage starts x how many polls it lasts x path): request path (a late appointment
being answered on an API thread), block-processing path (the chain-monitor thread answering a breach), idle outages noticed
by the poll, download failures of headers / blocks / best tip in the middle of a multi-block poll.  Requests and polls that
may block inside the code under test run on their own threads; recovery must happen by itself within the bound (reconnection
probe interval + slack) once the node is back.  Trace_Tower.tla judges: 'service unavailable' + no state change while the
flag is down, the interrupted submission is issued afterwards with the same penalty (C01 monitors on the joined event), no
thread left blocked (Hung), blocks mined meanwhile processed.  Outage.tla model-checks the reachability protocol."""
import json
import os
import random
import time
from concurrent.futures import ThreadPoolExecutor

import towerlib as T
from common import ToolError, Verdict, build, log, seed, tlc, workdir, write_evidence

PID = "C12"
JOIN_MS = 25000     # reconnection probe interval of the Carrier (10 s) + 15 s slack (a machine with every core busy needed more than 4 s once)


def outage_model(wd, tier):
    out = {"states": 0, "transitions": 0, "configs": []}
    for name, consts in (("intended", {"SelfProbe": "TRUE", "MaxBlocks": 2 if tier == "quick" else 3}),):
        r = tlc("Outage", "Outage.cfg", wd, workers=4, consts=consts, timeout=1200)
        if not r.ok:
            log(r.out[-2000:])
            raise ToolError("Outage.tla (%s) violates %s" % (name, r.violated))
        out["states"] += r.distinct
        out["transitions"] += r.generated
        out["configs"].append({"config": "Outage/" + name, "constants": consts, "distinct_states": r.distinct, "states_generated": r.generated})
    # anti-vacuity: the protocol WITHOUT the self probe (what the code did before the fix) must deadlock
    r = tlc("Outage", "Outage.cfg", wd, workers=4, consts={"SelfProbe": "FALSE", "MaxBlocks": 2}, timeout=1200)
    out["configs"].append({"config": "Outage/without-self-probe", "expected": "violation", "violated": r.violated, "distinct_states": r.distinct})
    if r.ok:
        raise ToolError("Outage.tla without the self probe should violate Recovers / deadlock freedom (vacuity check)")
    return out


def main(tier, replay=None):
    t0 = time.time()
    wd = workdir(PID)
    build(["tower_rig"])
    rng = random.Random(seed() * 31337 + 12)
    verdict = Verdict(PID)
    if replay:
        scenarios = [json.load(open(replay))["replay"]["scenario"]]
        design = None
    else:
        design = outage_model(wd, tier)
        scenarios = T.fam_outage(rng, ms=JOIN_MS) + T.fam_overloaded(rng, ms=JOIN_MS)
        if tier == "thorough":
            for cfg in (T.CFG_F, T.CFG_L):
                scenarios += T.fam_outage(rng, cfg=cfg, ms=JOIN_MS)
    # every scenario waits in real time for the Carrier's reconnection probe: run them in parallel, one rig process each
    camps = []

    def one(i_sc):
        i, sc = i_sc
        c = T.Campaign(os.path.join(wd, "s%d" % i))
        os.makedirs(c.wd, exist_ok=True)
        c.run([sc], "o%d" % i)
        return c

    inproc = [sc for sc in scenarios if not sc["name"].startswith("e2e-")]
    with ThreadPoolExecutor(max_workers=12) as ex:
        camps = list(ex.map(one, enumerate(inproc)))
    tags, events, acts, happened, hung = [], 0, {}, {}, 0
    for c in camps:
        tags += c.tags
        events += c.events
        for k, v in c.acts.items():
            acts[k] = acts.get(k, 0) + v
        for k, v in c.happened.items():
            happened[k] = happened.get(k, 0) + v
    # the same on the REAL daemon (teosd binary: bitcoin_cli.rs / chain_monitor.rs error handling behind the HTTP API)
    import e2e
    if replay:
        e2e_scs = [sc for sc in scenarios if sc["name"].startswith("e2e-")]
    else:
        e2e_scs = e2e.scenarios(tier, random.Random(seed() * 15485863 + 11), PID)
    e2e_stats = {}
    if e2e_scs:
        camp = e2e.campaign(os.path.join(wd, "e2e"), e2e_scs)
        e2e_stats = camp.stats()
        events += e2e_stats.get("teosd_events_validated", 0)
        tags += camp.tags
    others = {}
    for t in tags:
        ev = t["event"]
        sname = t["scenario"]["name"]
        fam = "-".join(sname.split("-")[:2])
        if t["what"] in ("process_died",) or t["what"].startswith("hung") or t["what"].startswith("abort:"):
            # the tower went down / stayed blocked because of the outage: it did not recover by itself
            verdict.disagree(t["what"], ev["act"], fam, "C12: %s (scenario %s, trace %s line %d)" % (t["what"], sname, t["trace"], t["line"]),
                             {"scenario": t["scenario"], "tag": [t["line"], t["prop"], t["what"]], "event": ev})
        elif sname.startswith("outage-request-newblock"):
            # the blocked request and the chain thread run concurrently here: only "nobody stays blocked" is judged from this
            # scenario (which thread's event an effect is attributed to depends on the schedule; see the concurrency checks)
            others[(t["prop"], t["what"])] = others.get((t["prop"], t["what"]), 0) + 1
        elif t["prop"] == PID or t["what"] in ("conf.reachable",) or (t["prop"] in ("C01", "C02") and sname.startswith(("outage", "e2e-outage"))):
            # a penalty that was not (re)submitted after the outage is this property's NoDrop clause
            verdict.disagree(t["what"], ev["act"], fam, "C12: %s at %s (scenario %s, trace %s line %d)" %
                             (t["what"], ev["act"], sname, t["trace"], t["line"]),
                             {"scenario": t["scenario"], "tag": [t["line"], t["prop"], t["what"]], "event": ev})
        else:
            others[(t["prop"], t["what"])] = others.get((t["prop"], t["what"]), 0) + 1
    if others:
        log("note: tags owned by other properties: %s" % sorted(others.items()))
    nviol = verdict.finish()
    if replay:
        return 1 if nviol else 0
    cov = {
        "evaluations": len(scenarios),
        "distinct_nontrivial": len(scenarios),
        "rule": "a case = (history, where the outage starts: request path / block-processing path / idle / header, block or best-tip "
                "download in a multi-block poll, how many failing polls it lasts, whether blocks are mined meanwhile); every case "
                "contains at least one failed RPC or download and the recovery afterwards (non-trivial), all distinct by construction",
        "impl_events_validated": events,
        "events_by_action": acts,
        "behaviour_observed_in_validated_traces": happened,
        "threads_left_blocked": acts.get("Hung", 0),
        "design_level": design,
        "end_to_end_teosd_binary": e2e_stats,
        "tags_of_other_properties": {"%s.%s" % k: v for k, v in others.items()},
        "known_findings_hit": verdict.known_hits,
        "samples": [{"scenario": scenarios[0]["name"], "ops": scenarios[0]["ops"]}],
    }
    if design:
        cov["states"], cov["transitions"] = design["states"], design["transitions"]
    write_evidence(PID, tier, "fault_enumeration", cov, [
        "a thread still blocked %d ms after the node is back and a poll was attempted is counted as blocked for ever" % JOIN_MS,
        "tower_rig mirrors main.rs; the chain monitor runs on its own thread as in the daemon",
    ], time.time() - t0, nviol)
    return 1 if nviol else 0
