"""C08 (DESIGN.md section 6): tower campaign judged by Trace_Tower.tla / TowerProps.tla."""
import towerlib as T
import towercheck

PID = "C08"


def scenarios(rng, tier):
    sc = T.fam_receipts(rng) + T.fam_late(rng)[::2] + T.fam_slots(rng)[:4] + T.fam_auth(rng)[:2]
    sc += T.fam_random(rng, 12 if tier == "quick" else 150)
    if tier == "thorough":
        for _ in range(5):
            sc += T.fam_receipts(rng)
        sc += T.fam_late(rng) + T.fam_slots(rng) + T.fam_reorg(rng)[::4]
    return sc


RULE = "receipts verified with the client's verifier (teos_common::receipts::*::verify) under the tower id over exactly the returned fields; start block against the tower height incl. after disconnect-only polls (height going backwards); renewals; read-back of the last accepted version (blob bytes, to_self_delay)"


def main(tier, replay=None):
    import mc_tower
    design = None if replay else mc_tower.design_stats(PID, tier)
    return towercheck.run(PID, tier, replay, scenarios, RULE, towercheck.COMMON_ASSUMPTIONS, design_stats=design)
