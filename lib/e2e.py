"""End-to-end tier of the tower properties: the REAL teosd binary, judged by Trace_Tower.tla (see lib/e2elib.py).

  run(pid, tier)        -> tags of property `pid` (dicts: prop, what, line, scenario, trace, event, prev), for the checks of
                           the properties anchored in teos/src/main.rs (C01, C02, C03, ...); `last_stats` holds the measured
                           numbers of the last call (to be merged into the caller's evidence)
  main(tier, replay)    -> `./check E2E`: every scenario, a VIOLATION line for every tag of any property

The binary under test: $VERIF_TEOSD if set (a teosd built elsewhere, e.g. from a private copy of the repository), else
/repo's teosd built with feature verif and release arithmetic into harness/target/product_e2e (build_teosd).
"""
import json
import os
import random
import subprocess
import time

import e2elib as E
from common import HARNESS, REPO, WORK, ToolError, Verdict, build, cargo_env, log, seed, workdir

last_stats = {}


def build_teosd(timeout=3000):
    """/repo's teosd with the hooks (feature verif) and the arithmetic / assertion semantics of the binaries users run
    (`cargo install` = release: no overflow checks, no debug assertions) at debug compile times - the same choice as the
    harness profile `verif` (DESIGN.md section 4.1).  A plain debug build aborts on the debug-only overflow S17
    (responder.rs, log line of check_confirmations after a reorg).  Own target directory: the debug teosd of
    common.build_repo_bin (used by C20) is left alone."""
    tdir = os.path.join(HARNESS, "target", "product_e2e")
    env = cargo_env()
    env["CARGO_PROFILE_DEV_OVERFLOW_CHECKS"] = "false"
    env["CARGO_PROFILE_DEV_DEBUG_ASSERTIONS"] = "false"
    cmd = ["cargo", "build", "--offline", "--manifest-path", os.path.join(REPO, "Cargo.toml"), "-p", "teos", "--bin", "teosd",
           "--features", "verif", "--target-dir", tdir]
    p = subprocess.run(cmd, cwd=REPO, env=env, stdout=subprocess.PIPE, stderr=subprocess.STDOUT, text=True, timeout=timeout)
    if p.returncode != 0:
        log(p.stdout[-6000:])
        raise ToolError("cargo build of teosd failed")
    return os.path.join(tdir, "debug", "teosd")


def teosd_binary():
    p = os.environ.get("VERIF_TEOSD")
    if p:
        if not os.path.isfile(p):
            raise ToolError("VERIF_TEOSD=%s does not exist" % p)
        return p
    return build_teosd()


def scenarios(tier, rng, pid=None):
    sc = E.wiring_scenarios()
    if tier == "thorough":
        sc += E.family_scenarios(rng)
    if pid is not None:
        sc = [s for s in sc if pid in s["props"]]
    return sc


def campaign(wd, scs, label="e2e"):
    build(["teosd_rig"])
    camp = E.E2ECampaign(wd, teosd_binary())
    camp.run(scs, label)
    return camp


def run(pid, tier, wd=None, also=None):
    """Runs the scenarios owned by `pid` on the real daemon and returns the tags of `pid` (and those `also(tag)` accepts)."""
    global last_stats
    if wd is None:
        wd = os.path.join(WORK, pid, "e2e")
    os.makedirs(wd, exist_ok=True)
    rng = random.Random(seed() * 15485863 + 11)
    scs = scenarios(tier, rng, pid)
    if not scs:
        last_stats = {}
        return []
    camp = campaign(wd, scs)
    last_stats = camp.stats()
    others = {}
    for t in camp.tags:
        if t["prop"] != pid:
            others["%s.%s" % (t["prop"], t["what"])] = others.get("%s.%s" % (t["prop"], t["what"]), 0) + 1
    last_stats["tags_of_other_properties"] = others
    return [t for t in camp.tags if t["prop"] == pid or (also is not None and also(t))]


def main(tier, replay=None):
    t0 = time.time()
    workid = os.environ.get("VERIF_E2E_WORKID", "E2E")
    wd = workdir(workid)
    verdict = Verdict(workid)
    rng = random.Random(seed() * 15485863 + 11)
    if replay:
        rp = json.load(open(replay))["replay"]
        scs = [rp["scenario"]]
    else:
        scs = scenarios(tier, rng)
        only = os.environ.get("VERIF_E2E_ONLY")
        if only:
            scs = [s for s in scs if any(x in s["name"] for x in only.split(","))]
    camp = campaign(wd, scs)
    for t in camp.tags:
        ev = t["event"]
        verdict.disagree("%s.%s" % (t["prop"], t["what"]), ev["act"], t["scenario"]["name"],
                         "E2E: %s %s at %s (scenario %s, trace %s line %d)" % (t["prop"], t["what"], ev["act"], t["scenario"]["name"],
                                                                               t["trace"], t["line"]),
                         {"scenario": t["scenario"], "tag": [t["line"], t["prop"], t["what"]], "event": ev, "before": t["prev"]})
    nviol = verdict.finish()
    st = camp.stats()
    st["wall_s"] = round(time.time() - t0, 1)
    st["tier"] = tier
    st["violations"] = nviol
    st["teosd"] = camp.teosd
    json.dump(st, open(os.path.join(wd, "summary.json"), "w"), indent=1)
    log("E2E summary: %s" % json.dumps({k: st[k] for k in ("teosd", "teosd_scenarios", "teosd_events_validated", "teosd_starts",
                                                            "behaviour_observed", "wall_rig_s", "wall_trace_validation_s",
                                                            "max_sync_ms", "wall_s", "violations")}))
    log("E2E wall per scenario: %s" % json.dumps(st["wall_per_scenario_s"]))
    return 1 if nviol else 0


def selftest(wd=None):
    """Binding self-test of this tier (for setup.sh): one scenario on the real daemon validates without a tag; the same trace
    with (a) an extra submission, (b) the Chain event of the breach dropped, (c) a purged user kept in the logged state,
    (d) the persisted starting block removed from the Boot event is rejected with the expected tags.  Returns the list of
    failures (empty = fine)."""
    if wd is None:
        wd = workdir("E2E_selftest")
    sc = [s for s in E.wiring_scenarios() if s["name"] == "e2e-purge-then-breach-alone"][0]
    camp = campaign(wd, [sc], "self")
    fails = []
    if camp.tags:
        fails.append("the unchanged trace is tagged: %s" % [(t["prop"], t["what"]) for t in camp.tags])
    trace = os.path.join(wd, "self_00", "trace.ndjson")
    events = [json.loads(ln) for ln in open(trace)]
    purge = [i for i, e in enumerate(events) if e["act"] == "Chain" and any(c[1]["keys"] for c in e["chain"])][0]
    boot = [i for i, e in enumerate(events) if e["act"] == "Boot"][0]

    def variant(name, edit, expect):
        evs = json.loads(json.dumps(events))
        edit(evs)
        d = os.path.join(wd, "self_" + name)
        os.makedirs(d, exist_ok=True)
        p = os.path.join(d, "trace.ndjson")
        open(p, "w").write("".join(json.dumps(e) + "\n" for e in evs))
        c = E.E2ECampaign(wd, camp.teosd)
        c._validate(sc["cfg"], [(p, sc)], "selfv_" + name)
        got = set((t["prop"], t["what"]) for t in c.tags)
        if not expect & got:
            fails.append("corruption '%s' was not rejected as expected: tags %s" % (name, sorted(got)))

    variant("extra_send", lambda ev: ev[purge]["rpc"].extend([["get", 11, "no"], ["send", 11, "ok"]]), {("C02", "e2e.extra_submission")})
    variant("dropped_chain", lambda ev: ev.pop(purge), {("C06", "conf.reply"), ("C09", "expired_not_refused"), ("C06", "read_changed_state")})
    variant("kept_user", lambda ev: ev[purge]["post"]["users"].insert(0, [1, 2, 104, 108]), {("C09", "e2e.users")})
    variant("start_not_persisted", lambda ev: ev[boot]["post"].update({"lastKnown": 0}), {("C03", "e2e.boot.start_not_persisted")})
    return fails
