"""C18 - client store is consistent, reloadable; abandon deletes exactly one tower (DESIGN.md section 6, C18).

spec/ClientStore.tla is the oracle (operators store -> store, intended design; deviation S16 named separately).
 1. TLC checks MemEqDisk / ReloadFixpoint / AbandonExact / SharedBodies on MC_ClientStore with DEVIATIONS = {} (the intended
    design must have the property, otherwise exit 2); thorough: also with DEVIATIONS = {"S16"}, where a counterexample is expected.
 2. spec -> impl: TLC prints the labelled state graph (every (store, operation, successor) once, DEVIATIONS = {"S16"} so that
    an abandon has the intended and the known-deviating successor); harness/store_rig walks it on the real WTClient over an
    on-disk SQLite file: every (store, operation) pair the implementation can reach is executed on a client that was driven to
    that store, memory / raw rows / load paths are compared with the specification's successor, a reload is one of the
    operations of every store.  Additionally every operation sequence up to a small length is executed literally from an empty
    directory.
 3. impl -> spec: seeded random histories (more towers and locators, thousands of calls) are recorded by store_rig and judged
    event by event by spec/Trace_ClientStore.tla; one corrupted cell must be rejected (binding self-test).
"""
import hashlib
import json
import os
import random
import subprocess
import time

from common import BIN, ToolError, Verdict, build, log, seed, tlc, unwrap_print, validate_trace, workdir, write_evidence

PID = "C18"

SITE = {
    "register": "watchtower-plugin/src/wt_client.rs::add_update_tower",
    "receipt": "watchtower-plugin/src/wt_client.rs::add_appointment_receipt",
    "pending": "watchtower-plugin/src/wt_client.rs::add_pending_appointment",
    "invalid": "watchtower-plugin/src/wt_client.rs::add_invalid_appointment",
    "misbehaving": "watchtower-plugin/src/wt_client.rs::flag_misbehaving_tower",
    "p2m": "watchtower-plugin/src/wt_client.rs::flag_misbehaving_tower",
    "p2a": "watchtower-plugin/src/wt_client.rs::remove_pending_appointment",
    "p2i": "watchtower-plugin/src/wt_client.rs::remove_pending_appointment",
    "giveup": "watchtower-plugin/src/wt_client.rs::set_tower_status",
    "retry": "watchtower-plugin/src/wt_client.rs::set_tower_status",
    "abandon": "watchtower-plugin/src/wt_client.rs::remove_tower",
    "ghost": "watchtower-plugin/src/wt_client.rs (unknown tower)",
    "reload": "watchtower-plugin/src/dbm.rs::load_towers",
    "start": "watchtower-plugin/src/wt_client.rs::new",
}


def tset(names):
    return "{%s}" % ", ".join('"%s"' % n for n in names)


def consts(cfg, emit, deviations):
    return {"Towers": tset(cfg["towers"]), "Locators": tset(cfg["locators"]), "MaxOps": cfg["max_ops"],
            "MaxRenew": cfg["max_renew"], "Emit": "TRUE" if emit else "FALSE", "DEVIATIONS": tset(deviations)}


def canon(v):
    """Order-insensitive text of an abstract value (every array is a set)."""
    if isinstance(v, dict):
        return "{" + ",".join(sorted(json.dumps(k) + ":" + canon(x) for k, x in v.items())) + "}"
    if isinstance(v, list):
        return "[" + ",".join(sorted(canon(x) for x in v)) + "]"
    return json.dumps(v)


def model_check(wd, cfg, stats):
    """The intended design has the property (all invariants of MC_ClientStore.cfg)."""
    r = tlc("MC_ClientStore", "MC_ClientStore.cfg", wd, workers=8, consts=consts(cfg, False, []), timeout=3000)
    if not r.ok:
        raise ToolError("the specification itself (DEVIATIONS = {}) violates %s for %s" % (r.violated, cfg))
    stats["states"] += r.distinct
    stats["transitions"] += r.generated
    stats["mc"].append({"config": cfg, "deviations": [], "tlc_distinct": r.distinct, "tlc_generated": r.generated,
                        "depth": r.depth, "invariants": "hold", "tlc_wall_s": round(r.wall, 1)})


def deviation_check(wd, cfg, stats):
    """Anti-vacuity: with the code's known deviation switched on TLC must find AbandonExact / SharedBodies violated."""
    r = tlc("MC_ClientStore", "MC_ClientStore.cfg", wd, workers=1, consts=consts(cfg, False, ["S16"]), timeout=3000)
    if r.ok or r.violated not in ("InvAbandonExact", "InvSharedBodies"):
        raise ToolError("DEVIATIONS = {S16} was expected to violate AbandonExact / SharedBodies, TLC said ok=%s violated=%s"
                        % (r.ok, r.violated))
    stats["mc"].append({"config": cfg, "deviations": ["S16"], "expected_counterexample": r.violated,
                        "tlc_distinct": r.distinct, "tlc_wall_s": round(r.wall, 1)})


def emit_graph(wd, cfg, name, stats):
    """TLC prints every transition of MC_ClientStore (both successors of a deviating abandon); -> indexed graph file."""
    ids = {}
    states = []
    edges = set()
    elist = []
    init = []
    nlines = [0]

    def sid(st):
        k = canon(st)
        i = ids.get(k)
        if i is None:
            i = len(states)
            ids[k] = i
            states.append(st)
        return i

    def on_line(line):
        tag, val = unwrap_print(line)
        if val is None or val[1] is None:
            if tag in ("EDGE", "INIT"):
                raise ToolError("cannot parse a %s line printed by TLC" % tag)
            return
        if tag == "INIT":
            init.append(val[1])
            sid(val[1])
        elif tag == "EDGE":
            nlines[0] += 1
            e = val[1]
            a, b = sid(e["from"]), sid(e["to"])
            k = hashlib.sha1(("%d|%d|%s|%s" % (a, b, e["dev"], canon(e["op"]))).encode()).digest()
            if k not in edges:
                edges.add(k)
                elist.append((a, b, e["op"], e["dev"]))

    r = tlc("MC_ClientStore", "MC_ClientStoreGraph.cfg", wd, workers=4, consts=consts(cfg, True, ["S16"]),
            want_lines=on_line, timeout=3000)
    if not r.ok:
        raise ToolError("MC_ClientStoreGraph: %s" % r.violated)
    if not init:
        raise ToolError("TLC printed no INIT line")
    # TLC's workers print in any order: renumber the stores and order the edges canonically, so that the graph file (and the
    # walk over it) is the same in every run
    order = sorted(range(len(states)), key=lambda i: canon(states[i]))
    newid = {old: new for new, old in enumerate(order)}
    states = [states[i] for i in order]
    ids = {k: newid[i] for k, i in ids.items()}
    elist = sorted(((newid[a], newid[b], op, dev) for (a, b, op, dev) in elist), key=lambda e: (e[0], canon(e[2]), e[3], e[1]))
    path = os.path.join(wd, "graph_%s.ndjson" % name)
    with open(path, "w") as f:
        f.write(json.dumps({"init": init[0]}) + "\n")
        for i, st in enumerate(states):
            f.write(json.dumps({"s": i, "state": st}) + "\n")
        for (a, b, op, dev) in elist:
            f.write(json.dumps({"e": [a, b], "op": op, "dev": dev}) + "\n")
    # what the intended design alone reaches (successors with dev = "" only): the least the walk has to visit
    succ = {}
    pairs = {}
    for (a, b, op, dev) in elist:
        pairs.setdefault(a, set()).add(canon(op))
        if dev == "":
            succ.setdefault(a, set()).add(b)
    seen = {ids[canon(init[0])]}
    todo = list(seen)
    while todo:
        x = todo.pop()
        for y in succ.get(x, ()):
            if y not in seen:
                seen.add(y)
                todo.append(y)
    info = {"config": cfg, "graph_states": len(states), "graph_edges": len(elist), "edge_lines_printed": nlines[0],
            "deviating_edges": sum(1 for e in elist if e[3]), "tlc_distinct": r.distinct, "tlc_generated": r.generated,
            "intended_states": len(seen), "intended_pairs": sum(len(pairs.get(x, ())) for x in seen),
            "tlc_wall_s": round(r.wall, 1)}
    stats["graphs"].append(info)
    return path, info


def start_rig(args):
    return subprocess.Popen([os.path.join(BIN, "store_rig")] + args, stdout=subprocess.PIPE, stderr=subprocess.PIPE, text=True)


def finish_rig(proc, what, timeout=6000):
    try:
        out, err = proc.communicate(timeout=timeout)
    except subprocess.TimeoutExpired:
        proc.kill()
        raise ToolError("store_rig %s timed out" % what)
    if proc.returncode != 0:
        raise ToolError("store_rig %s failed: %s" % (what, err[-2000:]))
    return json.loads(out.strip().splitlines()[-1])


def run_rig(args, timeout=6000):
    return finish_rig(start_rig(args), args[0], timeout)


def classify(res, cfg, mode, verdict):
    """Deviation uses and mismatches of one rig run -> verdict."""
    for dev, cnt in res["dev_hits"].items():
        sample = next((x for x in res["dev_samples"] if x["dev"] == dev), None)
        for _ in range(cnt):
            if dev == "S16":
                verdict.disagree("AbandonExact+SharedBodies:S16", "watchtower-plugin/src/dbm.rs::remove_tower_record",
                                 "abandon-last-reference-to-body",
                                 "abandoning the only tower that references an appointment body leaves the body in the "
                                 "appointments table (e.g. %s)" % json.dumps([o for o in (sample or {}).get("path", [])]),
                                 {"config": cfg, "mode": mode, "sample": sample})
            else:
                verdict.disagree("deviation:" + dev, "watchtower-plugin/src/dbm.rs", "enumerated",
                                 "deviation %s was observed" % dev, {"config": cfg, "mode": mode, "sample": sample})
    for m in res["first"]:
        k = m["op"].get("k", "?")
        differs = m.get("differs", [])
        tag = "+".join(differs) if differs else "state"
        what = "%s: %s differ(s) from ClientStore.tla after %s (sequence of %d operations)" % (
            SITE.get(k, k), ", ".join(differs), json.dumps(m["op"]), len(m.get("path", [])))
        if "panic" in m:
            what += " - the store panicked: %s" % m["panic"][:200]
        verdict.disagree(tag, SITE.get(k, k), "enumerated", what,
                         {"config": cfg, "mode": mode, "path": m.get("path", []), "mismatch": m})


def start_spec_to_impl(wd, cfg, name, maxlen, seq_k, seq_mode, stats):
    """Graph from TLC, then the rig processes (walk and literal sequences) are started; see finish_spec_to_impl."""
    graph, info = emit_graph(wd, cfg, name, stats)
    job = {"cfg": cfg, "name": name, "graph": graph, "info": info, "seq_k": seq_k, "seq_mode": seq_mode,
           "walk": start_rig(["walk", graph, os.path.join(wd, "run_" + name), str(maxlen)]), "seqs": None}
    if seq_k:
        job["seqs"] = start_rig(["seqs", graph, os.path.join(wd, "seq_" + name), str(seq_k), seq_mode])
    return job


def finish_spec_to_impl(job, verdict, stats):
    cfg, info = job["cfg"], job["info"]
    res = finish_rig(job["walk"], "walk " + job["name"])
    rs = finish_rig(job["seqs"], "seqs " + job["name"]) if job["seqs"] else None
    ex = res["extra"]
    if rs:
        # first: the literal sequences give the shortest scripts for the replay files
        classify(rs, cfg, "seqs", verdict)
    classify(res, cfg, "walk", verdict)
    if "visited_states" not in ex:
        return
    if res["mismatches"] == 0:
        # the walk is complete: everything the implementation can reach was covered, and that is at least what the
        # intended design reaches
        if ex["pairs_covered"] != ex["pairs_of_visited_states"] or ex["irreproducible_targets"]:
            raise ToolError("walk incomplete without a mismatch: %s" % ex)
        if not res["dev_hits"] and (ex["visited_states"] != info["intended_states"] or
                                    ex["pairs_covered"] != info["intended_pairs"]):
            raise ToolError("walk covered %s, the intended design has %d states / %d pairs" %
                            (ex, info["intended_states"], info["intended_pairs"]))
        if ex["visited_states"] < info["intended_states"]:
            raise ToolError("walk visited fewer states than the intended design reaches: %s" % ex)
    stats["behaviours"] += res["behaviours"]
    stats["steps"] += res["steps"]
    stats["comparisons"] += res["comparisons"]
    stats["pairs"] += ex["pairs_covered"]
    stats["walks"].append({"config": cfg, "behaviours": res["behaviours"], "steps": res["steps"],
                           "visited_states": ex["visited_states"], "pairs_covered": ex["pairs_covered"],
                           "pairs_of_visited_states": ex["pairs_of_visited_states"], "mismatches": res["mismatches"],
                           "deviation_uses": res["dev_hits"], "op_kinds": res["op_kinds"]})
    for k, v in res["op_kinds"].items():
        stats["op_kinds"][k] = stats["op_kinds"].get(k, 0) + v
    if res["dev_samples"] and len(stats["samples"]) < 3:
        d = res["dev_samples"][0]
        stats["samples"].append({"kind": "deviation S16 observed", "operations": d["path"],
                                 "observed_bodies": d["observed"]["db"]["bodies"],
                                 "intended_bodies": (d.get("intended") or {}).get("db", {}).get("bodies")})
    if rs:
        stats["behaviours"] += rs["behaviours"]
        stats["sequences"] += rs["extra"]["sequences"]
        stats["steps"] += rs["steps"]
        stats["comparisons"] += rs["comparisons"]
        stats["seqs"].append({"config": cfg, "k": job["seq_k"], "mode": job["seq_mode"],
                              "sequences": rs["extra"]["sequences"], "maximal": rs["extra"]["maximal"], "steps": rs["steps"],
                              "mismatches": rs["mismatches"], "deviation_uses": rs["dev_hits"]})


def classify_tags(tags, trace, shape, verdict):
    kinds = {}
    first_real = min([t[0] for t in tags if t[1] != "HARNESS" and t[2] != "S16"] or [1 << 60])
    for t in sorted(tags, key=lambda x: x[0]):
        line, who, what = t[0], t[1], t[2]
        kinds[what] = kinds.get(what, 0) + 1
        if who == "HARNESS":
            # the generator reads the real state: once that state is wrong (already reported) it may be confused
            if line <= first_real:
                raise ToolError("store_rig random made a call the plugin cannot make (%s, line %d of %s)" % (what, line, trace))
            continue
        if what == "S16":
            verdict.disagree("AbandonExact+SharedBodies:S16", "watchtower-plugin/src/dbm.rs::remove_tower_record",
                             "abandon-last-reference-to-body",
                             "abandoning the only tower that references an appointment body leaves the body in the "
                             "appointments table (random trace %s line %d)" % (trace, line),
                             {"trace": trace, "line": line, "shape": shape})
        else:
            verdict.disagree(what, "watchtower-plugin/src (random trace)", "random",
                             "trace %s line %d: %s disagrees with ClientStore.tla" % (trace, line, what),
                             {"trace": trace, "line": line, "tag": t, "shape": shape})
    return kinds


def impl_to_spec(wd, nt, nl, nops, sd, verdict, stats):
    """A long random history of plugin-performable calls on the real store, judged step by step by Trace_ClientStore.tla."""
    tr = os.path.join(wd, "trace_t%d_l%d_s%d.ndjson" % (nt, nl, sd))
    res = run_rig(["random", str(nt), str(nl), str(nops), str(sd), os.path.join(wd, "rnd_%d" % sd), tr])
    with open(tr, "a") as f:
        f.write('{"ev":"end"}\n')
    tags, consumed, r = validate_trace("Trace_ClientStore", "Trace_ClientStore.cfg", tr, wd)
    shape = {"towers": nt, "locators": nl, "ops": nops, "seed": sd}

    def judge():
        # called after the enumerated walks were classified, so that their short scripts become the replay files
        classify_tags(tags, tr, shape, verdict)
        if res["panicked"]:
            verdict.disagree("panic", SITE.get(res["panicked"]["op"].get("k"), "?"), "random",
                             "the store panicked in a random history: %s" % json.dumps(res["panicked"])[:400],
                             {"trace": tr, "shape": shape, "panic": res["panicked"]})

    stats["deferred"].append(judge)
    kinds = {}
    for t in tags:
        kinds[t[2]] = kinds.get(t[2], 0) + 1
    stats["traces"] += 1
    stats["events"] += consumed
    stats["random"].append(dict(shape, events=consumed, tags=kinds, op_kinds=res["op_kinds"], tlc_wall_s=round(r.wall, 1)))
    if len(stats["samples"]) < 3:
        with open(tr) as f:
            lines = [json.loads(next(f)) for _ in range(4)]
        stats["samples"].append({"kind": "impl->spec trace (first events)", "shape": shape,
                                 "events": [{"op": e.get("op"), "res": e.get("res"), "post": e["post"]} for e in lines[1:4]]})
    return tr


def binding_selftest(wd, tr):
    """One logged cell is corrupted: the validator has to object at exactly that line (the trace is really being judged)."""
    lines = open(tr).read().splitlines()
    target = None
    for i, ln in enumerate(lines):
        e = json.loads(ln)
        if e.get("ev") == "op" and e["post"]["db"]["towers"] and i > 5:
            e["post"]["db"]["towers"][0]["slots"] += 1
            lines[i] = json.dumps(e)
            target = i + 1
            break
    if target is None:
        raise ToolError("binding self-test: no event to corrupt")
    bad = os.path.join(wd, "selftest_corrupt.ndjson")
    open(bad, "w").write("\n".join(lines) + "\n")
    tags, _, _ = validate_trace("Trace_ClientStore", "Trace_ClientStore.cfg", bad, wd)
    if not any(t[0] == target and t[2] in ("db.towers", "MemEqDisk") for t in tags):
        raise ToolError("binding self-test: a corrupted slots cell at line %d was not rejected by Trace_ClientStore" % target)
    return target


def sample_behaviour(graph, n=6):
    """A short path of the graph (operations with the expected store after the last one) for the evidence file."""
    states = {}
    out = {}
    init = None
    with open(graph) as f:
        for ln in f:
            v = json.loads(ln)
            if "init" in v:
                init = v["init"]
            elif "s" in v:
                states[v["s"]] = v["state"]
            elif v["e"][0] != v["e"][1] and v["op"]["k"] not in ("reload",) and v["dev"] == "":
                out.setdefault(v["e"][0], []).append(v)
    cur = next(i for i, s in states.items() if canon(s) == canon(init))
    ops = []
    for i in range(n):
        es = out.get(cur)
        if not es:
            break
        e = es[(i * 7 + 3) % len(es)]
        ops.append(e["op"])
        cur = e["e"][1]
    return {"kind": "path of the graph", "operations": ops, "expected_store_after": states[cur]}


def replay(path):
    """Re-executes the operation sequence of a recorded violation on the current tree."""
    rp = json.load(open(path))["replay"]
    if "steps" in rp.get("scenario", {}):
        # a script for the plugin binary (binary_tier)
        import clientlib as L
        wd = workdir(PID)
        client, _ = L.build_all()
        verdict = Verdict(PID)
        res, sdir = L.run_scenarios([rp["scenario"]], wd, client)
        tags_of, _ = L.validate_many([rp["scenario"]["name"]], sdir, wd)
        for (ln, prop, what, n) in tags_of[rp["scenario"]["name"]]:
            if prop == PID:
                verdict.disagree(what, "watchtower-client binary", (rp["scenario"].get("covers") or ["-"])[0],
                                 "C18: %s in scenario %s line %d" % (what, n, ln), {"scenario": rp["scenario"], "tag": what})
        return 1 if verdict.finish() else 0
    if "shape" in rp:
        # a random trace: same shape and seed again
        sh = rp["shape"]
        wd = workdir(PID)
        build(["store_rig"])
        verdict = Verdict(PID)
        stats = {"traces": 0, "events": 0, "random": [], "samples": [], "deferred": []}
        impl_to_spec(wd, sh["towers"], sh["locators"], sh["ops"], sh["seed"], verdict, stats)
        for judge in stats["deferred"]:
            judge()
        log("replayed the random history %s: tags %s" % (sh, stats["random"][0]["tags"]))
        return 1 if verdict.finish() else 0
    cfg = rp["config"]
    ops = rp.get("path") or (rp.get("sample") or {}).get("path") or []
    wd = workdir(PID)
    build(["store_rig"])
    stats = {"graphs": []}
    graph, _ = emit_graph(wd, cfg, "replay", stats)
    opsf = os.path.join(wd, "replay_ops.json")
    json.dump(ops, open(opsf, "w"))
    res = run_rig(["path", graph, os.path.join(wd, "run_replay"), opsf])
    verdict = Verdict(PID)
    classify(res, cfg, "replay", verdict)
    log("replayed %d operations: %d mismatches, deviations %s" % (res["steps"], res["mismatches"], res["dev_hits"]))
    return 1 if verdict.finish() else 0


def binary_tier(wd, tier, verdict, stats):
    """C18 in the flows only the plugin binary has (duplicate notifications, re-delivery, answers that arrive after a
    tower was flagged): the real watchtower-client is driven by harness/client_rig against scripted towers and
    Trace_Client.tla (see lib/clientlib.py) compares what listtowers reports with what is stored after every step; the
    disagreements it attributes to C18 (slot counts, misbehaving <=> proof stored) are judged here."""
    import clientlib as L
    client, _ = L.build_all()
    scens = L.fam_duplicates("c18") + L.fam_misbehaving_late("c18") + L.fam_abandon("c18") + L.fam_restart("c18") + \
        [s for s in L.fam_register("c18") if "other-address" in s["name"] or "reg2-ok" in s["name"]] + \
        [s for s in L.regression_scripts() if any(k in s["name"] for k in ("S15", "S18", "S21", "S22"))]
    if tier != "quick":
        rng = random.Random(seed() * 31 + 18)
        scens += L.fam_random("c18", rng, 60) + L.fam_kill("c18", rng, 20)
    bdir = os.path.join(wd, "binary")
    os.makedirs(bdir, exist_ok=True)
    res, sdir = L.run_scenarios(scens, bdir, client)
    names = [s["name"] for s in scens]
    tags_of, lines = L.validate_many(names, sdir, bdir)
    by_name = {s["name"]: s for s in scens}
    hits = 0
    for n in names:
        if res[n]["inconclusive"]:
            continue
        for (ln, prop, what, _n) in tags_of[n]:
            if prop != PID:
                continue
            hits += 1
            verdict.disagree(what, "watchtower-client binary", (by_name[n].get("covers") or ["-"])[0],
                             "C18: %s in scenario %s (trace %s line %d): what the client reports is not what it has stored"
                             % (what, n, os.path.join(sdir, n + ".ndjson"), ln),
                             {"scenario": by_name[n], "tag": what, "line": ln})
    stats["binary"] = {"scenarios": len(names), "trace_lines_validated": lines, "c18_tags": hits}


def main(tier, replay_path=None):
    if replay_path:
        return replay(replay_path)
    t0 = time.time()
    wd = workdir(PID)
    build(["store_rig"])
    verdict = Verdict(PID)
    stats = {"states": 0, "transitions": 0, "mc": [], "graphs": [], "walks": [], "seqs": [], "behaviours": 0, "steps": 0,
             "comparisons": 0, "pairs": 0, "sequences": 0, "op_kinds": {}, "samples": [], "traces": 0, "events": 0,
             "random": [], "deferred": []}
    t2l2 = {"towers": ["t1", "t2"], "locators": ["l1", "l2"], "max_renew": 2}
    if tier == "quick":
        plan = [(dict(t2l2, max_ops=5), "t2l2o5", 3, "all")]
        mc = [dict(t2l2, max_ops=6)]
        dev = []
        rnd = [(4, 12, 2000), (3, 4, 1500)]
    else:
        plan = [(dict(t2l2, max_ops=7), "t2l2o7", 4, "moving"),
                ({"towers": ["t1", "t2", "t3"], "locators": ["l1", "l2"], "max_renew": 1, "max_ops": 5}, "t3l2o5", 0, "all"),
                ({"towers": ["t1", "t2"], "locators": ["l1", "l2", "l3"], "max_renew": 1, "max_ops": 5}, "t2l3o5", 0, "all")]
        mc = [dict(t2l2, max_ops=8),
              {"towers": ["t1", "t2", "t3"], "locators": ["l1", "l2"], "max_renew": 1, "max_ops": 6}]
        dev = [dict(t2l2, max_ops=4)]
        rnd = [(4, 12, 4000), (3, 6, 4000), (5, 10, 4000), (2, 20, 4000), (4, 12, 4000), (3, 3, 4000), (6, 8, 4000), (9, 12, 4000)]
    jobs = []
    try:
        # the rigs run while TLC model-checks the larger bounds
        for (cfg, name, seq_k, seq_mode) in plan:
            jobs.append(start_spec_to_impl(wd, cfg, name, 60, seq_k, seq_mode, stats))
        for cfg in mc:
            model_check(wd, cfg, stats)
        for cfg in dev:
            deviation_check(wd, cfg, stats)
        first = None
        for i, (nt, nl, nops) in enumerate(rnd):
            tr = impl_to_spec(wd, nt, nl, nops, seed() * 1000 + i, verdict, stats)
            first = first or tr
        stats["selftest_line"] = binding_selftest(wd, first)
        for job in jobs:
            finish_spec_to_impl(job, verdict, stats)
        for judge in stats["deferred"]:
            judge()
        binary_tier(wd, tier, verdict, stats)
    finally:
        for job in jobs:
            for k in ("walk", "seqs"):
                if job[k] is not None and job[k].poll() is None:
                    job[k].kill()
    stats["samples"].insert(0, sample_behaviour(jobs[0]["graph"]))
    nviol = verdict.finish()
    write_evidence(PID, tier, "model_checking", {
        "states": stats["states"],
        "transitions": stats["transitions"],
        "traces_validated_against_impl": stats["behaviours"] + stats["traces"],
        "evaluations": stats["steps"],
        "distinct_nontrivial": stats["pairs"],
        "rule": "model checking: TLC checks WellFormed, MemEqDisk, ReloadFixpoint, AbandonExact, SharedBodies on every store "
                "reachable by <= MaxOps plugin-performable operations (reloads free) with DEVIATIONS = {}. spec->impl: TLC "
                "prints every (store, operation, successor) of the graph; store_rig executes every (store, operation) pair "
                "the implementation reaches on a real WTClient driven to that store (traces = runs from an empty data "
                "directory, evaluations = operations executed, distinct_nontrivial = distinct (store, operation) pairs "
                "covered, each compared on memory, raw rows, load_towers, gettowerinfo and receipt look-ups; a reload is an "
                "operation of every store); plus every operation sequence up to length k executed literally. impl->spec: "
                "seeded random histories with more towers / locators than the enumerated bounds, every event judged by "
                "Trace_ClientStore.tla (successor allowed by ClientStore.tla, answers, read paths, MemEqDisk, ReloadFixpoint)",
        "exhaustive": True,
        "model_checking_runs": stats["mc"],
        "graphs": stats["graphs"],
        "walks": stats["walks"],
        "literal_sequences": stats["seqs"],
        "random_traces": stats["random"],
        "random_trace_events": stats["events"],
        "trace_binding_selftest": "corrupted cell at line %d rejected" % stats["selftest_line"],
        "impl_operations_executed": stats["steps"],
        "impl_comparisons": stats["comparisons"],
        "impl_operations_by_kind": stats["op_kinds"],
        "plugin_binary_tier": stats.get("binary", {}),
        "known_findings_hit": verdict.known_hits,
        "samples": stats["samples"][:4],
    }, [
        "the walk covers each (store, operation) pair once: it relies on the implementation's behaviour being a function of the "
        "tables and the summaries, both of which are compared completely after every step (literal sequences up to k do not)",
        "call sequences mirror main.rs / retrier.rs: no second record for one (tower, locator) (S15, C05), no remove_pending on "
        "its own, answers for a reachable tower only, kills inside a multi-call flow are not modelled (C05)",
        "store_rig's concretisation: tower / locator names -> fixed keys and locators, receipts signed with real keys; PRAGMA "
        "synchronous=OFF on the client's connection (durability against power loss is not part of C18)",
    ], time.time() - t0, nviol)
    return 1 if nviol else 0
