"""C05 - the client never loses an appointment, whatever the towers do (DESIGN.md section 6).
Specification spec/Client.tla (NeverLost, ExactlyOne, DataForResend), real watchtower-client binary driven by
harness/client_rig against scripted fake towers, traces judged by spec/Trace_Client.tla."""
import clientlib as L

PID = "C05"
CLASSES = ["accept", "sub_error", "reject", "garbage", "broken", "badsig", "malsig"]


def scenarios(rng, tier, wd, stats):
    q = tier == "quick"
    sc = L.regression_scripts()
    np_ = L.fam_notify_path("c05", CLASSES)
    rp = L.fam_retry_path("c05", CLASSES)
    if q:
        # one representative of every class (and three shapes of garbage) is enough for the quick tier
        keep = lambda s: not any(("garbage%d" % i) in s["name"] or ("malsig%d" % i) in s["name"] for i in range(3, 10))
        np_ = [s for s in np_ if keep(s)]
        rp = [s for s in rp if keep(s) and "garbage2" not in s["name"] and "malsig2" not in s["name"]]
    sc += np_ + rp + L.fam_duplicates("c05") + L.fam_abandon("c05") + L.fam_restart("c05") + L.fam_kill("c05", rng, 8 if q else 120)
    sc += L.fam_outage("c05", [1200] if q else [300, 1200, 2600, 4000])
    sc += L.tlc_scripts("c05", rng, wd, stats, 10 if q else 150)
    sc += L.fam_random("c05", rng, 10 if q else 250)
    return sc


RULE = ("families: every reply class (accept, refuse, subscription error, other API error, 10 kinds of non-JSON / wrong-shape "
        "body, bad signature, 6 malformed signatures) on the notification path (1 and 2 towers) and on the retry path; "
        "duplicate notifications of accepted / pending / invalid appointments; abandontower of one tower while another holds "
        "accepted / pending / invalid appointments (shared data or not), checked again after a restart; SIGKILL while pending, while a request is "
        "in flight, in the hook, and at random delays after a tower's answer, followed by a restart; outages; scripts made "
        "from TLC -simulate behaviours of MC_ClientGen (visible actions; towers hold every request so that answers come in "
        "the order and with the class the specification chose); seeded random fault sequences; regression scripts of the "
        "confirmed findings. Every trace is validated by Trace_Client.tla. non-trivial = contains a non-accept answer, an "
        "outage, a kill or a panic; distinct = distinct multiset of (event, method, endpoint, reply class, answer)")


def main(tier, replay=None):
    return L.run_check(PID, tier, replay, scenarios, RULE)
