"""C19 - recent-block look-ups equal the last N blocks of the active chain (DESIGN.md section 6, C19)."""
import json
import os
import subprocess
import time

import random

import towerlib as T
from common import (BIN, ToolError, Verdict, build, log, seed, tlc, unwrap_print, validate_trace, workdir,
                    write_evidence)

PID = "C19"


def spec_to_impl(wd, n, keys, maxops, verdict, stats, deviation_probe=False):
    """TLC enumerates every behaviour of MC_TxIndex for (n, keys, maxops); each is replayed on the real index."""
    replay_file = os.path.join(wd, "replay_n%d_k%d_o%d.ndjson" % (n, keys, maxops))
    out = open(replay_file, "w")
    count = [0]
    sample = []

    def on_line(line):
        tag, val = unwrap_print(line)
        if tag == "REPLAY" and val and val[1] is not None:
            out.write(json.dumps(val[1]) + "\n")
            count[0] += 1
            if len(sample) < 1 and count[0] % 7 == 3:
                sample.append(val[1])

    r = tlc("MC_TxIndex", "MC_TxIndex.cfg", wd, workers=4,
            consts={"N": n, "Keys": "{%s}" % ", ".join(str(i) for i in range(1, keys + 1)), "MaxOps": maxops,
                    "H0": 10 + n, "Emit": "TRUE"}, want_lines=on_line, timeout=3000)
    out.close()
    if not r.ok:
        raise ToolError("the specification itself violates %s for N=%d" % (r.violated, n))
    p = subprocess.run([os.path.join(BIN, "txindex_rig"), "replay", replay_file], stdout=subprocess.PIPE,
                       stderr=subprocess.PIPE, text=True, timeout=3000)
    if p.returncode != 0:
        raise ToolError("txindex_rig replay failed: " + p.stderr[-2000:])
    res = json.loads(p.stdout.strip().splitlines()[-1])
    stats["states"] += r.distinct
    stats["transitions"] += r.generated
    stats["behaviours"] += res["behaviours"]
    stats["steps"] += res["steps"]
    stats["comparisons"] += res["comparisons"]
    stats["configs"].append({"N": n, "keys": keys, "max_ops": maxops, "tlc_distinct": r.distinct,
                             "behaviours_replayed": res["behaviours"], "mismatching_steps": res["mismatches"],
                             "tlc_wall_s": round(r.wall, 1)})
    if sample:
        stats["samples"].append({"direction": "spec->impl", "behaviour": sample[0]})
    if res["behaviours"] != count[0]:
        raise ToolError("replayed %d of %d behaviours" % (res["behaviours"], count[0]))
    # classification of the (first) mismatches
    for m in res["first"]:
        if m.get("abort"):
            verdict.disagree("abort", "teos/src/tx_index.rs", "any", "the real index panicked while replaying behaviour %d of %s"
                             % (m["line"], replay_file), m)
            continue
        differs = set(m["differs"])
        op = m["op"]
        got = m["got"]
        if differs <= {"hts_txid", "hts_loc"}:
            # explained by deviation S1 iff every reported height is the true height + (N - blocks held)
            exp = op["obs"]["hts"]
            held = sum(1 for h in exp if h != 0)
            s1 = [h + (n - held) if h != 0 else 0 for h in exp]
            if got["hts_txid"] == s1 or got["hts_loc"] == s1:
                verdict.disagree("get_height:S1", "teos/src/tx_index.rs::get_height", "after-disconnect-before-refill",
                                 "get_height reports %s instead of %s after a disconnect (N=%d)" % (got["hts_txid"], exp, n),
                                 {"file": replay_file, "line": m["line"], "step": m["step"]})
                continue
        verdict.disagree("+".join(sorted(differs)), "teos/src/tx_index.rs", "enumerated",
                         "look-ups differ from the specification: %s (N=%d, behaviour %d step %d)" %
                         (sorted(differs), n, m["line"], m["step"]),
                         {"n": n, "behaviour": m})
    return res["mismatches"]


def impl_to_spec(wd, n, ops, sd, verdict, stats):
    """Random connects / disconnects at production size on the real index, validated by Trace_TxIndex."""
    tr = os.path.join(wd, "trace_n%d_s%d.ndjson" % (n, sd))
    p = subprocess.run([os.path.join(BIN, "txindex_rig"), "random", str(n), str(ops), str(sd), tr],
                       stdout=subprocess.PIPE, stderr=subprocess.PIPE, text=True, timeout=3000)
    if p.returncode != 0:
        raise ToolError("txindex_rig random failed: " + p.stderr[-2000:])
    with open(tr, "a") as f:
        f.write('{"ev":"end"}\n')
    tags, consumed, r = validate_trace("Trace_TxIndex", "Trace_TxIndex.cfg", tr, wd)
    stats["traces"] += 1
    stats["events"] += consumed
    kinds = {}
    for t in tags:
        kinds[t[2]] = kinds.get(t[2], 0) + 1
        if t[2] == "get_height:S1":
            verdict.disagree("get_height:S1", "teos/src/tx_index.rs::get_height", "after-disconnect-before-refill",
                             "get_height too high after a disconnect (N=%d, trace line %d)" % (n, t[0]),
                             {"trace": tr, "line": t[0]})
        else:
            verdict.disagree(t[2], "teos/src/tx_index.rs", "random", "trace %s line %d: %s disagrees with TxIndex.tla"
                             % (tr, t[0], t[2]), {"trace": tr, "line": t[0], "tag": t})
    with open(tr) as f:
        lines = f.readlines()
    disc = sum(1 for ln in lines if '"disconnect"' in ln)
    stats["disconnects"] += disc
    if len(stats["samples"]) < 3:
        stats["samples"].append({"direction": "impl->spec", "N": n, "events": [json.loads(x) for x in lines[1:4]]})
    return kinds


def main(tier, replay=None):
    t0 = time.time()
    wd = workdir(PID)
    build(["txindex_rig"])
    verdict = Verdict(PID)
    stats = {"states": 0, "transitions": 0, "behaviours": 0, "steps": 0, "comparisons": 0, "configs": [],
             "samples": [], "traces": 0, "events": 0, "disconnects": 0}
    if tier == "quick":
        grid = [(1, 2, 5), (2, 2, 6), (3, 2, 6)]
        rnd = [(6, 1500), (100, 1500)]
    else:
        grid = [(1, 2, 7), (2, 2, 8), (3, 2, 8), (2, 3, 6), (3, 3, 7), (4, 2, 8)]
        rnd = [(6, 6000), (100, 6000), (6, 6000), (100, 6000), (2, 3000), (1, 2000)]
    for (n, k, o) in grid:
        spec_to_impl(wd, n, k, o, verdict, stats)
    sd = seed()
    for i, (n, ops) in enumerate(rnd):
        impl_to_spec(wd, n, ops, sd * 1000 + i, verdict, stats)
    # the same reference model inside the tower: Trace_Tower.tla keeps wCache / rIndex as TxIndex.tla lists and compares
    # the look-ups the real Watcher / Responder report (verif hook) after every chain event of reorg-heavy histories
    build(["tower_rig"])
    rng = random.Random(sd)
    camp = T.Campaign(wd)
    sc = T.fam_reorg(rng, deep=(tier != "quick"))[::(3 if tier == "quick" else 1)] + T.fam_midreorg(rng) + T.fam_random(rng, 8 if tier == "quick" else 60)
    camp.run(sc, "c19tower")
    for t in camp.tags:
        if t["prop"] == "C19":
            verdict.disagree(t["what"], t["event"]["act"], "tower",
                             "C19 inside the tower: %s after %s (scenario %s, trace %s line %d)" %
                             (t["what"], t["event"]["act"], t["scenario"]["name"], t["trace"], t["line"]),
                             {"scenario": t["scenario"], "tag": [t["line"], t["prop"], t["what"]], "event": t["event"]})
    stats["tower_scenarios"] = camp.scenarios
    stats["tower_events"] = camp.events
    nviol = verdict.finish()
    write_evidence(PID, tier, "model_checking", {
        "states": stats["states"],
        "transitions": stats["transitions"],
        "traces_validated_against_impl": stats["behaviours"] + stats["traces"] + stats["tower_scenarios"],
        "evaluations": stats["behaviours"] + stats["traces"],
        "distinct_nontrivial": stats["behaviours"],
        "rule": "spec->impl: every behaviour (sequence of connect(key set)/disconnect of length MaxOps) of MC_TxIndex is "
                "distinct by construction and replayed on TxIndex<Txid,BlockHash> and TxIndex<Locator,Transaction>, all get() "
                "and get_height() results compared after every step; impl->spec: random traces at N=6/100 validated by "
                "Trace_TxIndex.tla (non-trivial = contains disconnects: all do)",
        "exhaustive": True,
        "configs": stats["configs"],
        "impl_steps_compared": stats["steps"],
        "impl_observations_compared": stats["comparisons"],
        "random_traces": stats["traces"],
        "random_trace_events": stats["events"],
        "random_trace_disconnects": stats["disconnects"],
        "tower_scenarios_with_reorgs": stats["tower_scenarios"],
        "tower_events_with_lookup_comparison": stats["tower_events"],
        "known_findings_hit": verdict.known_hits,
        "samples": stats["samples"][:4],
    }, [
        "reorg depth never exceeds the index size (C04/C19 quantifier); a key is confirmed in at most one block of the active chain",
        "txindex_rig maps model keys to fixed transactions and model block ids to real PoW-valid blocks",
    ], time.time() - t0, nviol)
    return 1 if nviol else 0
