"""C15 - every HTTP request gets a documented answer; bad ones change nothing (DESIGN.md section 6, C15).

Oracle: spec/HttpApi.tla - the decision table  abstract request |-> set of allowed (status, error code)  and the
obligations Never5xx / NeverUnexpected / JsonErrorBody (checked by TLC on the table) and Documented / Prompt / Unchanged /
NoCrash (predicates over an observation, evaluated here on what the real router did).
  spec -> impl   MC_HttpApi enumerates the whole abstract request space and prints one CASE line per abstract request
                 carrying the allowed outcome set; this module turns every case into several concrete byte strings
                 (sampled), harness/api_rig sends them over TCP to the REAL warp router in front of the REAL tonic service
                 and InternalAPI of two real towers (SQLite + simulated bitcoind) that were brought into the tower-state
                 classes of the table, and records status, headers, body, time and the durable + in-memory state before
                 and after; the comparison with the allowed set carried by the case decides.
This module has no model of the API of its own: it concretises classes into bytes and evaluates `Matches`.
"""
import binascii
import hashlib
import json
import os
import random
import struct
import subprocess
import time

from common import BIN, ToolError, Verdict, build, log, seed, tlc, unwrap_print, workdir, write_evidence

PID = "C15"
RIG = os.path.join(BIN, "api_rig")
SITE = "teos/src/api/http.rs"
MAX_SIGNATURES = 12
SIG_TOKEN = "@SIG@"

P = 2 ** 256 - 2 ** 32 - 977   # the field of secp256k1 (to build 33-byte strings that are no public key)


def hx(b):
    return binascii.hexlify(b).decode()


# ---------------------------------------------------------------------------------------------------
# TLC: the abstract domain

def enumerate_cases(wd, stats):
    cases, meta = [], []

    def on_line(line):
        tag, val = unwrap_print(line)
        if tag == "CASE" and val and val[1] is not None:
            cases.append(val[1])
        elif tag == "META" and val and val[1] is not None:
            meta.append(val[1])

    r = tlc("MC_HttpApi", "MC_HttpApi.cfg", wd, workers=4, timeout=900, want_lines=on_line,
            consts={"Emit": "TRUE", "Families": '{"route", "size", "body", "fields", "ctype", "raw"}'})
    if not r.ok:
        raise ToolError("the decision table itself violates %s" % r.violated)
    if not meta or len(cases) != r.distinct:
        raise ToolError("TLC printed %d cases for %d states" % (len(cases), r.distinct))
    stats["states"] = r.distinct
    stats["transitions"] = r.generated
    stats["tlc_wall_s"] = round(r.wall, 1)
    cases.sort(key=lambda c: json.dumps(c, sort_keys=True))
    return meta[0], cases


# ---------------------------------------------------------------------------------------------------
# concretisation: classes -> bytes

WRONG_TYPES = ["123", "1.5", "true", "false", "null", "[]", "{}", '["aa"]', '{"a":1}', "-7", "[1,2]"]
WRONG_TYPES_U32 = ['"42"', "1.5", "true", "null", "[]", "{}", '"0x10"', "1.0", '""']
WRONG_TYPES_OBJ = ['"x"', "7", "true", "false", "1.5", '""', "-1"]      # (an array would be the positional corner)
OUT_OF_RANGE = ["-1", "4294967296", "18446744073709551615", "18446744073709551616", "-2147483648", "1e30",
                "99999999999999999999999999"]
U32_VALID = [0, 1, 2 ** 31 - 1, 2 ** 31, 2 ** 32 - 1]
ZBASE = "ybndrfg8ejkmcpqxot1uwisza345h769"


def jstr(s):
    return json.dumps(s, ensure_ascii=False)


class Gen:
    def __init__(self, meta, info, rng):
        self.meta = meta
        self.info = info
        self.rng = rng
        self.fresh_i = 0

    def fresh_pk(self):
        pk = self.info["fresh"][self.fresh_i]
        self.fresh_i += 1
        return pk

    def rbytes(self, n):
        return bytes(self.rng.getrandbits(8) for _ in range(n))

    def bad_point(self):
        r = self.rng.random()
        if r < 0.3:
            return hx(bytes([self.rng.choice([0x04, 0x05, 0x00, 0x01, 0xff])]) + self.rbytes(32))
        if r < 0.4:
            return "00" * 33
        while True:     # 02/03 || x with x^3 + 7 no square: not on the curve
            x = self.rng.getrandbits(256) % P
            if pow((x ** 3 + 7) % P, (P - 1) // 2, P) != 1:
                return hx(bytes([self.rng.choice([2, 3])]) + x.to_bytes(32, "big"))

    def non_hex(self, n_chars):
        s = list(hx(self.rbytes(n_chars // 2)))
        i = self.rng.randrange(len(s))
        s[i] = self.rng.choice(["g", "Z", " ", "x", "-", "_", "%"])
        return "".join(s)

    def garbage_sig(self, budget):
        r = self.rng.random()
        n = self.info["signature_len"]
        if r < 0.25:      # the right alphabet and length, but no signature of anybody
            s = "".join(self.rng.choice(ZBASE) for _ in range(n))
        elif r < 0.4:     # right alphabet, wrong length
            s = "".join(self.rng.choice(ZBASE) for _ in range(self.rng.choice([1, 2, 50, n - 1, n + 1])))
        elif r < 0.55:
            s = self.rng.choice(["a", "!!!!not-zbase32-####", "0" * 20, "signature", "\u00e9\u00e8\u4e2d", "l0v2",
                                 "AAAA", " ", "\t"])
        elif r < 0.7:
            s = hx(self.rbytes(self.rng.choice([10, 32, 50])))
        else:
            s = "".join(chr(self.rng.choice(list(range(33, 127)))) for _ in range(self.rng.randrange(1, 60)))
        t = jstr(s)
        if len(t.encode()) > budget:
            t = jstr("a")
        return t

    def value(self, kind, cls, ctx, budget):
        """-> JSON text of the value (None: the key is left out), raw value for the signed message (or None)."""
        rng = self.rng
        if cls == "absent":
            return None, None
        if cls == "null":
            return "null", None
        if cls == "wrongtype":
            pool = WRONG_TYPES_U32 if kind == "u32" else WRONG_TYPES_OBJ if kind == "obj" else WRONG_TYPES
            return rng.choice(pool), None
        if cls == "empty":
            return '""', b""
        if kind == "key":
            if cls == "valid":
                pk = {"new": None, "reg": self.info["pk"]["reg"], "maxed": self.info["pk"]["maxed"]}[ctx["signer"]]
                pk = pk or self.fresh_pk()
                return jstr(pk if rng.random() < 0.8 else pk.upper()), binascii.unhexlify(pk)
            if cls == "wrongsize":
                n = rng.choice([1, 2, 16, 31, 32, 34, 35, 36])
                return jstr(hx(self.rbytes(n))), None
            if cls == "oddhex":
                n = rng.choice([1, 3, 65, 67, 33])
                return jstr(hx(self.rbytes(40))[:n]), None
            if cls == "nonhex":
                return jstr(self.non_hex(rng.choice([66, 66, 2, 10]))), None
            if cls == "badpoint":
                return jstr(self.bad_point()), None
        if kind == "hex16":
            if cls == "valid":
                loc = {"watched": self.info["loc"]["watched"], "triggered": self.info["loc"]["triggered"]}.get(ctx["loc"])
                if ctx["loc"] == "resolved":
                    # reading uses the first of the pool (never re-submitted); every re-submission takes the next one
                    pool = self.info["loc"]["resolved"]
                    if ctx.get("ep") == "get_appointment":
                        loc = pool[0]
                    else:
                        self.n_resolved = getattr(self, "n_resolved", 0) + 1
                        loc = pool[1 + (self.n_resolved - 1) % (len(pool) - 1)]
                loc = loc or hx(self.rbytes(16))
                return jstr(loc if rng.random() < 0.8 else loc.upper()), binascii.unhexlify(loc)
            if cls == "wrongsize":
                n = rng.choice([1, 8, 15, 17, 20, 32, 33])
                return jstr(hx(self.rbytes(n))), None
            if cls == "oddhex":
                return jstr(hx(self.rbytes(20))[:rng.choice([1, 31, 33, 3])]), None
            if cls == "nonhex":
                return jstr(self.non_hex(rng.choice([32, 32, 2, 30]))), None
        if kind == "hexvar":
            if cls == "valid":
                top = max(1, min(budget // 2, 900))
                n = rng.choice([1, 2, 16, 33, 100, 300, top, top])
                n = max(1, min(n, top))
                b = self.rbytes(n)
                return jstr(hx(b)), b
            if cls == "oddhex":
                return jstr(hx(self.rbytes(60))[:rng.choice([1, 3, 99, 101])]), None
            if cls == "nonhex":
                return jstr(self.non_hex(rng.choice([2, 64, 200]))), None
        if kind == "u32":
            if cls == "valid":
                v = rng.choice(U32_VALID + [rng.getrandbits(32), rng.randrange(1, 2000)])
                return str(v), v
            if cls == "outofrange":
                return rng.choice(OUT_OF_RANGE), None
        if kind == "sig":
            if cls in ("valid", "wrongmsg"):
                return '"%s"' % SIG_TOKEN, cls
            if cls == "garbage":
                return self.garbage_sig(min(budget, 111)), None
        if kind == "obj" and cls == "object":
            return "object", None
        raise ToolError("no concretisation for %s/%s" % (kind, cls))


def render_object(pairs, rng, style=None):
    """pairs: list of (key, json text); style: compact | spaced | shuffled"""
    style = style or rng.choice(["compact", "compact", "spaced", "shuffled"])
    pairs = list(pairs)
    if style == "shuffled":
        rng.shuffle(pairs)
    if style == "spaced":
        return "{" + ", ".join('%s: %s' % (jstr(k), v) for k, v in pairs) + "}"
    return "{" + ",".join('%s:%s' % (jstr(k), v) for k, v in pairs) + "}"


def signed_message(ep, raws, wrong):
    if ep == "add_appointment":
        loc, blob, tsd = raws.get("locator"), raws.get("encrypted_blob"), raws.get("to_self_delay")
        if loc is None or blob is None or tsd is None:
            msg = b"some bytes"
        else:
            msg = loc + blob + struct.pack(">I", tsd)
    elif ep == "get_appointment":
        loc = raws.get("locator")
        msg = b"get appointment " + (hx(loc).encode() if loc is not None else b"?")
    else:
        msg = b"get subscription info"
    return msg + (b"!" if wrong else b"")


def build_body(gen, case, ep, limit, style=None):
    """The JSON object of an endpoint request for the field classes of the case.
    -> (body text with SIG_TOKEN, sign directive or None)"""
    rng = gen.rng
    fc = case["fc"]
    ctx = {"signer": case["signer"], "loc": case["loc"], "ep": ep}
    fields = gen.meta["fields"][ep]
    inner = set(gen.meta["inner"]) if ep == "add_appointment" else set()
    kinds = gen.meta["kinds"]
    for _attempt in range(40):
        raws, outer, inner_pairs = {}, [], []
        # rough budget for variable-size values
        budget = limit - 200 if ep == "add_appointment" else limit - 20
        sig_cls = None
        for f in ["user_id", "appointment", "locator", "encrypted_blob", "to_self_delay", "signature"]:
            if f not in fields or fc[f] == "na":
                continue
            text, raw = gen.value(kinds[f], fc[f], ctx, budget)
            if kinds[f] == "sig" and fc[f] in ("valid", "wrongmsg"):
                sig_cls = fc[f]
            elif raw is not None:
                raws[f] = raw
            if f == "appointment":
                if text == "object":
                    continue
                if text is not None:
                    outer.append((f, text))
                continue
            if text is None:
                continue
            (inner_pairs if f in inner else outer).append((f, text))
        if ep == "add_appointment" and fc["appointment"] == "object":
            outer.insert(0, ("appointment", render_object(inner_pairs, rng, style)))
        body = render_object(outer, rng, style)
        sign = None
        if sig_cls:
            who = {"reg": "reg", "unreg": "unreg", "expired": "expired", "noslots": "noslots"}[case["signer"]]
            sign = {"who": who, "msg_hex": hx(signed_message(ep, raws, sig_cls == "wrongmsg"))}
        final_len = len(body.encode()) + (gen.info["signature_len"] - len(SIG_TOKEN)) * body.count(SIG_TOKEN)
        if final_len <= limit:
            return body, sign, raws
    raise ToolError("cannot fit a %s body into %d bytes for %s" % (ep, limit, fc))


TARGETS_UNKNOWN = ["/foo", "/registerx", "/Register", "/api/register", "/add_appointments", "/get_appointment_", "/v2/ping",
                   "/favicon.ico", "/%72egister2", "/.."]
JUNK_METHODS = ["FOO", "REGISTER", "post", "Get", "PROPFIND", "CONNECT", "TRACE"]
CONTENT_TYPES = {"json": ["application/json"], "absent": [None],
                 "other": ["text/plain", "application/x-www-form-urlencoded", "application/octet-stream", "text/json", "*/*",
                           "application/jsonx", "garbage"],
                 "params": ["application/json; charset=utf-8", "application/json;charset=UTF-8", "Application/JSON",
                            "application/json; foo=bar"]}


def http_head(method, target, rng, length="auto", chunked=False, ctype="json"):
    lines = ["%s %s HTTP/1.1" % (method, target), "Host: 127.0.0.1", "Connection: close"]
    ct = rng.choice(CONTENT_TYPES[ctype])
    if ct:
        lines.append("%s: %s" % (rng.choice(["Content-Type", "content-type"]), ct))
    if chunked:
        lines.append("Transfer-Encoding: chunked")
    elif length == "auto":
        lines.append("Content-Length: @CL@")
    elif length is not None:
        lines.append("Content-Length: %s" % length)
    rest = lines[1:]
    rng.shuffle(rest)
    lines = lines[:1] + rest
    return ("\r\n".join(lines) + "\r\n\r\n").encode()


def non_object_body(gen, case, ep, limit):
    rng = gen.rng
    b = case["body"]
    valid_case = dict(case)
    body, sign, _ = build_body(gen, valid_case, ep, limit, style="compact")
    if b == "empty":
        return b"", None
    if b == "notjson":
        strf = "user_id" if ep == "register" else "signature"
        pool = [b"%PDF-1.4 garbage", b"user_id=aa&x=1", b"<xml><user_id>aa</user_id></xml>", b"{'user_id': 'aa'}", b"{",
                b"}", b"{\"user_id\"}", b"{\"user_id\":}", b"{,}", b"[", b"\"", b"nul", b"tru", b"+1", b"01", b"{\"a\":1,}",
                b"\x00\x01\x02\x03", b"%" + bytes(rng.getrandbits(7) for _ in range(rng.randrange(1, 60))), b" ", b"\n",
                ('{"%s":"\\x"}' % strf).encode(), ('{"%s":"\\ud800"}' % strf).encode(), b"NaN", b"Infinity", b"/*c*/{}"]
        return rng.choice(pool)[:limit], None
    if b == "truncated":
        full = body.encode()
        cut = rng.randrange(1, len(full))
        return full[:cut], sign if SIG_TOKEN.encode() in full[:cut] else None
    if b == "nonutf8":
        full = body.encode()
        r = rng.random()
        if r < 0.5:
            i = full.index(b'":"') + 3 if b'":"' in full else 1
            return full[:i] + rng.choice([b"\xff", b"\xc3\x28", b"\xf0\x28\x8c\x28", b"\x80"]) + full[i + 1:], sign
        return bytes(rng.randrange(128, 256) for _ in range(rng.randrange(1, min(limit, 80)))), None
    if b == "trailing":
        tail = rng.choice([" x", "{}", "]", ",", "\x00", "garbage"])
        if len(body.encode()) + 99 + len(tail) > limit:
            tail = "x"
        return (body + tail).encode(), sign
    if b == "scalar":
        return rng.choice(['"a string"', "123", "null", "true", "false", "1.5", '""', "-0", '"{}"']).encode(), None
    if b == "array":
        return rng.choice(["[]", "[1,2,3]", "[null]", '[1,"a",true,null,2.5,[],{}]', "[[]]", "[true]"]).encode(), None
    if b == "deep":
        depth = max(2, min(1000, (limit - 20) // 2))
        if rng.random() < 0.5:
            depth = min(depth, rng.choice([10, 127, 128, 129, 200, depth]))
            return ("[" * depth + "]" * depth).encode(), None
        first = gen.meta["fields"][ep][0]
        depth = min(depth - 20, rng.choice([5, 127, 129, 400]))
        depth = max(depth, 2)
        return ('{"%s":%s%s}' % (first, "[" * depth, "]" * depth)).encode(), None
    if b == "positional":
        # the values of the valid object in declaration order
        obj = json.loads(body.replace(SIG_TOKEN, "SIGTOKEN"))
        if ep == "register":
            arr = [obj["user_id"]]
        elif ep == "add_appointment":
            a = obj["appointment"]
            arr = [[a["locator"], a["encrypted_blob"], a["to_self_delay"]], obj["signature"]]
        elif ep == "get_appointment":
            arr = [obj["locator"], obj["signature"]]
        else:
            arr = [obj["signature"]]
        return json.dumps(arr, separators=(",", ":")).replace("SIGTOKEN", SIG_TOKEN).encode(), sign
    if b == "dupfield":
        obj = body
        # repeat the first member of the top-level object (same value)
        first_end = find_member_end(obj)
        dup = obj[:first_end] + "," + obj[1:]
        if len(dup.encode()) + 99 * dup.count(SIG_TOKEN) > limit:
            raise Skip()
        return dup.encode(), sign
    if b == "extrafield":
        extra = rng.choice(['"x":1', '"extra":"value"', '"zzz":null', '"a":[1,2]', '"b":{"c":true}'])
        if len(body.encode()) + 99 + len(extra) + 1 > limit:
            extra = '"x":1'
        if len(body.encode()) + 99 * body.count(SIG_TOKEN) + len(extra) + 1 > limit:
            raise Skip()
        out = body[:-1] + "," + extra + "}" if rng.random() < 0.5 else "{" + extra + "," + body[1:]
        return out.encode(), sign
    raise ToolError("unknown body class " + b)


class Skip(Exception):
    pass


def find_member_end(obj):
    """index just after the first member of a compact JSON object text"""
    depth, in_str, esc = 0, False, False
    for i, ch in enumerate(obj):
        if in_str:
            if esc:
                esc = False
            elif ch == "\\":
                esc = True
            elif ch == '"':
                in_str = False
            continue
        if ch == '"':
            in_str = True
        elif ch in "{[":
            depth += 1
        elif ch in "}]":
            depth -= 1
            if depth == 0:
                return i
        elif ch == "," and depth == 1:
            return i
    return len(obj) - 1


RAW = {
    "garbage": [b"\x16\x03\x01\x02\x00\x01\x00\x01\xfc\x03\x03" + b"\x00" * 40, b"hello\r\n\r\n", b"\r\n\r\n", b"GET\r\n\r\n",
                b"SSH-2.0-OpenSSH_8.9\r\n"],
    "badversion": [b"POST /register HTTP/9.9\r\nHost: x\r\nContent-Length: 2\r\n\r\n{}", b"GET /ping HTP/1.1\r\nHost: x\r\n\r\n",
                   b"GET /ping\r\n\r\n"],
    "hugeheader": [b"GET /ping HTTP/1.1\r\nHost: x\r\nX-Big: " + b"a" * 200000 + b"\r\n\r\n",
                   b"POST /" + b"r" * 100000 + b" HTTP/1.1\r\nHost: x\r\nContent-Length: 0\r\n\r\n"],
    "lf_only": [b"POST /register HTTP/1.1\nHost: x\nContent-Length: x\n\n{}", b"POST /register HTTP/1.1\r\nHost: x\r\nContent-Length: -5\r\n\r\n{}",
                b"POST /register HTTP/1.1\r\nHost: x\r\nContent-Length: 2\r\nContent-Length: 3\r\n\r\n{}"],
    "nul": [b"POST /reg\x00ister HTTP/1.1\r\nHost: x\r\nContent-Length: 2\r\n\r\n{}", b"\x00" * 64,
            b"POST /register HTTP/1.1\r\nHo\x00st: x\r\n\r\n"],
}


def concretise(gen, case, k, tier):
    """-> list of concrete requests (dicts for api_rig) for one abstract case"""
    rng = gen.rng
    out = []
    fam = case["fam"]
    for j in range(k):
        c = {"node": case["node"], "tower": "A", "deadline_ms": gen.meta["prompt_ms"] + 3000}
        try:
            if fam == "raw":
                pool = RAW[case["body"]]
                if j >= len(pool):
                    break
                c.update({"head_hex": hx(pool[j]), "body_hex": "", "half_close": True})
                out.append(c)
                continue
            path = case["path"]
            method = case["method"] if case["method"] != "JUNK" else rng.choice(JUNK_METHODS)
            ep = path if path in gen.meta["limits"] else "register" if path == "nested" else None
            if ep:
                limit = gen.meta["limits"][ep]
                target = "/" + ep + ("/extra" if path == "nested" else "")
                if path != "nested" and rng.random() < 0.15:
                    target += rng.choice(["?x=1", "?", "?user_id=aa&signature=bb"])
            else:
                target = {"ping": "/ping", "root": "/"}.get(path) or rng.choice(TARGETS_UNKNOWN)
            if ep == "register" and case["signer"] == "maxed":
                c["tower"] = "B"
            sign = None
            if fam == "route":
                c["is_head"] = method == "HEAD"
                if ep:
                    body, sign, _ = build_body(gen, case, ep, limit)
                    body = body.encode()
                    head = http_head(method, target, rng)
                else:
                    body = b"" if rng.random() < 0.6 else b'{"user_id":"aa"}'
                    head = http_head(method, target, rng, length="auto" if body or rng.random() < 0.3 else None)
            elif fam == "size":
                body, sign, _ = build_body(gen, case, ep, limit, style="compact")
                body = body.encode()
                head = http_head(method, target, rng)
                size = case["size"]
                if size == "atlimit":
                    c["pad_to"] = limit
                elif size == "over":
                    big = [limit + 1, limit + 2, 2 * limit, 4096, 65536] + ([1 << 20] if tier == "thorough" or ep == "register" else [])
                    c["pad_to"] = big[j % len(big)]
                elif size == "nolength":
                    body, sign = b"", None
                    head = http_head(method, target, rng, length=None)
                elif size == "chunked":
                    head = http_head(method, target, rng, chunked=True)
                    c["chunked"] = True
            elif fam == "body":
                body, sign = non_object_body(gen, case, ep, limit)
                head = http_head(method, target, rng)
            elif fam == "fields":
                body, sign, _ = build_body(gen, case, ep, limit)
                body = body.encode()
                head = http_head(method, target, rng)
            elif fam == "ctype":
                body, sign, _ = build_body(gen, case, ep, limit)
                body = body.encode()
                head = http_head(method, target, rng, ctype=case["ctype"])
            else:
                raise ToolError("unknown family " + fam)
            c.update({"head_hex": hx(head), "body_hex": hx(body)})
            if sign:
                c["sign"] = sign
            out.append(c)
        except Skip:
            continue
    return out


# ---------------------------------------------------------------------------------------------------
# the judge: Matches / Documented / Prompt / Unchanged / NoCrash of HttpApi.tla on an observation

JSON_TYPES = {"available_slots": int, "subscription_start": int, "subscription_expiry": int, "start_block": int,
              "to_self_delay": int, "user_id": str, "locator": str, "signature": str, "subscription_signature": str,
              "encrypted_blob": str, "dispute_txid": str, "penalty_txid": str, "penalty_rawtx": str, "status": str,
              "locators": list, "appointment": dict}


def parse_json_object(body):
    try:
        v = json.loads(body.decode("utf-8"))
    except (UnicodeDecodeError, ValueError):
        return None
    return v if isinstance(v, dict) else None


def reply_shape_ok(case, obj):
    if case["path"] == "ping" or (case.get("fam") == "raw" and case.get("body") == "hugeheader"):
        return True      # GET /ping (also the one carrying an oversized header, when the server chose to serve it): empty body
    if obj is None or set(obj.keys()) != set(case["reply_keys"]):
        return False
    for k, v in obj.items():
        t = JSON_TYPES.get(k)
        if t and (not isinstance(v, t) or isinstance(v, bool)):
            return False
        if t is int and not (0 <= v < 2 ** 32):
            return False
    if case["reply_inner"]:
        a = obj.get("appointment")
        if not isinstance(a, dict) or set(a.keys()) != set(case["reply_inner"]):
            return False
        if obj.get("status") != case["reply_status"]:
            return False
    return True


def judge(case, res, prompt_ms):
    """-> list of (tag, text) disagreements of one observation with the case"""
    out = []
    answered = res["status"] is not None
    st = res["status"]
    body = binascii.unhexlify(res["body_hex"])
    obj = parse_json_object(body) if answered else None
    matched = False
    for o in case["allowed"]:
        if o["st"] == 0:
            ok = (not answered) and res["io"] in ("closed_without_response", "reset")
        elif o["st"] == 499:
            ok = answered and 400 <= st <= 499
        elif o["code"] == 0:
            ok = answered and st == 200
        else:
            ok = (answered and st == o["st"] and obj is not None and set(obj.keys()) == {"error", "error_code"}
                  and isinstance(obj["error"], str) and obj["error_code"] == o["code"] and not isinstance(obj["error_code"], bool))
        if ok:
            matched = True
            break
    if res.get("panic"):
        out.append(("panic", "the code under test panicked: %s" % res["panic"]))
    if not answered:
        if not matched:
            tag = "hang" if res["io"].startswith("timeout") else "no-answer"
            out.append((tag, "no HTTP answer (%s after %d ms)" % (res["io"], res["elapsed_ms"])))
    else:
        if st >= 500 and not (st == 503 and matched):
            out.append(("5xx", "answered %d" % st))
        elif obj is not None and obj.get("error_code") == 255:
            out.append(("unexpected-255", "answered %d with the catch-all error code 255: %s" % (st, obj.get("error"))))
        elif not matched:
            if case["addressed"] and st != 200 and (obj is None or set(obj.keys()) != {"error", "error_code"}):
                out.append(("not-json-error", "answered %d with a body that is no JSON error object: %r" % (st, body[:80])))
            else:
                out.append(("wrong-outcome", "answered %d %r, allowed: %s" % (st, body[:100], case["allowed"])))
        elif st == 200 and not reply_shape_ok(case, obj):
            out.append(("wrong-reply-shape", "200 with %r instead of an object with keys %s %s %s" %
                        (body[:160], sorted(case["reply_keys"]), sorted(case["reply_inner"]), case["reply_status"])))
        if res["io"] != "ok":
            out.append(("hang", "the answer was not completed (%s)" % res["io"]))
    if res["elapsed_ms"] > prompt_ms:
        out.append(("slow", "%d ms" % res["elapsed_ms"]))
    if st != 200 and res["changed"]:
        out.append(("state-changed", "a request answered %s changed %s" % (st, res["changed"])))
    return out


def scenario_of(case):
    if case["fam"] == "fields":
        bad = sorted("%s=%s" % (f, c) for f, c in case["fc"].items() if c not in ("na", "valid", "object"))
        return "fields:%s|%s/%s/%s" % (",".join(bad), case["signer"], case["loc"], case["node"])
    return "%s:%s:%s:%s:%s:%s" % (case["fam"], case["method"], case["size"], case["body"], case["ctype"], case["node"])


def run_rig(wd, concrete, name):
    cases_path = os.path.join(wd, name + "_cases.ndjson")
    res_path = os.path.join(wd, name + "_results.ndjson")
    with open(cases_path, "w") as f:
        for c in concrete:
            f.write(json.dumps(c) + "\n")
    p = subprocess.run([RIG, "http", cases_path, res_path, os.path.join(wd, name + "_rig")], stdout=subprocess.PIPE,
                       stderr=subprocess.PIPE, text=True, timeout=3000)
    if p.returncode != 0:
        raise ToolError("api_rig http failed: " + p.stderr[-2000:])
    summary = json.loads(p.stdout.strip().splitlines()[-1])
    results = {}
    with open(res_path) as f:
        for ln in f:
            r = json.loads(ln)
            results[r["id"]] = r
    if len(results) != len(concrete):
        raise ToolError("api_rig answered %d of %d cases" % (len(results), len(concrete)))
    return results, summary


def selftest(cases_by_id, concrete, results, prompt_ms):
    """The judge must reject corrupted observations (anti-vacuity of the comparison)."""
    detected, tried, picked = 0, 0, 0
    for c in concrete[::5]:
        if picked >= 10:
            break
        case = cases_by_id[c["abs"]]
        base = results[c["id"]]
        if base["status"] not in (200, 400, 401) or judge(case, base, prompt_ms):
            continue
        picked += 1
        for mut in ("5xx", "255", "changed", "slow", "notjson"):
            r = dict(base)
            if mut == "5xx":
                r["status"] = 500
            elif mut == "255":
                if base["status"] == 200:
                    continue
                r["body_hex"] = hx(b'{"error":"x","error_code":255}')
            elif mut == "changed":
                if base["status"] == 200:
                    continue
                r["changed"] = ["users"]
            elif mut == "slow":
                r["elapsed_ms"] = prompt_ms + 1
            elif mut == "notjson":
                if base["status"] == 200 or not case["addressed"]:
                    continue
                r["body_hex"] = hx(b"Bad Request")
            tried += 1
            if judge(case, r, prompt_ms):
                detected += 1
    # (no conforming observation to corrupt: every request disagrees, which the run reports by itself)
    if detected != tried:
        raise ToolError("binding self-test: %d of %d corrupted observations were rejected" % (detected, tried))
    return detected


def main(tier, replay=None):
    t0 = time.time()
    wd = workdir(PID)
    build(["api_rig"])
    verdict = Verdict(PID)
    stats = {}
    meta, cases = enumerate_cases(wd, stats)
    prompt_ms = meta["prompt_ms"]

    if replay:
        data = json.load(open(replay))["replay"]
        c = dict(data["concrete"])
        c["id"] = 0
        results, _ = run_rig(wd, [c], "replay")
        dis = judge(data["abstract"], results[0], prompt_ms)
        for tag, text in dis:
            verdict.disagree(tag, SITE + "::" + data["abstract"]["path"], scenario_of(data["abstract"]), text, data)
        nviol = verdict.finish()
        log("replay of %s: %s" % (replay, "still disagrees" if nviol else "no disagreement"))
        return 1 if nviol else 0

    sd = seed()
    rng = random.Random(sd)
    k = 3 if tier == "quick" else 32
    n_new = sum(1 for c in cases if c["signer"] == "new") * (2 * k + 4) + 50
    p = subprocess.run([RIG, "info", os.path.join(wd, "info"), str(n_new)], stdout=subprocess.PIPE, stderr=subprocess.PIPE,
                       text=True, timeout=600)
    if p.returncode != 0:
        raise ToolError("api_rig info failed: " + p.stderr[-2000:])
    info = json.loads(p.stdout.strip().splitlines()[-1])
    gen = Gen(meta, info, rng)
    concrete = []
    cases_by_id = {}
    for i, case in enumerate(cases):
        cases_by_id[i] = case
        kk = k
        if case["fam"] in ("size", "body", "route", "raw", "ctype"):
            kk = k + 3 if tier == "quick" else 2 * k       # small families: sample the bytes more densely
        elif all(v in ("na", "valid", "object") for v in case["fc"].values()):
            kk = 6 * k                                     # well-formed requests: the tower-state classes
        for c in concretise(gen, case, kk, tier):
            c["id"] = len(concrete)
            c["abs"] = i
            concrete.append(c)
    results, summary = run_rig(wd, concrete, "run")
    selftest_error = None
    try:
        stats["selftest_corruptions_detected"] = selftest(cases_by_id, concrete, results, prompt_ms)
    except ToolError as e:       # must not hide what the run itself finds: reported only when nothing else is
        selftest_error = e
        stats["selftest_corruptions_detected"] = 0

    executed_abs = set()
    distinct_bytes = set()
    outcomes = {}
    n_dis = 0
    per_tag = {}
    samples = []
    sampled = set()
    skipped = 0
    for c in concrete:
        case = cases_by_id[c["abs"]]
        res = results[c["id"]]
        if res["io"] == "skipped":
            skipped += 1
            continue
        executed_abs.add(c["abs"])
        distinct_bytes.add(hashlib.sha1((c["head_hex"] + "|" + c["body_hex"] + "|" + c["tower"] + c["node"]).encode()).hexdigest())
        key = "%s/%s" % (res["status"], (parse_json_object(binascii.unhexlify(res["body_hex"])) or {}).get("error_code", "-"))
        outcomes[key] = outcomes.get(key, 0) + 1
        for tag, text in judge(case, res, prompt_ms):
            n_dis += 1
            per_tag[tag] = per_tag.get(tag, 0) + 1
            if len(verdict.violations) < MAX_SIGNATURES:
                what = "%s %s [%s]: %s; request: %r" % (case["method"], case["path"], scenario_of(case), text,
                                                        (binascii.unhexlify(c["body_hex"])[:200]))
                cc = {x: y for x, y in c.items() if x not in ("id", "abs")}
                verdict.disagree(tag, SITE + "::" + case["path"], scenario_of(case), what,
                                 {"abstract": case, "concrete": cc, "observed": {x: res[x] for x in
                                                                                 ("io", "status", "body_hex", "elapsed_ms", "changed", "panic")}})
        if len(samples) < 5 and c["abs"] % 397 == 11 and c["abs"] not in sampled:
            sampled.add(c["abs"])
            samples.append({"abstract": {x: case[x] for x in ("fam", "method", "path", "size", "body", "fc", "signer", "loc", "node", "allowed")},
                            "request_head": binascii.unhexlify(c["head_hex"]).decode("latin-1")[:300],
                            "request_body": binascii.unhexlify(c["body_hex"]).decode("latin-1")[:300],
                            "observed": {"status": res["status"], "body": binascii.unhexlify(res["body_hex"]).decode("latin-1")[:200],
                                         "elapsed_ms": res["elapsed_ms"], "changed": res["changed"]}})
    if not summary.get("alive_at_end"):
        verdict.disagree("dead", SITE, "end-of-run", "a tower no longer answers GET /ping after the run", {"summary": summary})
    not_run = {c["abs"] for c in concrete if results[c["id"]]["io"] == "skipped"}
    nontrivial = sum(1 for i in executed_abs if cases_by_id[i]["fam"] in ("size", "body", "fields", "ctype"))
    nviol = verdict.finish()
    if selftest_error and not nviol:
        raise selftest_error
    fam_counts = {}
    for i in executed_abs:
        fam_counts[cases_by_id[i]["fam"]] = fam_counts.get(cases_by_id[i]["fam"], 0) + 1
    write_evidence(PID, tier, "exploration", {
        "evaluations": len(concrete),
        "distinct_nontrivial": nontrivial,
        "rule": "TLC enumerates the whole abstract request space of spec/HttpApi.tla (method x path x size class x body class x "
                "per-field class x tower-state class x bitcoind reachable); every abstract request is concretised %d+ times "
                "(values, lengths, key order, white space, headers, byte strings drawn with VERIF_SEED) and sent as raw bytes "
                "over TCP to the real warp router + tonic + InternalAPI of two real towers; distinct = distinct abstract request "
                "(one TLC state each) that was executed, non-trivial = it is a POST to one of the four endpoints (families size, "
                "body, fields, ctype), i.e. it reaches the request validation / the tower; the routing and raw-bytes families are "
                "executed too but not counted" % k,
        "exhaustive": True,
        "states": stats["states"],
        "transitions": stats["transitions"],
        "tlc_wall_s": stats["tlc_wall_s"],
        "abstract_requests": len(cases),
        "abstract_requests_executed": len(executed_abs),
        "abstract_requests_infeasible": sorted("%s/%s" % (cases_by_id[i]["path"], cases_by_id[i]["body"]) for i in cases_by_id
                                               if i not in executed_abs and i not in not_run),
        "requests_not_run_after_repeated_hangs": skipped,
        "abstract_requests_per_family": fam_counts,
        "distinct_byte_strings": len(distinct_bytes),
        "observed_outcomes": outcomes,
        "disagreements": n_dis,
        "disagreements_per_tag": per_tag,
        "selftest_corruptions_detected": stats["selftest_corruptions_detected"],
        "rig": summary,
        "known_findings_hit": verdict.known_hits,
        "samples": samples,
    }, [
        "documented behaviour = the error codes of teos-common/src/errors.rs with the meaning their names give, the size limits "
        "published in teos/src/api/http.rs and the reply messages of teos-common/proto as transcribed in HttpApi.tla; the repository "
        "has no separate API document",
        "left unconstrained (several outcomes allowed): which of several defective fields is reported; bitcoind check before or "
        "after validation; integers outside u32 (codes 3, 4 or 6); an optional object given as null (1 or 3); an empty encrypted "
        "blob, positional (array) bodies, repeated and unknown members (refused with the matching code or treated as the valid "
        "request); bodies above the size limit and chunked bodies (any 4xx or treated normally); HEAD /ping; a further path "
        "segment after an endpoint; a Content-Type other than exactly application/json (refused with any 4xx or ignored); for requests that are not POST to an endpoint only '4xx, state unchanged, prompt' is demanded",
        "tower-state classes are produced on real towers through the real API and chain events (expired = subscription over within "
        "the grace period; noslots = all slots used; triggered = dispute mined and answered; resolved = dispute mined, node said the penalty is already on chain (held, no tracker); maxed = tower with 2^31 slots per "
        "registration, user registered once); bitcoind unreachable = the tower's reachability flag cleared",
        "state = every row of every table of the tower's SQLite file plus the gatekeeper's in-memory user records, compared before "
        "and after each request; prompt = answer complete within %d ms on loopback" % prompt_ms,
        "a repeated member cannot be expressed within the size limit of register, get_appointment and get_subscription_info: "
        "those abstract requests have no concrete instance (abstract_requests_infeasible)",
        "bytes are sampled, not enumerated: a defect that depends on particular byte values inside a class can be missed",
    ], time.time() - t0, nviol)
    return 1 if nviol else 0
