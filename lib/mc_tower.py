"""Design-level model checking of Tower.tla (MC_Tower.tla configs) for the tower properties."""


def design_stats(pid, tier):
    return None
