"""Design-level model checking of Tower.tla (MC_Tower.tla) for the tower properties: TLC explores every behaviour of the
environment (users, chain, free node verdicts) within the bounds below; every step is judged by the TowerProps monitors and
the structural invariants.  A violated invariant here means the SPECIFICATION is wrong (exit 2), not the code."""
import os

from common import ToolError, log, tlc

BASE = {"CACHE_N": 2, "IDX_N": 3, "IRR": 3, "RETRY_N": 2, "SLOT_SIZE": 2, "SUB_S": 2, "SUB_D": 30, "SUB_G": 1, "MAXU": 1000,
        "Users": "{1, 2}", "Disputes": "{10}", "Variants": "{1, 2}", "Garbled": "{1}", "H0": 10,
        "MaxBlocks": 3, "MaxOps": 3, "MaxDisc": 0, "Acts": '{"Register", "Add", "Mine"}', "Emit": "FALSE"}


def cfg(**kw):
    c = dict(BASE)
    c.update(kw)
    return c


CONFIGS = {
    # name: (quick constants, thorough constants)
    "MC_Breach": (cfg(MaxBlocks=3, MaxOps=3, Acts='{"Register", "Add", "Mine", "Get", "BadSig"}'),
                  cfg(MaxBlocks=3, MaxOps=4, Acts='{"Register", "Add", "Mine", "Get", "BadSig"}')),
    "MC_Reorg": (cfg(Users="{1}", Variants="{1}", MaxBlocks=6, MaxOps=2, MaxDisc=2, Acts='{"Register", "Add", "Mine", "Disconnect"}'),
                 cfg(Users="{1}", Variants="{1}", MaxBlocks=7, MaxOps=2, MaxDisc=3, Acts='{"Register", "Add", "Mine", "Disconnect"}')),
    "MC_Expiry": (cfg(SUB_D=2, SUB_G=1, Variants="{1}", MaxBlocks=4, MaxOps=3, MaxDisc=1,
                      Acts='{"Register", "Add", "Mine", "Disconnect", "Sub"}'),
                  cfg(SUB_D=2, SUB_G=1, Variants="{1}", MaxBlocks=5, MaxOps=4, MaxDisc=1,
                      Acts='{"Register", "Add", "Mine", "Disconnect", "Sub"}')),
    "MC_Expiry0": (cfg(SUB_D=0, SUB_G=0, SUB_S=1, Variants="{1}", MaxBlocks=3, MaxOps=4, Acts='{"Register", "Add", "Mine", "Sub"}'),
                   cfg(SUB_D=1, SUB_G=0, SUB_S=1, Variants="{1}", MaxBlocks=4, MaxOps=5, Acts='{"Register", "Add", "Mine", "Sub"}')),
    "MC_Slots": (cfg(SUB_S=3, Garbled="{1, 3, 5}", MaxBlocks=2, MaxOps=4, Acts='{"Register", "Add", "Mine", "Sub"}'),
                 cfg(SUB_S=3, Garbled="{1, 2, 3, 5}", MaxBlocks=2, MaxOps=5, Acts='{"Register", "Add", "Mine", "Sub"}')),
    # restarts between any two actions (C03 at the design level)
    "MC_Restart": (cfg(Users="{1}", MaxBlocks=4, MaxOps=4, Acts='{"Register", "Add", "Mine", "Get", "Restart"}'),
                   cfg(Users="{1}", MaxBlocks=4, MaxOps=5, Acts='{"Register", "Add", "Mine", "Get", "Restart"}')),
    "MC_Auth": (cfg(MaxBlocks=1, MaxOps=4, SUB_D=1, Variants="{1}", Acts='{"Register", "Add", "Mine", "Get", "Sub", "BadSig"}'),
                cfg(MaxBlocks=2, MaxOps=5, SUB_D=1, Variants="{1}", Acts='{"Register", "Add", "Mine", "Get", "Sub", "BadSig"}')),
}

BY_PROPERTY = {
    "C01": ["MC_Breach"],
    "C02": ["MC_Breach", "MC_Reorg"],
    "C04": ["MC_Reorg"],
    "C06": ["MC_Auth", "MC_Breach"],
    "C07": ["MC_Slots", "MC_Breach"],
    "C08": ["MC_Slots", "MC_Auth"],
    "C09": ["MC_Expiry", "MC_Expiry0"],
    "C11": ["MC_Breach", "MC_Reorg"],
    "C03": ["MC_Restart", "MC_Breach"],
    "C12": ["MC_Breach"],
}


def design_stats(pid, tier, workers=8):
    wd = os.path.join("/verif/work", pid, "mc")
    os.makedirs(wd, exist_ok=True)
    out = {"states": 0, "transitions": 0, "configs": []}
    for name in BY_PROPERTY.get(pid, []):
        consts = CONFIGS[name][0 if tier == "quick" else 1]
        r = tlc("MC_Tower", "MC_Tower.cfg", wd, workers=workers, consts=consts, timeout=2400, heap="12g")
        if not r.ok:
            log(r.out[-2500:])
            raise ToolError("the specification violates %s in %s: the design as specified is wrong" % (r.violated, name))
        out["states"] += r.distinct
        out["transitions"] += r.generated
        out["configs"].append({"config": name, "constants": consts, "distinct_states": r.distinct, "states_generated": r.generated,
                               "depth": r.depth, "wall_s": round(r.wall, 1),
                               "invariants": ["NoViolation (all TowerProps monitors on every step)", "Structure", "Conservation",
                                              "TrackersJustified", "ReorgedSane"]})
    return out


# ---------------------------------------------------------------------------------------------------
# spec -> implementation: behaviours of the model turned into scripts for tower_rig

REPLAY_CONFIGS = {
    # (constants for simulation, real configuration the script runs under)
    "C01": cfg(MaxBlocks=4, MaxOps=5, Disputes="{10, 20}", Acts='{"Register", "Add", "Mine", "Get", "BadSig"}', SUB_D=30, Emit="TRUE"),
    "C02": cfg(MaxBlocks=4, MaxOps=5, Disputes="{10, 20}", Acts='{"Register", "Add", "Mine", "Get"}', SUB_D=3, SUB_G=1, Emit="TRUE"),
    "C06": cfg(MaxBlocks=2, MaxOps=7, SUB_D=2, Acts='{"Register", "Add", "Mine", "Get", "Sub", "BadSig"}', Emit="TRUE"),
    "C07": cfg(MaxBlocks=3, MaxOps=7, SUB_S=3, Garbled="{1, 3, 5}", Acts='{"Register", "Add", "Mine", "Sub"}', Emit="TRUE"),
    "C08": cfg(MaxBlocks=3, MaxOps=6, SUB_S=3, Garbled="{1, 3}", Acts='{"Register", "Add", "Mine", "Get", "Sub"}', Emit="TRUE"),
    "C09": cfg(MaxBlocks=6, MaxOps=6, SUB_D=2, SUB_G=1, Variants="{1}", Acts='{"Register", "Add", "Mine", "Sub", "Get"}', Emit="TRUE"),
    # behaviours with restarts between the actions
    "C03": cfg(MaxBlocks=4, MaxOps=7, Disputes="{10, 20}", Acts='{"Register", "Add", "Mine", "Get", "Restart"}', SUB_D=30, Emit="TRUE"),
}


def _blob(l, b):
    """model blob -> tower_rig blob spec (slots are preserved: 1 -> 300 bytes, 2 -> 2049, 3 -> 4097)"""
    if b["key"] == l and b["pay"] > 0:
        v = b["pay"] - l
        return {"kind": "valid", "d": l, "p": l + (3 if v == 2 else 1)}
    if b["key"] > 0:
        return {"kind": "valid", "d": b["key"], "p": b["key"] + 1}      # encrypted under another dispute's id
    slots = (b["size"] + 1) // 2
    return {"kind": "garbled", "size": {1: 300, 2: 2049, 3: 4097}.get(slots, 300)}


def _verdicts(orc):
    ops = []
    for tx, v in orc:
        real = tx if tx % 10 != 2 else tx + 1      # penalty variant 2 of the model is the two-slot variant 3 of the rig
        if v == "mem":
            ops.append({"op": "mempool_add", "tx": real})
        elif v in ("ok", "rej", "res"):
            ops.append({"op": "verdict", "tx": real, "v": v})
    return ops


def behaviour_to_scenario(hist, consts, name):
    ops = [{"op": "boot"}, {"op": "poll"}]
    for h in hist:
        o = h["op"]
        if o == "register":
            ops.append({"op": "register", "u": h["u"]})
        elif o == "add":
            ops += _verdicts(h.get("orc", []))
            who = h["who"]
            ops.append({"op": "add", "u": who if who else 1, "l": h["l"], "blob": _blob(h["l"], h["blob"]), "tsd": h["ver"],
                        "sig": "valid" if who else "unregistered"})
        elif o == "get":
            ops.append({"op": "get", "u": h["who"], "l": h["l"], "sig": "valid"})
        elif o == "sub":
            ops.append({"op": "sub", "u": h["who"], "sig": "valid"})
        elif o == "mine":
            ops += _verdicts(h.get("orc", []))
            keys = [k if k % 10 != 2 else k + 1 for k in h["keys"]]
            ops.append({"op": "mine", "txs": keys, "poll": True})
        elif o == "restart":
            ops += [{"op": "restart"}, {"op": "poll"}]
        elif o == "disconnect":
            return None
    real_cfg = {"S": int(consts["SUB_S"]), "D": int(consts["SUB_D"]), "G": int(consts["SUB_G"]), "cache": 6, "idx": 100, "h0": 101}
    return {"name": name, "cfg": real_cfg, "ops": ops}


def replay_scenarios(pid, tier, seed_, n_quick=40, n_thorough=600):
    """TLC -simulate on MC_Tower prints one REPLAY line per behaviour that reaches the bound; each becomes a scenario."""
    import json as _json
    from common import unwrap_print
    if pid not in REPLAY_CONFIGS:
        return [], {}
    consts = REPLAY_CONFIGS[pid]
    n = n_quick if tier == "quick" else n_thorough
    depth = int(consts["MaxBlocks"]) + int(consts["MaxOps"]) + 1
    wd = os.path.join("/verif/work", pid, "mcreplay")
    os.makedirs(wd, exist_ok=True)
    hists = []

    def on_line(line):
        tag, val = unwrap_print(line)
        if tag == "REPLAY" and val and val[1] is not None:
            hists.append(val[1])

    r = tlc("MC_Tower", "MC_Tower.cfg", wd, workers=1, consts=consts, timeout=900, simulate="num=%d" % (n * 6), want_lines=on_line,
            env_extra={"JAVA_OPTS": ""})
    # distinct behaviours only; the ones in which more happens first (accepted appointments, breaches, renewals, refusals)
    def score(h):
        sc_ = 0
        accepted = set()
        for x in h:
            if x["op"] == "add" and x.get("code") == "ok":
                sc_ += 3
                accepted.add(x["l"])
            elif x["op"] == "add":
                sc_ += 1
            elif x["op"] == "register":
                sc_ += 1
            elif x["op"] == "restart":
                sc_ += 2 if accepted else 0
            elif x["op"] == "mine":
                sc_ += 4 * len([k for k in x["keys"] if k in accepted]) + (1 if x.get("orc") else 0)
            elif x.get("code") in ("ok",):
                sc_ += 1
        return -sc_
    hists.sort(key=score)
    seen, scs = set(), []
    for h in hists:
        key = _json.dumps(h, sort_keys=True)
        if key in seen:
            continue
        seen.add(key)
        sc = behaviour_to_scenario(h, consts, "tlc-%s-%d" % (pid.lower(), len(scs)))
        if sc:
            scs.append(sc)
        if len(scs) >= n:
            break
    return scs, {"behaviours_emitted_by_tlc": len(hists), "distinct_replayed": len(scs), "constants": consts}


if __name__ == "__main__":
    import sys
    import time
    tier = sys.argv[2] if len(sys.argv) > 2 else "quick"
    for name in (sys.argv[1].split(",") if len(sys.argv) > 1 else CONFIGS):
        t0 = time.time()
        consts = CONFIGS[name][0 if tier == "quick" else 1]
        r = tlc("MC_Tower", "MC_Tower.cfg", "/verif/work/t/mcx", workers=8, consts=consts, timeout=3000, heap="12g")
        print(name, tier, "ok" if r.ok else ("VIOLATED " + str(r.violated)), r.distinct, r.generated, r.depth, round(time.time() - t0, 1))
        if not r.ok:
            print(r.out[-3000:])
