"""Design-level model checking of Tower.tla (MC_Tower.tla) for the tower properties: TLC explores every behaviour of the
environment (users, chain, free node verdicts) within the bounds below; every step is judged by the TowerProps monitors and
the structural invariants.  A violated invariant here means the SPECIFICATION is wrong (exit 2), not the code."""
import os

from common import ToolError, log, tlc

BASE = {"CACHE_N": 2, "IDX_N": 3, "IRR": 3, "RETRY_N": 2, "SLOT_SIZE": 2, "SUB_S": 2, "SUB_D": 30, "SUB_G": 1, "MAXU": 1000,
        "Users": "{1, 2}", "Disputes": "{10}", "Variants": "{1, 2}", "Garbled": "{1}", "H0": 10,
        "MaxBlocks": 3, "MaxOps": 3, "MaxDisc": 0, "Acts": '{"Register", "Add", "Mine"}', "Emit": "FALSE"}


def cfg(**kw):
    c = dict(BASE)
    c.update(kw)
    return c


CONFIGS = {
    # name: (quick constants, thorough constants)
    "MC_Breach": (cfg(MaxBlocks=3, MaxOps=3, Acts='{"Register", "Add", "Mine", "Get", "BadSig"}'),
                  cfg(MaxBlocks=3, MaxOps=4, Disputes="{10, 20}", Acts='{"Register", "Add", "Mine", "Get", "BadSig"}')),
    "MC_Reorg": (cfg(Users="{1}", Variants="{1}", MaxBlocks=6, MaxOps=2, MaxDisc=2, Acts='{"Register", "Add", "Mine", "Disconnect"}'),
                 cfg(Users="{1}", Variants="{1, 2}", MaxBlocks=7, MaxOps=2, MaxDisc=3, Acts='{"Register", "Add", "Mine", "Disconnect"}')),
    "MC_Expiry": (cfg(SUB_D=2, SUB_G=1, Variants="{1}", MaxBlocks=4, MaxOps=3, MaxDisc=1,
                      Acts='{"Register", "Add", "Mine", "Disconnect", "Sub"}'),
                  cfg(SUB_D=2, SUB_G=1, Variants="{1}", MaxBlocks=5, MaxOps=5, MaxDisc=1,
                      Acts='{"Register", "Add", "Mine", "Disconnect", "Sub", "Get"}')),
    "MC_Expiry0": (cfg(SUB_D=0, SUB_G=0, SUB_S=1, Variants="{1}", MaxBlocks=3, MaxOps=4, Acts='{"Register", "Add", "Mine", "Sub"}'),
                   cfg(SUB_D=1, SUB_G=0, SUB_S=1, Variants="{1}", MaxBlocks=4, MaxOps=5, Acts='{"Register", "Add", "Mine", "Sub"}')),
    "MC_Slots": (cfg(SUB_S=3, Garbled="{1, 3, 5}", MaxBlocks=2, MaxOps=4, Acts='{"Register", "Add", "Mine", "Sub"}'),
                 cfg(SUB_S=3, Garbled="{1, 2, 3, 5}", MaxBlocks=2, MaxOps=5, Acts='{"Register", "Add", "Mine", "Sub"}')),
    "MC_Auth": (cfg(MaxBlocks=1, MaxOps=4, SUB_D=1, Variants="{1}", Acts='{"Register", "Add", "Mine", "Get", "Sub", "BadSig"}'),
                cfg(MaxBlocks=2, MaxOps=5, SUB_D=1, Variants="{1}", Acts='{"Register", "Add", "Mine", "Get", "Sub", "BadSig"}')),
}

BY_PROPERTY = {
    "C01": ["MC_Breach"],
    "C02": ["MC_Breach", "MC_Reorg"],
    "C04": ["MC_Reorg"],
    "C06": ["MC_Auth", "MC_Breach"],
    "C07": ["MC_Slots", "MC_Breach"],
    "C08": ["MC_Slots", "MC_Auth"],
    "C09": ["MC_Expiry", "MC_Expiry0"],
    "C11": ["MC_Breach", "MC_Reorg"],
    "C03": ["MC_Breach"],
    "C12": ["MC_Breach"],
}


def design_stats(pid, tier, workers=8):
    wd = os.path.join("/verif/work", pid, "mc")
    os.makedirs(wd, exist_ok=True)
    out = {"states": 0, "transitions": 0, "configs": []}
    for name in BY_PROPERTY.get(pid, []):
        consts = CONFIGS[name][0 if tier == "quick" else 1]
        r = tlc("MC_Tower", "MC_Tower.cfg", wd, workers=workers, consts=consts, timeout=2400, heap="12g")
        if not r.ok:
            log(r.out[-2500:])
            raise ToolError("the specification violates %s in %s: the design as specified is wrong" % (r.violated, name))
        out["states"] += r.distinct
        out["transitions"] += r.generated
        out["configs"].append({"config": name, "constants": consts, "distinct_states": r.distinct, "states_generated": r.generated,
                               "depth": r.depth, "wall_s": round(r.wall, 1),
                               "invariants": ["NoViolation (all TowerProps monitors on every step)", "Structure", "Conservation",
                                              "TrackersJustified", "ReorgedSane"]})
    return out


if __name__ == "__main__":
    import sys
    import time
    tier = sys.argv[2] if len(sys.argv) > 2 else "quick"
    for name in (sys.argv[1].split(",") if len(sys.argv) > 1 else CONFIGS):
        t0 = time.time()
        consts = CONFIGS[name][0 if tier == "quick" else 1]
        r = tlc("MC_Tower", "MC_Tower.cfg", "/verif/work/t/mcx", workers=8, consts=consts, timeout=3000, heap="12g")
        print(name, tier, "ok" if r.ok else ("VIOLATED " + str(r.violated)), r.distinct, r.generated, r.depth, round(time.time() - t0, 1))
        if not r.ok:
            print(r.out[-3000:])
