"""Shared machinery of the client checks C05, C13, C14 (DESIGN.md section 6): specification spec/Client.tla, rig
harness/client_rig (real watchtower-client binary against scripted fake towers), validator spec/Trace_Client.tla.

A check = TLC on the design-level configs + scenario scripts (targeted families per clause, TLC behaviours of the small
model, seeded random ones) executed on the real binary + trace validation + classification of the tags that belong to
the property.
"""
import json
import os
import random
import re
import subprocess
import time
from concurrent.futures import ThreadPoolExecutor

from common import (BIN, SPEC, ToolError, Verdict, build, build_repo_bin, log, seed, tlc, unwrap_print,
                    validate_trace, workdir, write_evidence)

CFG = {"max_retry": 2, "auto_retry": 1, "max_interval": 1}
SLACK_MS = 2500
MINB_MS = 240


def deliver_bound_ms(cfg=CFG):
    return 1500 * cfg["max_interval"] + 1000 * (cfg["auto_retry"] + 2) + 2000 + SLACK_MS


def giveup_bound_ms(cfg=CFG):
    return 1000 * (cfg["auto_retry"] + 2) + 1000 * cfg["max_retry"] + 1500 * cfg["max_interval"] + 1000 + SLACK_MS


# ---------------------------------------------------------------------------------------------------
# scenario scripts

class Sc:
    """Builder of one scenario script."""

    def __init__(self, name, towers=1, cfg=None, fam="", covers=()):
        self.d = {"name": name, "towers": ["t%d" % (i + 1) for i in range(towers)], "cfg": dict(cfg or CFG),
                  "steps": [], "family": fam, "covers": list(covers)}

    def step(self, **kw):
        self.d["steps"].append(kw)
        return self

    def reg(self, t, beh=None):
        return self.step(op="register", t=t, **({"beh": beh} if beh else {}))

    def regall(self):
        for t in self.d["towers"]:
            self.reg(t)
        return self

    def mode(self, t, beh, ep="add"):
        return self.step(op="mode", t=t, ep=ep, beh=beh)

    def queue(self, t, behs, ep="add"):
        return self.step(op="queue", t=t, ep=ep, behs=behs)

    def down(self, t):
        return self.step(op="down", t=t)

    def up(self, t):
        return self.step(op="up", t=t)

    def notify(self, l, wait=True, **kw):
        return self.step(op="notify", l=l, wait=wait, **kw)

    def wait_for(self, l):
        return self.step(op="await", l=l)

    def sleep(self, ms):
        return self.step(op="sleep", ms=ms)

    def wait_state(self, t, status, pending=None, timeout_ms=None):
        kw = {"op": "wait_state", "t": t, "status": status, "timeout_ms": timeout_ms or deliver_bound_ms() + 1500}
        if pending is not None:
            kw["pending"] = pending
        self.d["steps"].append(kw)
        return self

    def delivered(self, t, extra_ms=0):
        """waits (at most the bound of C13 plus a little) for t to be reachable with nothing pending"""
        return self.wait_state(t, ["reachable"], 0, deliver_bound_ms() + 1500 + extra_ms)

    def probe(self):
        return self.step(op="probe")

    def retry(self, t):
        return self.step(op="retry", t=t)

    def abandon(self, t):
        return self.step(op="abandon", t=t)

    def kill(self):
        return self.step(op="kill")

    def restart(self):
        return self.step(op="restart")

    def done(self):
        return self.d


ACCEPT = {"k": "accept"}
GARBAGE = [{"k": "garbage", "variant": v} for v in range(6)] + [{"k": "empty"}, {"k": "html"}, {"k": "reset"},
                                                                  {"k": "huge", "bytes": 3000000}]
MALSIG = [{"k": "malsig", "variant": v} for v in range(6)]
# the exchange itself breaks: the connection is closed without an answer / what answers is not HTTP at all
BROKEN = [{"k": "reset"}, {"k": "nothttp"}]
# reply classes on the add_appointment endpoint, one representative each (the first of each list is the canonical one)
ADD_CLASS = {
    "accept": [ACCEPT],
    "sub_error": [{"k": "sub_error"}],
    "reject": [{"k": "reject", "code": 9}, {"k": "reject", "code": 1}],
    "garbage": GARBAGE,
    "broken": BROKEN,
    "badsig": [{"k": "badsig"}],
    "malsig": MALSIG,
}


def fam_notify_path(tag, classes):
    """every reply class on the notification path, with one and two towers, followed by a well-behaved phase"""
    out = []
    for cls in classes:
        for i, beh in enumerate(ADD_CLASS[cls]):
            for nt in ((1, 2) if i == 0 else (1,)):
                s = Sc("%s-np-%s%d-%dt" % (tag, cls, i, nt), nt, fam="notify_path", covers=["notify:" + cls])
                s.regall().mode("t1", beh).notify("l1").probe()
                s.mode("t1", ACCEPT).notify("l2")
                if cls in ("sub_error", "garbage", "malsig", "broken"):
                    s.delivered("t1")
                s.probe()
                out.append(s.done())
    # tower unreachable
    for nt in (1, 2):
        s = Sc("%s-np-refuse-%dt" % (tag, nt), nt, fam="notify_path", covers=["notify:refuse"])
        s.regall().down("t1").notify("l1").probe().notify("l2").up("t1").delivered("t1").probe()
        out.append(s.done())
    return out


def fam_retry_path(tag, classes):
    """every reply class on the retry path: the tower is down when the revocation arrives, then answers with the class"""
    out = []
    for cls in classes:
        for i, beh in enumerate(ADD_CLASS[cls]):
            s = Sc("%s-rp-%s%d" % (tag, cls, i), 1, fam="retry_path", covers=["retry:" + cls])
            s.regall().down("t1").notify("l1").notify("l2").mode("t1", beh).up("t1")
            if cls in ("accept",):
                s.delivered("t1")
            elif cls in ("reject",):
                s.wait_state("t1", ["reachable"], 0)
            elif cls == "badsig":
                s.wait_state("t1", ["misbehaving"], None, 6000)
            else:
                s.sleep(2600)
            s.probe()
            if cls not in ("badsig",):
                # the tower behaves from now on: everything is delivered within the bound (C13)
                s.mode("t1", ACCEPT).delivered("t1").probe()
            else:
                s.notify("l3").sleep(1500).probe()
            out.append(s.done())
    return out


def fam_outage(tag, durations_ms):
    """outage / recovery timings relative to the back-off schedule; subscription errors with renewal"""
    out = []
    for d in durations_ms:
        s = Sc("%s-out-%d" % (tag, d), 2, fam="outage", covers=["outage"])
        s.regall().down("t1").notify("l1").sleep(d).notify("l2").up("t1").delivered("t1").delivered("t2").probe()
        out.append(s.done())
    # a tower that stays away: shown unreachable, data kept; comes back later and is retried automatically
    s = Sc("%s-out-long" % tag, 1, fam="outage", covers=["giveup", "auto_retry"])
    s.regall().down("t1").notify("l1")
    s.wait_state("t1", ["unreachable"], 1, giveup_bound_ms() + 1500).notify("l2").probe()
    s.up("t1").delivered("t1").probe()
    out.append(s.done())
    # a longer retry window: the client keeps trying (backing off) for about that long before it gives up
    cfg6 = {"max_retry": 6, "auto_retry": 1, "max_interval": 1}
    s = Sc("%s-out-window6" % tag, 1, cfg=cfg6, fam="outage", covers=["giveup", "backoff_window"])
    s.regall().down("t1").notify("l1").wait_state("t1", ["unreachable"], 1, giveup_bound_ms(cfg6) + 1500).probe()
    s.up("t1").wait_state("t1", ["reachable"], 0, deliver_bound_ms(cfg6) + 1500).probe()
    out.append(s.done())
    # subscription error on the notification path, renewal succeeds
    s = Sc("%s-sub-renew" % tag, 1, fam="outage", covers=["sub_error", "renewal"])
    s.regall().mode("t1", {"k": "sub_error"}).notify("l1").mode("t1", ACCEPT).delivered("t1").probe()
    out.append(s.done())
    # subscription error while the tower refuses to renew (garbage), then renews
    s = Sc("%s-sub-renew-late" % tag, 1, fam="outage", covers=["sub_error", "renewal"])
    s.regall().mode("t1", {"k": "sub_error"}).mode("t1", {"k": "garbage", "variant": 1}, "reg").notify("l1")
    s.sleep(1500).mode("t1", ACCEPT).mode("t1", ACCEPT, "reg").delivered("t1").probe()
    out.append(s.done())
    # subscription error and the tower cannot renew for longer than the retry window (answers garbage / is away): the
    # retrier gives up, idles, and renews at the automatic retry
    for how in ("garbage", "down"):
        s = Sc("%s-sub-renew-giveup-%s" % (tag, how), 1, fam="outage", covers=["sub_error", "renewal", "giveup"])
        s.regall().mode("t1", {"k": "sub_error"}).mode("t1", {"k": "garbage", "variant": 1}, "reg").notify("l1")
        if how == "down":
            s.down("t1")
        s.sleep(giveup_bound_ms() - 2500).retry("t1").probe().mode("t1", ACCEPT).mode("t1", ACCEPT, "reg")
        if how == "down":
            s.up("t1")
        s.delivered("t1").probe()
        out.append(s.done())
    # subscription error on the retry path
    s = Sc("%s-sub-retry" % tag, 1, fam="outage", covers=["sub_error", "renewal"])
    s.regall().down("t1").notify("l1").queue("t1", [{"k": "sub_error"}]).up("t1").delivered("t1").probe()
    out.append(s.done())
    return out


def fam_retrier_states(tag):
    """new revocations and manual retries in every retrier state (stopped / running / idle / failed / absent)"""
    out = []
    # running: the retrier is held by the tower while things happen
    s = Sc("%s-rs-running" % tag, 1, fam="retrier_states", covers=["notify@running", "retry@running"])
    s.regall().down("t1").notify("l1").mode("t1", {"k": "accept", "hold": True}).up("t1")
    s.step(op="wait_held", t="t1", timeout_ms=5000).notify("l2").retry("t1").probe()
    s.mode("t1", ACCEPT).step(op="release", t="t1").delivered("t1").probe()
    out.append(s.done())
    # idle: revocation and manual retry while the retrier idles
    s = Sc("%s-rs-idle" % tag, 1, fam="retrier_states", covers=["notify@idle", "retry@idle"])
    s.regall().down("t1").notify("l1").wait_state("t1", ["unreachable"], 1, giveup_bound_ms() + 1500)
    s.notify("l2").probe().up("t1").retry("t1").delivered("t1").probe()
    out.append(s.done())
    # idle, no manual retry: woken by the auto retry delay
    s = Sc("%s-rs-idle-auto" % tag, 1, fam="retrier_states", covers=["notify@idle", "auto_retry"])
    s.regall().down("t1").notify("l1").wait_state("t1", ["unreachable"], 1, giveup_bound_ms() + 1500)
    s.up("t1").notify("l2").delivered("t1").probe()
    out.append(s.done())
    # failed: permanent subscription failure (the tower renews with a receipt that does not extend the subscription); a
    # manual retry is accepted once the failed retrier is gone, fails the same way while the tower goes on like that, and
    # delivers everything once the tower renews properly
    s = Sc("%s-rs-failed" % tag, 1, fam="retrier_states", covers=["notify@failed", "retry@failed"])
    s.regall().mode("t1", {"k": "sub_error"}).mode("t1", {"k": "accept", "ds": 0, "de": 0}, "reg").notify("l1")
    s.step(op="wait_req", t="t1", count=3, timeout_ms=5000).sleep(300).retry("t1").notify("l2").probe()
    s.sleep(1300).retry("t1").step(op="wait_req", t="t1", count=4, timeout_ms=5000).sleep(1500).probe()
    s.mode("t1", ACCEPT).mode("t1", ACCEPT, "reg").retry("t1").delivered("t1").probe()
    out.append(s.done())
    # stopped / absent: manual retry on a reachable tower, on an unknown one, after delivery
    s = Sc("%s-rs-absent" % tag, 2, fam="retrier_states", covers=["retry@absent"])
    s.reg("t1").retry("t1").retry("t2").notify("l1").retry("t1").down("t1").notify("l2").retry("t1").up("t1")
    s.delivered("t1").retry("t1").probe()
    out.append(s.done())
    # misbehaving tower: never retried, not even manually
    s = Sc("%s-rs-misb" % tag, 1, fam="retrier_states", covers=["retry@misbehaving"])
    s.regall().mode("t1", {"k": "badsig"}).notify("l1").retry("t1").mode("t1", ACCEPT).notify("l2").sleep(1500).probe()
    out.append(s.done())
    return out


def fam_kill(tag, rng, n_random):
    """SIGKILL at chosen and at random moments, restart on the same data directory"""
    out = []
    # while pending data exists; while the retrier is in flight; right after the tower accepted a re-delivery
    s = Sc("%s-k-pending" % tag, 2, fam="kill", covers=["kill@pending"])
    s.regall().down("t1").notify("l1").notify("l2").kill().restart().probe().up("t1").delivered("t1").probe()
    out.append(s.done())
    s = Sc("%s-k-held" % tag, 1, fam="kill", covers=["kill@inflight"])
    s.regall().down("t1").notify("l1").mode("t1", {"k": "accept", "hold": True}).up("t1")
    s.step(op="wait_held", t="t1", timeout_ms=5000).kill().mode("t1", ACCEPT).step(op="release", t="t1").restart()
    s.delivered("t1").probe()
    out.append(s.done())
    s = Sc("%s-k-hook" % tag, 2, fam="kill", covers=["kill@hook"])
    s.regall().mode("t1", {"k": "accept", "hold": True}).mode("t2", {"k": "accept", "hold": True})
    s.notify("l1", wait=False).sleep(700).kill().mode("t1", ACCEPT).mode("t2", ACCEPT).step(op="release", t="t1")
    s.step(op="release", t="t2").restart().notify("l1").notify("l2").probe()
    out.append(s.done())
    for i in range(n_random):
        delay = rng.choice([0, 50, 200, 500, 1000, 2000, 4000, 8000, 15000])
        path = rng.choice(["retry", "notify"])
        s = Sc("%s-k-rnd%d" % (tag, i), 1, fam="kill", covers=["kill@replied"])
        s.regall()
        if path == "retry":
            s.down("t1").notify("l1").notify("l2").step(op="kill_on", t="t1", when="replied", skip=rng.choice([0, 0, 1]),
                                                       delay_us=delay)
            s.up("t1").step(op="wait_dead", timeout_ms=7000)
        else:
            s.step(op="kill_on", t="t1", when="replied", skip=0, delay_us=delay).notify("l1").step(op="wait_dead",
                                                                                                  timeout_ms=3000)
        s.restart().notify("l3").delivered("t1").probe()
        out.append(s.done())
    return out


def fam_restart(tag):
    """a restart reloads every tower from disk for what it is: misbehaving only with its own proof, temporarily
    unreachable only with its own pending data"""
    out = []
    # t1 is caught with a bad signature for l1, which t2 (t3) accepts / keeps pending / rejects
    for other in ("accept", "pending", "reject"):
        s = Sc("%s-restart-misb-%s" % (tag, other), 2, fam="restart", covers=["restart@misbehaving+" + other])
        s.regall().mode("t1", {"k": "badsig"})
        if other == "pending":
            s.down("t2")
        if other == "reject":
            s.mode("t2", {"k": "reject"})
        s.notify("l1").probe().kill().restart().probe()
        if other == "pending":
            s.up("t2")
        s.mode("t2", ACCEPT).notify("l2")
        if other == "pending":
            s.delivered("t2")
        s.probe().restart().probe().notify("l3").probe()
        out.append(s.done())
    # one tower with pending data, the other one without: only the first one is retried after the restart
    s = Sc("%s-restart-pending-one" % tag, 2, fam="restart", covers=["restart@pending"])
    s.regall().down("t1").notify("l1").notify("l2").restart().probe().notify("l3").up("t1").delivered("t1").probe()
    out.append(s.done())
    return out


def fam_duplicates(tag):
    out = []
    for what, pre in (("accepted", []), ("pending", ["down"]), ("invalid", ["reject"])):
        s = Sc("%s-dup-%s" % (tag, what), 1, fam="duplicates", covers=["duplicate@" + what])
        s.regall()
        if pre == ["down"]:
            s.down("t1")
        if pre == ["reject"]:
            s.mode("t1", {"k": "reject"})
        s.notify("l1").notify("l1").probe()
        if pre == ["down"]:
            s.up("t1")
        s.mode("t1", ACCEPT).notify("l2").delivered("t1").probe()
        out.append(s.done())
    return out


def fam_abandon(tag):
    """abandontower: all and only the abandoned tower's records go; what the other towers hold (accepted, pending,
    invalid, with the data needed to send it again) stays"""
    out = []
    # t2 holds one appointment of each kind; t1 shares none / some of the data; t1 is abandoned
    for share in (False, True):
        s = Sc("%s-ab-other-%s" % (tag, "shared" if share else "own"), 2, fam="abandon", covers=["abandon"])
        s.regall().mode("t2", {"k": "reject"})
        if share:
            s.mode("t1", {"k": "reject"})
        s.notify("l1").mode("t2", ACCEPT).mode("t1", ACCEPT).notify("l2").down("t2")
        if share:
            s.down("t1")
        s.notify("l3").probe().abandon("t1").probe().kill().restart().probe()
        s.up("t2").delivered("t2").notify("l4").probe()
        out.append(s.done())
    # abandontower while a request to that tower is in flight; the request then fails in a way that asks for a retry
    for late in ("garbage", "reset", "sub_error", "malsig"):
        s = Sc("%s-ab-inflight-%s" % (tag, late), 2, fam="abandon", covers=["abandon@inflight"])
        s.regall().mode("t1", {"k": "accept", "hold": True}).notify("l1", wait=False)
        s.step(op="wait_held", t="t1", timeout_ms=4000).abandon("t1")
        if late == "refused":
            s.step(op="release", t="t1", beh={"k": "reset"})
        else:
            s.step(op="release", t="t1", beh=dict((BROKEN[0] if late == "reset" else ADD_CLASS[late][0])))
        s.mode("t1", ACCEPT).wait_for("l1").sleep(1600).probe().notify("l2").probe().reg("t1").notify("l3").probe()
        out.append(s.done())
    # abandoning a tower that is being retried; abandoning an unknown tower; registering again afterwards
    s = Sc("%s-ab-retried" % tag, 2, fam="abandon", covers=["abandon@running"])
    s.regall().down("t1").notify("l1").sleep(1300).abandon("t1").abandon("t1").probe().up("t1").notify("l2").sleep(1500)
    s.reg("t1").notify("l3").probe()
    out.append(s.done())
    return out


def fam_misbehaving_late(tag):
    """a tower flagged as misbehaving stays flagged (and is not sent to) whatever is reported about it afterwards: answers
    to requests that were in flight when it was caught, a failed registertower, a retry asked for it"""
    out = []
    for late in ("sub_error", "garbage", "reject", "accept"):
        s = Sc("%s-misb-late-%s" % (tag, late), 1, fam="misbehaving_late", covers=["misbehaving:late_" + late])
        s.regall().mode("t1", {"k": "accept", "hold": True}).notify("l1", wait=False).notify("l2", wait=False)
        s.step(op="wait_req", t="t1", count=3, arrival=True, timeout_ms=4000)
        s.step(op="release", t="t1", beh={"k": "badsig"}).sleep(150).step(op="release", t="t1", beh=dict(ADD_CLASS[late][0]))
        s.mode("t1", ACCEPT).mode("t1", ACCEPT, "reg").wait_for("l1").wait_for("l2").sleep(2500).probe()
        s.notify("l3").probe().kill().restart().probe()
        out.append(s.done())
    s = Sc("%s-misb-late-refused" % tag, 1, fam="misbehaving_late", covers=["misbehaving:late_refused"])
    s.regall().mode("t1", {"k": "badsig"}).notify("l1").down("t1").reg("t1").retry("t1").probe().up("t1")
    s.mode("t1", ACCEPT).reg("t1").notify("l2").sleep(1500).probe()
    out.append(s.done())
    return out


def fam_register(tag):
    """C14 RegRecorded: answers to register on the RPC path and on the renewal path"""
    out = []
    regs = [("ok", ACCEPT), ("badsig", {"k": "badsig"}), ("malsig", {"k": "malsig", "variant": 1}),
            ("sameexp", {"k": "accept", "de": 0}), ("sameslots", {"k": "accept", "ds": 0}),
            ("lower", {"k": "accept", "slots": 1, "expiry": 1}), ("garbage", {"k": "garbage", "variant": 1}),
            ("error", {"k": "error", "code": 7}), ("empty", {"k": "empty"}),
            ("strnum", {"k": "mutate", "set": {"available_slots": "100"}}),
            ("nosig", {"k": "mutate", "del": ["subscription_signature"]}),
            ("othervalues", {"k": "mutate", "set": {"subscription_expiry": 4000000000}})]
    for name, beh in regs:
        # first registration
        s = Sc("%s-reg1-%s" % (tag, name), 1, fam="register", covers=["register:" + name])
        s.reg("t1", beh).probe().reg("t1").notify("l1").probe()
        out.append(s.done())
        # renewal by the user
        s = Sc("%s-reg2-%s" % (tag, name), 1, fam="register", covers=["renew:" + name])
        s.reg("t1").notify("l1").reg("t1", beh).probe().notify("l2").probe()
        out.append(s.done())
        # renewal by the retrier after a subscription error
        s = Sc("%s-reg3-%s" % (tag, name), 1, fam="register", covers=["renew_retry:" + name])
        s.reg("t1").mode("t1", {"k": "sub_error"}).queue("t1", [beh], "reg").notify("l1").mode("t1", ACCEPT)
        s.sleep(2500).probe()
        if name in ("ok", "garbage", "error", "empty", "strnum", "nosig"):
            s.delivered("t1").probe()
        out.append(s.done())
    # renewal through another address of the same tower: reported and stored alike, also after a restart
    s = Sc("%s-reg-other-address" % tag, 1, fam="register", covers=["renew:other_address"])
    s.reg("t1").notify("l1").step(op="register", t="t1", alt=True).probe().notify("l2").restart().probe().notify("l3")
    s.reg("t1").probe()
    out.append(s.done())
    # a tower that is down when the user registers again
    s = Sc("%s-reg-down" % tag, 1, fam="register", covers=["register:refused"])
    s.reg("t1").down("t1").reg("t1").probe().notify("l1").up("t1").delivered("t1").probe()
    out.append(s.done())
    return out


MUTATIONS_ADD = [
    ("nosig", {"k": "mutate", "del": ["signature"]}),
    ("nolocator", {"k": "mutate", "del": ["locator"]}),
    ("noslots", {"k": "mutate", "del": ["available_slots"]}),
    ("slots_str", {"k": "mutate", "set": {"available_slots": "5"}}),
    ("slots_neg", {"k": "mutate", "set": {"available_slots": -1}}),
    ("slots_big", {"k": "mutate", "set": {"available_slots": 4294967296}}),
    ("slots_float", {"k": "mutate", "set": {"available_slots": 1.5}}),
    ("slots_zero", {"k": "mutate", "set": {"available_slots": 0}}),
    ("start_other", {"k": "mutate", "set": {"start_block": 7}}),
    ("start_str", {"k": "mutate", "set": {"start_block": "1001"}}),
    ("locator_nothex", {"k": "mutate", "set": {"locator": "zz"}}),
    ("locator_other", {"k": "mutate", "set": {"locator": "00112233445566778899aabbccddeeff"}}),
    ("sig_null", {"k": "mutate", "set": {"signature": None}}),
    ("sig_num", {"k": "mutate", "set": {"signature": 12}}),
    ("sig_trunc", {"k": "mutate", "set": {"signature": "d75ygmfzk3x1pwbnrzh8q6hxmgggwqk5dzpn9r77t4xqo1rw"}}),
    ("extra", {"k": "mutate", "set": {"unexpected": {"a": [1, 2, 3]}}}),
    ("both_shapes", {"k": "mutate", "set": {"error": "x", "error_code": 7}}),
    ("err7_extra", {"k": "json", "body": {"error": "x", "error_code": 7, "more": 1}}),
    ("err_code_str", {"k": "json", "body": {"error": "x", "error_code": "7"}}),
    ("err_code_big", {"k": "json", "body": {"error": "x", "error_code": 256}}),
    ("err_no_text", {"k": "json", "body": {"error_code": 7}}),
    ("err_code_0", {"k": "json", "body": {"error": "", "error_code": 0}}),
    ("json_string", {"k": "json", "body": "accepted"}),
    ("json_number", {"k": "json", "body": 42}),
    ("json_true", {"k": "json", "body": True}),
    ("json_nested", {"k": "json", "body": {"a": {"b": {"c": [[[[]]]]}}}}),
    ("raw_bom", {"k": "raw", "body": "﻿{}"}),
    ("raw_trailing", {"k": "raw", "body": "{\"error\":\"x\",\"error_code\":7} trailing"}),
    ("raw_nul", {"k": "raw", "body": "\u0000\u0000\u0000"}),
    ("raw_deep", {"k": "raw", "body": "[" * 300 + "]" * 300}),
    ("status_204", {"k": "raw", "body": "", "code": 204}),
    ("status_500_valid", {"k": "accept", "status": 500}),
]


def fam_mutations(tag, muts, paths=("notify", "retry")):
    """C14 Survives: structured mutations of valid answers and raw bytes, on both paths, liveness probe after each"""
    out = []
    for name, beh in muts:
        for path in paths:
            s = Sc("%s-mut-%s-%s" % (tag, path, name), 1, fam="mutations", covers=["mutation:%s:%s" % (path, name)])
            s.regall()
            if path == "notify":
                s.queue("t1", [beh]).notify("l1").probe().notify("l2").probe()
            else:
                s.down("t1").notify("l1").queue("t1", [beh]).up("t1").sleep(2200).probe().notify("l2").sleep(300).probe()
            out.append(s.done())
    return out


def fam_random(tag, rng, n, max_steps=14):
    """seeded random fault sequences over two towers (VERIF_SEED)"""
    out = []
    classes = ["accept"] * 4 + ["sub_error", "reject", "garbage", "badsig", "malsig"]
    for i in range(n):
        nt = rng.choice([1, 2, 2])
        s = Sc("%s-rnd%d" % (tag, i), nt, fam="random", covers=["random"])
        s.regall()
        towers = s.d["towers"]
        nl = 0
        isdown = set()
        dead = False
        for _ in range(rng.randint(5, max_steps)):
            t = rng.choice(towers)
            r = rng.random()
            if dead:
                s.restart()
                dead = False
            elif r < 0.30:
                nl = min(nl + 1, 4)
                s.notify("l%d" % (nl if rng.random() < 0.85 else rng.randint(1, nl)))
            elif r < 0.45:
                cls = rng.choice(classes)
                s.mode(t, rng.choice(ADD_CLASS[cls][:6]))
            elif r < 0.55:
                s.queue(t, [rng.choice(ADD_CLASS[rng.choice(classes)][:6])])
            elif r < 0.67:
                if t in isdown:
                    s.up(t)
                    isdown.discard(t)
                else:
                    s.down(t)
                    isdown.add(t)
            elif r < 0.80:
                s.sleep(rng.choice([200, 600, 1200, 2500]))
            elif r < 0.87:
                s.retry(t)
            elif r < 0.92:
                s.kill()
                dead = True
            elif r < 0.95:
                s.reg(t, rng.choice([ACCEPT, ACCEPT, {"k": "badsig"}, {"k": "accept", "de": 0}]))
            else:
                s.probe()
        if dead:
            s.restart()
        for t in towers:
            if t in isdown:
                s.up(t)
            s.mode(t, ACCEPT).mode(t, ACCEPT, "reg")
        s.sleep(deliver_bound_ms() + 500).probe()
        out.append(s.done())
    return out


# ---------------------------------------------------------------------------------------------------
# scripts from TLC behaviours (spec -> impl)

GEN_CONSTS = {"Towers": '{"t1", "t2"}', "Locators": '{"l1", "l2"}', "DEVIATIONS": "{}", "MaxNotify": 2, "MaxConc": 2,
              "MaxKill": 1, "MaxBad": 3, "MaxDown": 2, "MaxRetry": 1, "MaxAbandon": 0, "MaxReg": 0,
              "AddKinds": '{"sub_error", "reject", "garbage", "badsig", "malsig"}',
              "RegKinds": '{"same", "badsig", "garbage"}', "MaxLen": 16}



def tlc_behaviours(wd, num, depth, sd, stats):
    """`tlc -simulate` on MC_ClientGen (seeded): every behaviour is printed as the sequence of its visible actions."""
    os.makedirs(wd, exist_ok=True)
    consts = dict(GEN_CONSTS)
    consts["GenDepth"] = depth
    cfg = os.path.join(wd, "MC_ClientGen_%d.cfg" % sd)
    with open(cfg, "w") as f:
        f.write("CONSTANTS\n" + "".join("  %s = %s\n" % kv for kv in consts.items()))
        f.write("SPECIFICATION GSpec\nINVARIANTS EmitInv\nCHECK_DEADLOCK FALSE\n")
    meta = os.path.join(wd, "meta_gen_%d" % os.getpid())
    env = dict(os.environ)
    env["JAVA_TOOL_OPTIONS"] = "-Xss1g"
    t0 = time.time()
    p = subprocess.run(["tlc", "-workers", "1", "-metadir", meta, "-cleanup", "-noGenerateSpecTE", "-simulate",
                        "num=%d" % num, "-depth", str(depth), "-seed", str(1000003 * sd + 17), "-config", cfg,
                        os.path.join(SPEC, "MC_ClientGen.tla")], cwd=SPEC, env=env, stdout=subprocess.PIPE,
                       stderr=subprocess.STDOUT, text=True, timeout=900)
    subprocess.run(["rm", "-rf", meta])
    beh = []
    seen = set()
    for line in p.stdout.splitlines():
        if line.startswith("<<"):
            tag, val = unwrap_print(line)
            if tag == "BEHAVIOUR" and val and val[1] is not None:
                key = json.dumps(val[1])
                if key not in seen:
                    seen.add(key)
                    beh.append(val[1])
    if "Error:" in p.stdout and "BEHAVIOUR" not in p.stdout:
        log(p.stdout[-3000:])
        raise ToolError("TLC simulation of MC_ClientGen failed")
    stats["gen_tlc_wall_s"] = round(time.time() - t0, 1)
    stats["gen_behaviours_printed"] = len(beh)
    return beh


def pick_behaviours(beh, n, rng):
    """n behaviours that differ in more than their last action, preferring those with faults in them"""
    by_prefix = {}
    for b in beh:
        by_prefix.setdefault(json.dumps(b[:-2]), []).append(b)
    groups = list(by_prefix.values())
    rng.shuffle(groups)

    def weight(b):
        return sum(1 for a in b if a["a"] == "reply" and a["cls"] != "accept") + sum(2 for a in b if a["a"] == "kill") \
            + sum(1 for a in b if a["a"] in ("send", "reply"))

    picked = [max(g, key=weight) for g in groups]
    picked.sort(key=weight, reverse=True)
    return picked[:n]


def script_of_behaviour(name, acts):
    """visible actions of a TLC behaviour -> rig script; every request is held by the towers so that the answers come in
    the order (and with the class) the specification chose"""
    s = Sc(name, 2, fam="tlc", covers=["tlc"])
    s.regall()
    hold = {"k": "accept", "hold": True}
    for t in s.d["towers"]:
        s.mode(t, hold).mode(t, hold, "reg")
    outstanding = set()
    dead = False
    for a in acts:
        k = a["a"]
        if k == "notify":
            s.notify(a["l"], wait=False)
            outstanding.add(a["l"])
        elif k == "notify_ret":
            s.wait_for(a["l"])
            outstanding.discard(a["l"])
        elif k == "send":
            s.step(op="wait_held", t=a["t"], timeout_ms=3500)
        elif k == "reply":
            cls = a["cls"]
            if a["ep"] == "add":
                beh = dict(ADD_CLASS[cls][0])
            elif cls == "accept":
                beh = {"k": "accept"} if a["ext"] else {"k": "accept", "de": 0}
            else:
                beh = {"k": cls, "variant": 1}
            s.step(op="release", t=a["t"], beh=beh)
        elif k == "retry":
            s.retry(a["t"])
        elif k == "down":
            s.down(a["t"])
        elif k == "up":
            s.up(a["t"])
        elif k == "kill":
            s.kill()
            dead = True
            outstanding.clear()
        elif k == "restart":
            s.restart()
            dead = False
    if dead:
        s.restart()
    # the environment becomes well-behaved: everything has to settle (C13) and nothing may be lost (C05)
    for t in s.d["towers"]:
        s.up(t).mode(t, ACCEPT).mode(t, ACCEPT, "reg").step(op="release", t=t)
    for l in sorted(outstanding):
        s.wait_for(l)
    s.sleep(deliver_bound_ms() + 500).probe()
    return s.done()


# ---------------------------------------------------------------------------------------------------
# execution and validation

def build_all():
    t0 = time.time()
    build(["client_rig"])
    client = build_repo_bin("watchtower-plugin", "watchtower-client")
    return client, time.time() - t0


def run_scenarios(scens, wd, client, jobs=24, timeout=3000):
    sdir = os.path.join(wd, "traces")
    os.makedirs(sdir, exist_ok=True)
    sfile = os.path.join(wd, "scenarios_%d.ndjson" % (int(time.time() * 1000) % 100000000))
    with open(sfile, "w") as f:
        for s in scens:
            f.write(json.dumps(s) + "\n")
    p = subprocess.run([os.path.join(BIN, "client_rig"), "run", sfile, sdir, "--client", client, "--jobs", str(jobs)],
                       stdout=subprocess.PIPE, stderr=subprocess.PIPE, text=True, timeout=timeout)
    if p.returncode != 0:
        raise ToolError("client_rig failed: " + p.stderr[-2000:])
    res = json.loads(p.stdout.strip().splitlines()[-1])
    if res["errors"]:
        raise ToolError("client_rig could not run %d scenarios: %s" % (len(res["errors"]), json.dumps(res["errors"])[:600]))
    return {r["name"]: r for r in res["results"]}, sdir


VALIDATE_TIMEOUT = 900
EOF_LINE = '{"ev":"eof","ts":0,"t":"-","l":"-","id":0,"m":"-","res":"-"}\n'


def validate_many(names, sdir, wd, shard=6, par=10):
    """Trace_Client on all traces (concatenated into shards, several JVMs in parallel). Returns name -> [tags]."""
    vdir = os.path.join(wd, "validate")
    os.makedirs(vdir, exist_ok=True)
    shards = [names[i:i + shard] for i in range(0, len(names), shard)]
    tags_of = {n: [] for n in names}
    lines_total = [0]

    def one(idx_names):
        idx, ns = idx_names
        cat = os.path.join(vdir, "shard_%d_%d.ndjson" % (os.getpid(), idx))
        nlines = 1
        offset = {}
        with open(cat, "w") as f:
            for n in ns:
                text = open(os.path.join(sdir, n + ".ndjson")).read()
                offset[n] = nlines - 1
                nlines += text.count("\n")
                f.write(text)
            f.write(EOF_LINE)
        # as common.validate_trace, with a JVM that does not grab every core (many validators run side by side)
        r = tlc("Trace_Client", os.environ.get("TRACE_CLIENT_CFG", "Trace_Client.cfg"), os.path.join(vdir, "w%d" % idx),
                workers=1, timeout=VALIDATE_TIMEOUT,
                env_extra={"TRACE": cat, "JAVA_TOOL_OPTIONS": "-Xss1g -Xmx3g -XX:ParallelGCThreads=2 -XX:CICompilerCount=2 "
                                                              "-Dtlc2.tool.queue.IStateQueue=StateDeque"})
        tags, consumed = None, 0
        for ln in r.printed:
            tag, val = unwrap_print(ln)
            if tag == "TRACE-END" and val is not None:
                consumed = int(val[0])
                tags = val[1]
        if not r.ok or tags is None or consumed != nlines:
            log(r.out[-3000:])
            raise ToolError("trace shard %s was not consumed to its end by Trace_Client (consumed=%s of %d lines)" %
                            (cat, consumed, nlines))
        # line numbers relative to the scenario's own trace file
        tags = [[t[0] - offset.get(t[3], 0), t[1], t[2], t[3]] for t in tags]
        return tags, consumed

    with ThreadPoolExecutor(max_workers=par) as ex:
        for tags, consumed in ex.map(one, list(enumerate(shards))):
            lines_total[0] += consumed
            for t in tags:
                if t[3] in tags_of:
                    tags_of[t[3]].append(t)
    return tags_of, lines_total[0]


# panic sites -> (finding tag, properties that own it); an abort tag reads "<site> <message>" or "poisoned:<site>"
ABORT_SITES = [
    (re.compile(r"net/http\.rs:\d+:\d+ .*(Result::unwrap|InvalidSignature|Err)"), "S14", ("C14", "C05")),
    (re.compile(r"wt_client\.rs:\d+"), "S15p", ("C05",)),
]
SECONDARY = re.compile(r"^poisoned:")   # lock().unwrap() on the poisoned mutex: consequence, not cause


def owner_tags(pid, tags):
    """the tags of one scenario that belong to property pid, as (key, text)"""
    out = []
    for (ln, prop, what, _name) in tags:
        if prop == "ABORT":
            hit = False
            for rx, fid, props in ABORT_SITES:
                if rx.search(what):
                    hit = True
                    if pid in props:
                        out.append(("abort:" + fid, "panic at %s" % what, ln))
            if not hit and not SECONDARY.search(what) and pid == "C14":
                out.append(("abort:" + what, "panic at %s" % what, ln))
        elif prop in ("INCONCLUSIVE", "VALIDATOR"):
            out.append((prop, what, ln))
        elif prop == pid:
            out.append((what, what, ln))
    return out


# ---------------------------------------------------------------------------------------------------
# findings: what each confirmed deviation of the code explains, and who owns it

FINDINGS = {
    "S12": {"props": ("C05",), "site": "watchtower-plugin/src/main.rs::on_commitment_revocation",
            "scenario": "answer-neither-response-nor-api-error/notification-path",
            "explains": {"dev:S12", "NeverLost"},
            "what": "an add_appointment answer that is neither a response nor an API error (non-JSON, wrong shape, error "
                    "code out of range, connection closed) on the notification path records nothing: the appointment "
                    "is lost for that tower"},
    "S13": {"props": ("C13",), "site": "watchtower-plugin/src/retrier.rs::Retrier::run",
            "scenario": "answer-neither-response-nor-api-error/retry-path",
            "explains": {"dev:S13", "NoFlood.request_before_backoff"},
            "what": "the same class of answer inside the retry loop is ignored and the appointment is re-sent at once, "
                    "without back-off, for as long as the tower answers like that"},
    "S14": {"props": ("C14", "C05", "C13"), "site": "watchtower-plugin/src/net/http.rs::send_appointment",
            "scenario": "undecodable-signature",
            "explains": {"dev:S14", "abort:S14", "Survives", "NeverLost", "Survives.no_answer_to_notify",
                         "Delivered.not_within_bound"},
            "what": "an appointment response whose signature cannot be decoded panics (recover_pk(..).unwrap()): the "
                    "commitment_revocation hook never answers and the remaining towers are skipped; in the retrier "
                    "the task dies and the tower stays 'being retried' for ever"},
    "S15": {"props": ("C05",), "site": "watchtower-plugin/src/wt_client.rs::add_appointment_receipt/add_invalid_appointment",
            "scenario": "second-final-record-for-tower-and-appointment",
            "explains": {"dev:S15", "ExactlyOne"},
            "what": "an appointment that already has a final record for a tower (rejected -> invalid, or accepted) and is "
                    "notified / delivered again with the other outcome gets a second final record: it is listed as "
                    "accepted AND invalid for that tower"},
    "S15p": {"props": ("C05",), "site": "watchtower-plugin/src/wt_client.rs::add_*_appointment*",
             "scenario": "second-record-for-tower-and-appointment",
             "explains": {"dev:S15p", "abort:S15p", "ExactlyOne", "NeverLost", "Survives", "*"},
             "what": "(repaired by 6ac4a92) inserting a row that exists panicked with the state mutex held"},
    "S21": {"props": ("C05",), "site": "watchtower-plugin/src/retrier.rs::Retrier::run (load_appointment(locator).unwrap())",
            "scenario": "revocation-notified-again-while-the-retrier-delivers-it",
            "explains": {"dev:S21", "abort:S21", "NeverLost", "Survives", "*"},
            "what": "a revocation notified again while the retrier is delivering it is queued for the retrier once more; "
                    "when the manager hands it over after the delivery, the retrier looks for an appointment that is not "
                    "stored any more and load_appointment(..).unwrap() panics with the state mutex held: every later "
                    "handler panics too (hook never answers, nothing is recorded any more)"},
    "S18": {"props": ("C14",), "site": "watchtower-plugin/src/wt_client.rs::set_tower_status (callers: Retrier::start, on_commitment_revocation)",
            "scenario": "status-of-misbehaving-tower-overwritten",
            "explains": {"dev:S18", "BadSig", "BadSig.request_to_misbehaving_tower"},
            "what": "a retrier is started (or goes on) for a tower that has been flagged misbehaving meanwhile - a handler "
                    "that read the status earlier queued data for it: the appointment is sent to the tower although its "
                    "misbehaviour proof is stored (the status itself is no longer overwritten since 0773eb6)"},
    "S22": {"props": ("C14",), "site": "watchtower-plugin/src/wt_client.rs::flag_misbehaving_tower (dbm.rs::store_misbehaving_proof)",
            "scenario": "bad-signature-for-appointment-that-has-a-receipt",
            "explains": {"dev:S22", "Misbehaving"},
            "what": "an appointment that already has a receipt for the tower is delivered again (duplicate notification "
                    "while the tower was away) and answered with a bad signature: store_misbehaving_proof fails on the "
                    "existing receipt row, the failure is only logged (6ac4a92) and the tower is flagged misbehaving in "
                    "memory without any proof on disk - after a restart it is trusted and sent to again"},
    "S19": {"props": ("C13",), "site": "watchtower-plugin/src/main.rs::on_commitment_revocation + retrier.rs::RetryManager::manage_retry",
            "scenario": "revocation-between-idle-wake-and-start",
            "explains": {"dev:S19", "Delivered.not_within_bound"},
            "what": "a revocation arriving after an idle retrier was woken (pending data reloaded, retrier no longer "
                    "registered as idle) but before it is started (tower still shown unreachable) is stored as pending "
                    "and not passed to the retrier: the tower ends up 'reachable' with the appointment pending for ever"},
    "S20": {"props": ("C13",), "site": "watchtower-plugin/src/main.rs::register",
            "scenario": "registertower-refused-for-known-tower",
            "explains": {"dev:S20", "Delivered.not_within_bound"},
            "what": "registertower (likewise getsubscriptioninfo / getappointment) against a known tower that refuses the "
                    "connection flags it 'temporary unreachable' without telling the retry manager: with nothing pending "
                    "nobody ever flags it reachable again, it is shown temporarily unreachable although it is back (until "
                    "the next revocation is delivered through a retrier)"},
}
ORDER = ["S15p", "S21", "S14", "S15", "S12", "S13", "S22", "S18", "S19", "S20"]


def classify(pid, tags):
    """tags of ONE scenario -> list of (finding id or None, key tag, text, line) for property pid."""
    devs = set()
    first_line = {}
    for (ln, prop, what, _n) in tags:
        f = None
        if what.startswith("dev:"):
            f = what[4:]
        elif prop == "ABORT":
            for rx, fid, _props in ABORT_SITES:
                if rx.search(what):
                    f = fid
        if f:
            devs.add(f)
            first_line[f] = min(first_line.get(f, ln), ln)
    out = []
    for (ln, prop, what, _n) in tags:
        if prop in ("INCONCLUSIVE", "VALIDATOR"):
            continue
        key = what
        if prop == "ABORT":
            fid = None
            for rx, f, _props in ABORT_SITES:
                if rx.search(what):
                    fid = f
            if fid is None:
                if SECONDARY.search(what):
                    continue        # lock().unwrap() on the poisoned mutex: the consequence of another panic
                if pid in ("C14", "C05"):
                    # a panic nobody has explained yet: the client does not survive (C14) and loses what the task was
                    # about to record (C05)
                    site = what.split(" ")[0]
                    out.append((None, "abort:" + re.sub(r":\d+:\d+$", "", site), "panic at " + what, ln))
                continue
            key = "abort:" + fid
            if pid in [pr for rx, f, props in ABORT_SITES if f == fid for pr in props]:
                out.append((fid, key, "panic at " + what, ln))
            continue
        if prop != pid:
            continue
        fid = None
        for f in ORDER:
            if f not in devs:
                continue
            ex = FINDINGS[f]["explains"]
            if key in ex or ("*" in ex and ln >= first_line[f]):
                fid = f
                break
        if fid is not None and pid not in FINDINGS[fid]["props"]:
            continue                # collateral damage of a finding another property owns
        out.append((fid, key, what, ln))
    return out


def signature(trace_path):
    """(distinct-behaviour signature, non-trivial?) of an implementation trace: multiset of (event, class / answer)"""
    sig = {}
    nontrivial = False
    with open(trace_path) as f:
        for line in f:
            e = json.loads(line)
            ev = e["ev"]
            if ev in ("obs", "same", "start", "end", "mode", "waited", "note"):
                continue
            k = (ev, e.get("m", "-"), e.get("ep", "-"), ",".join(e.get("cls", [])) if ev == "rep" else "", e.get("res", "-"))
            sig[k] = sig.get(k, 0) + 1
            if (ev == "rep" and e.get("cls") != ["accept"]) or ev in ("kill", "abort", "noret") or \
                    (ev == "env" and not e.get("up", True)):
                nontrivial = True
    return json.dumps(sorted((list(k), v) for k, v in sig.items())), nontrivial


# ---------------------------------------------------------------------------------------------------
# TLC at the design level

SAFETY_INVS = {
    "C05": ["InvNeverLost", "InvExactlyOne", "InvDataForResend", "InvStore"],
    "C13": ["InvOneLoop", "InvNoFlood", "InvEndsUnreachable", "InvMapSound", "InvManualRetryGate"],
    "C14": ["InvBadSig", "InvMisbehaving", "InvSurvives", "InvRegRecorded", "InvStore"],
}
ALL_KINDS = '{"sub_error", "reject", "garbage", "badsig", "malsig"}'


def mc_consts(towers, locs, **kw):
    c = {"Towers": "{%s}" % ", ".join('"t%d"' % (i + 1) for i in range(towers)),
         "Locators": "{%s}" % ", ".join('"l%d"' % (i + 1) for i in range(locs)),
         "DEVIATIONS": "{}", "MaxNotify": 2, "MaxConc": 2, "MaxKill": 1, "MaxBad": 2, "MaxDown": 1, "MaxRetry": 1,
         "MaxAbandon": 0, "MaxReg": 0, "AddKinds": ALL_KINDS, "RegKinds": '{"same", "badsig", "garbage"}'}
    c.update(kw)
    return c


def run_tlc_cfg(wd, name, consts, invs=None, props=None, spec="Spec", workers=10, timeout=2400, heap="24g"):
    """MC_Client with a generated configuration; returns dict with the outcome."""
    os.makedirs(wd, exist_ok=True)
    cfg = os.path.join(wd, "%s.cfg" % name)
    with open(cfg, "w") as f:
        f.write("CONSTANTS\n" + "".join("  %s = %s\n" % kv for kv in consts.items()))
        f.write("SPECIFICATION %s\n" % spec)
        if invs:
            f.write("INVARIANTS %s\n" % " ".join(invs))
        if props:
            f.write("PROPERTIES %s\n" % " ".join(props))
        f.write("CHECK_DEADLOCK FALSE\n")
    meta = os.path.join(wd, "meta_%s_%d" % (name, os.getpid()))
    env = dict(os.environ)
    env["JAVA_TOOL_OPTIONS"] = "-Xss1g -Xmx%s" % heap
    t0 = time.time()
    try:
        p = subprocess.run(["tlc", "-workers", str(workers), "-metadir", meta, "-cleanup", "-noGenerateSpecTE", "-config", cfg,
                            os.path.join(SPEC, "MC_Client.tla")], cwd=SPEC, env=env, stdout=subprocess.PIPE,
                           stderr=subprocess.STDOUT, text=True, timeout=timeout)
    except subprocess.TimeoutExpired:
        raise ToolError("TLC timeout on MC_Client/%s" % name)
    finally:
        subprocess.run(["rm", "-rf", meta])
    out = p.stdout
    res = {"config": name, "consts": {k: consts[k] for k in ("Towers", "Locators", "DEVIATIONS", "MaxNotify", "MaxConc", "MaxKill",
                                                             "MaxBad", "MaxDown", "MaxRetry")},
           "checked": (invs or []) + (props or []), "wall_s": round(time.time() - t0, 1), "ok": False, "violated": None,
           "distinct": 0, "generated": 0}
    m = None
    for m in re.finditer(r"(\d+) states generated, (\d+) distinct states found", out):
        pass
    if m:
        res["generated"], res["distinct"] = int(m.group(1)), int(m.group(2))
    if "Model checking completed. No error has been found." in out:
        res["ok"] = True
    else:
        m = re.search(r"Error: Invariant (\S+) is violated", out) or re.search(r"Error: Temporal property (\S+) was violated", out) \
            or re.search(r"Error: (Temporal properties were violated)", out)
        if m:
            res["violated"] = m.group(1)
        else:
            log(out[-3000:])
            raise ToolError("TLC failed on MC_Client/%s" % name)
    return res


def design_level(pid, tier, wd, stats):
    """the intended design satisfies the property (else the SPECIFICATION is wrong: tool error); thorough: every
    confirmed deviation owned by the property makes TLC produce a counterexample (anti-vacuity)"""
    mdir = os.path.join(wd, "tlc")
    invs = SAFETY_INVS[pid]
    runs = []
    mreg = 1 if pid == "C14" else 0      # registertower calls by the user (C14 RegRecorded)
    if tier == "quick":
        runs.append(("safety_1x1", mc_consts(1, 1, MaxReg=mreg), invs, None, "Spec"))
        runs.append(("safety_2x1_small", mc_consts(2, 1, MaxNotify=1, MaxBad=1, MaxRetry=0, MaxConc=1), invs, None, "Spec"))
        if pid == "C13":
            runs.append(("live_1x2", mc_consts(1, 2, MaxNotify=1, RegKinds='{"garbage"}'), None, ["Delivered"], "LiveSpec"))
    else:
        runs.append(("safety_1x1", mc_consts(1, 1, MaxReg=mreg), invs, None, "Spec"))
        runs.append(("safety_2x2", mc_consts(2, 2, MaxNotify=1, MaxBad=1, MaxRetry=0), invs, None, "Spec"))
        runs.append(("safety_2x1", mc_consts(2, 1, MaxConc=1, MaxRetry=0), invs, None, "Spec"))
        runs.append(("safety_1x2", mc_consts(1, 2), invs, None, "Spec"))
        if pid == "C13":
            runs.append(("live_1x2", mc_consts(1, 2, MaxNotify=1, RegKinds='{"garbage"}'), None, ["Delivered"], "LiveSpec"))
            runs.append(("live_2x1", mc_consts(2, 1, MaxNotify=1, MaxBad=1, MaxConc=1, RegKinds='{"garbage"}'), None,
                         ["Delivered"], "LiveSpec"))
    for name, consts, iv, pr, spec in runs:
        r = run_tlc_cfg(mdir, name, consts, iv, pr, spec)
        stats["tlc"].append(r)
        log("TLC %s: %s distinct states, %s s, %s" % (name, r["distinct"], r["wall_s"], "ok" if r["ok"] else r["violated"]))
        if not r["ok"]:
            raise ToolError("the intended design (DEVIATIONS = {}) violates %s in MC_Client/%s: the specification is wrong"
                            % (r["violated"], name))
    if tier == "thorough":
        for fid, devset, live, extra in VACUITY[pid]:
            consts = mc_consts(1, 2 if live or fid.startswith("S18") else 1, DEVIATIONS=devset)
            if live:
                consts.update(MaxNotify=1, RegKinds='{"garbage"}')
            consts.update(extra)
            r = run_tlc_cfg(mdir, "deviation_" + fid, consts, None if live else invs, ["Delivered"] if live else None,
                            "LiveSpec" if live else "Spec")
            r["expected_counterexample"] = True
            stats["tlc"].append(r)
            log("TLC with deviation %s: %s" % (fid, r["violated"] or "no counterexample"))
            if r["ok"]:
                raise ToolError("deviation %s switched on but TLC finds no counterexample to %s: the invariants are vacuous"
                                % (fid, pid))


# (deviation, DEVIATIONS, liveness?, extra constants): repaired deviations stay here - they keep the invariants honest
VACUITY = {
    "C05": [("S12", '{"S12"}', False, {}), ("S14", '{"S14"}', False, {}), ("S15", '{"S15"}', False, {}),
            ("S15p", '{"S15p"}', False, {"Towers": '{"t1", "t2"}', "MaxConc": 1}),
            ("S21", '{"S21"}', False, {"Towers": '{"t1", "t2"}', "MaxConc": 1})],
    "C13": [("S13", '{"S13"}', False, {}), ("S14", '{"S14"}', True, {}), ("S19", '{"S19"}', True, {}),
            # the user's registertower calls are part of the environment here; no renewals by the retrier (two renewals
            # in flight at once are the tower's problem: the second receipt does not extend the first)
            ("S20", '{"S20"}', True, {"MaxReg": 1, "Locators": '{"l1"}', "MaxKill": 0, "MaxRetry": 0, "RegKinds": "{}",
                                      "AddKinds": '{"reject", "garbage"}'})],
    "C14": [("S14", '{"S14"}', False, {}), ("S18", '{"S18"}', False, {}), ("S18o", '{"S18", "S18o"}', False, {}),
            ("S22", '{"S22"}', False, {"Locators": '{"l1"}'})],
}


# ---------------------------------------------------------------------------------------------------
# regression scripts of the confirmed findings (kept in every tier)

def regression_scripts():
    out = []
    s = Sc("fix-S12", 1, fam="regression", covers=["S12"])
    s.regall().mode("t1", {"k": "garbage", "variant": 0}).notify("l1").probe()
    out.append(s.done())
    s = Sc("fix-S13", 1, fam="regression", covers=["S13"])
    s.regall().down("t1").notify("l1").mode("t1", {"k": "garbage", "variant": 1}).up("t1").sleep(2500).probe()
    out.append(s.done())
    s = Sc("fix-S14-hook", 2, fam="regression", covers=["S14"])
    s.regall().mode("t1", {"k": "malsig", "variant": 1}).mode("t2", {"k": "malsig", "variant": 1}).notify("l1").probe()
    s.mode("t1", ACCEPT).mode("t2", ACCEPT).notify("l2").probe()
    out.append(s.done())
    s = Sc("fix-S14-retrier", 1, fam="regression", covers=["S14"])
    s.regall().down("t1").notify("l1").queue("t1", [{"k": "malsig", "variant": 3}]).up("t1").sleep(2500).retry("t1")
    s.sleep(deliver_bound_ms() + 500).probe()
    out.append(s.done())
    s = Sc("fix-S15-accepted", 1, fam="regression", covers=["S15"])
    s.regall().notify("l1").notify("l1").probe().notify("l2").probe()
    out.append(s.done())
    s = Sc("fix-S15-pending", 1, fam="regression", covers=["S15"])
    s.regall().down("t1").notify("l1").notify("l1").probe().up("t1").delivered("t1").probe()
    out.append(s.done())
    # S15 (what is left of it): the same revocation answered "rejected" once and "accepted" the other time
    for a, b in (("reject", "accept"), ("accept", "reject")):
        s = Sc("fix-S15-%s-%s" % (a, b), 1, fam="regression", covers=["S15"])
        s.regall().mode("t1", dict(ADD_CLASS[a][0])).notify("l1").mode("t1", dict(ADD_CLASS[b][0])).notify("l1").probe()
        s.mode("t1", ACCEPT).notify("l2").probe()
        out.append(s.done())
    # S21: the revocation is notified again while the retrier's request for it is in flight
    s = Sc("fix-S21", 1, fam="regression", covers=["S21"])
    s.regall().down("t1").notify("l1").mode("t1", {"k": "accept", "hold": True}).up("t1")
    s.step(op="wait_held", t="t1", timeout_ms=5000).notify("l1").mode("t1", ACCEPT).step(op="release", t="t1")
    s.sleep(2500).probe().notify("l2").delivered("t1").probe()
    out.append(s.done())
    # S22: re-delivery of an accepted appointment answered with a bad signature; the client is then restarted
    s = Sc("fix-S22", 1, fam="regression", covers=["S22"])
    s.regall().notify("l1").down("t1").notify("l1").mode("t1", {"k": "badsig"}).up("t1")
    s.wait_state("t1", ["misbehaving"], None, 6000).probe().kill().restart().mode("t1", ACCEPT).sleep(2500).probe()
    out.append(s.done())
    # S18: two handlers in flight; the tower answers one with a subscription error and the other with a bad signature
    s = Sc("fix-S18", 1, fam="regression", covers=["S18"])
    s.regall().mode("t1", {"k": "accept", "hold": True}).notify("l1", wait=False).notify("l2", wait=False)
    s.step(op="wait_req", t="t1", count=3, arrival=True, timeout_ms=4000)
    s.step(op="release", t="t1", beh={"k": "sub_error"}).step(op="release", t="t1", beh={"k": "badsig"})
    s.mode("t1", ACCEPT).mode("t1", ACCEPT, "reg").wait_for("l1").wait_for("l2").sleep(3500).probe()
    out.append(s.done())
    # S20: renewing the registration while the tower is away
    s = Sc("fix-S20", 1, fam="regression", covers=["S20"])
    s.regall().notify("l1").down("t1").reg("t1").up("t1").sleep(deliver_bound_ms() + 800).probe()
    out.append(s.done())
    # S19: revocation in the second between the automatic wake-up of an idle retrier and its start
    for off in (2600, 2900, 3200):
        s = Sc("fix-S19-%d" % off, 1, fam="regression", covers=["S19"])
        s.regall().down("t1").notify("l1").wait_state("t1", ["unreachable"], 1, giveup_bound_ms() + 1500).up("t1")
        s.sleep(off).notify("l2").delivered("t1").probe()
        out.append(s.done())
    return out


# ---------------------------------------------------------------------------------------------------
# the check

ASSUMPTIONS = [
    "the fake towers (harness/client_rig) sign receipts with teos_common::receipts / cryptography exactly as the real tower "
    "does; the class of every answer (accept / sub_error / reject / badsig / malsig / garbage) is read off the bytes "
    "actually sent, with teos_common's own signature verifier",
    "the client is observed from outside only: plugin stdio protocol, requests reaching the towers, rows of its SQLite "
    "file (second read-only connection), panic messages on stderr; everything in between is closed over by "
    "Trace_Client.tla (set of compatible states of Client.tla)",
    "retry options 2 s / 1 s / 1 s (max retry time, auto retry delay, max interval); timing obligations use the bounds "
    "derived from them plus %d ms slack; a connection refused cannot be seen by a tower, so NoFlood is judged on "
    "requests that reach a tower" % SLACK_MS,
    "a tower that accepts a connection and never answers is outside the quantifier (reqwest has no timeout configured)",
    "SIGKILL lands where the scheduler puts it: crash points between two SQLite transactions are hit statistically "
    "(random delays after a tower's answer), not enumerated - the plugin has no crash-point hook",
]


def run_check(pid, tier, replay, scenarios_fn, rule):
    t0 = time.time()
    wd = workdir(pid)
    client, _ = build_all()
    rng = random.Random(seed() * 7919 + sum(ord(ch) for ch in pid))
    verdict = Verdict(pid)
    stats = {"tlc": [], "gen": {}}
    if replay:
        rp = json.load(open(replay))
        scens = [rp["replay"]["scenario"]]
    else:
        design_level(pid, tier, wd, stats)
        scens = scenarios_fn(rng, tier, wd, stats)
    names = [s["name"] for s in scens]
    if len(set(names)) != len(names):
        raise ToolError("scenario names are not unique")
    by_name = {s["name"]: s for s in scens}
    t1 = time.time()
    res, sdir = run_scenarios(scens, wd, client)
    run_wall = time.time() - t1
    t1 = time.time()
    tags_of, lines = validate_many(names, sdir, wd)
    val_wall = time.time() - t1
    # scenarios whose timing assumptions were not met are run once more, alone; still inconclusive = tool error
    inconclusive = [n for n in names if res[n]["inconclusive"] or any(t[1] == "INCONCLUSIVE" for t in tags_of[n])]
    for attempt in range(3):
        if not inconclusive:
            break
        log("inconclusive scenarios (attempt %d), run again a few at a time: %s" % (attempt + 1, inconclusive))
        res2, _ = run_scenarios([by_name[n] for n in inconclusive], wd, client, jobs=2)
        tags2, _ = validate_many(inconclusive, sdir, wd)
        for n in inconclusive:
            res[n] = res2[n]
            tags_of[n] = tags2[n]
        inconclusive = [n for n in inconclusive if res[n]["inconclusive"] or any(t[1] == "INCONCLUSIVE" for t in tags_of[n])]
    if inconclusive:
        still = inconclusive
        if still:
            raise ToolError("timing assumptions not met (machine overloaded?) in scenarios %s: %s" %
                            (still, [res[n]["inconclusive"] for n in still][:3]))
    # scenarios the validator could not judge (too many compatible states): counted, not judged; too many = tool error
    unjudged = [n for n in names if any(t[1] == "VALIDATOR" for t in tags_of[n])]
    if len(unjudged) > max(2, len(names) // 20):
        raise ToolError("Trace_Client gave up on %d of %d scenarios (too many compatible states): %s" %
                        (len(unjudged), len(names), unjudged[:5]))
    hits = {}
    other = {}
    tagged = 0
    for n in names:
        sc = by_name[n]
        mine = classify(pid, tags_of[n])
        if mine:
            tagged += 1
        for (_ln, prop, what, _x) in tags_of[n]:
            if prop not in (pid, "ABORT", "VALIDATOR", "INCONCLUSIVE"):
                other["%s.%s" % (prop, what)] = other.get("%s.%s" % (prop, what), 0) + 1
        for fid, key, text, ln in mine:
            trace = os.path.join(sdir, n + ".ndjson")
            if fid is not None:
                f = FINDINGS[fid]
                hits[fid] = hits.get(fid, 0) + 1
                verdict.disagree(fid, f["site"], f["scenario"],
                                 "%s %s: %s [first seen: %s in scenario %s, trace %s line %d]" % (pid, fid, f["what"], key, n, trace, ln),
                                 {"scenario": sc, "finding": fid, "tag": key, "trace": trace, "line": ln,
                                  "tags": [list(t) for t in tags_of[n]][:40]})
            else:
                verdict.disagree(key, "trace:" + sc.get("family", ""), (sc.get("covers") or ["-"])[0],
                                 "%s: %s in scenario %s (trace %s line %d) is not allowed by Client.tla / Trace_Client.tla" %
                                 (pid, text, n, trace, ln),
                                 {"scenario": sc, "tag": key, "trace": trace, "line": ln,
                                  "tags": [list(t) for t in tags_of[n]][:40]})
    nviol = verdict.finish()
    if replay:
        log("replay of %s: %s" % (replay, "still disagrees" if (nviol or verdict.known_hits) else "no disagreement"))
        return 1 if nviol else 0
    sigs = {}
    nontrivial = 0
    for n in names:
        sg, nt = signature(os.path.join(sdir, n + ".ndjson"))
        if nt:
            nontrivial += 1
            sigs[sg] = sigs.get(sg, 0) + 1
    fams = {}
    covers = {}
    for s in scens:
        fams[s.get("family", "")] = fams.get(s.get("family", ""), 0) + 1
        for c in s.get("covers", []):
            covers[c] = covers.get(c, 0) + 1
    sample_names = [n for n in names if classify(pid, tags_of[n])][:1] + names[:1]
    samples = []
    for n in sample_names[:2]:
        with open(os.path.join(sdir, n + ".ndjson")) as f:
            evs = [json.loads(x) for x in f.readlines()]
        samples.append({"direction": "spec->impl" if by_name[n].get("family") == "tlc" else "impl->spec",
                        "scenario": {"name": n, "steps": by_name[n]["steps"][:14]},
                        "trace_excerpt": [{k: v for k, v in e.items() if k in ("ev", "m", "t", "l", "ep", "cls", "res", "ts")}
                                          for e in evs if e["ev"] not in ("obs", "same", "start", "mode")][:14],
                        "tags": [list(t) for t in tags_of[n]][:8]})
    write_evidence(pid, tier, "model_checking", {
        "states": sum(r["distinct"] for r in stats["tlc"]),
        "transitions": sum(r["generated"] for r in stats["tlc"]),
        "traces_validated_against_impl": len(names),
        "evaluations": len(names),
        "distinct_nontrivial": len(sigs),
        "rule": rule,
        "exhaustive": False,
        "tlc_configs": stats["tlc"],
        "scenario_families": fams,
        "clauses_covered": covers,
        "scenarios_from_tlc_behaviours": fams.get("tlc", 0),
        "generator": stats["gen"],
        "nontrivial_scenarios": nontrivial,
        "impl_trace_lines_validated": lines,
        "scenarios_with_tags_of_this_property": tagged,
        "scenarios_not_judged_too_ambiguous": unjudged,
        "findings_hit": hits,
        "known_findings_hit": verdict.known_hits,
        "tags_of_other_properties": other,
        "scenario_run_wall_s": round(run_wall, 1),
        "trace_validation_wall_s": round(val_wall, 1),
        "samples": samples,
    }, ASSUMPTIONS, time.time() - t0, nviol)
    return 1 if nviol else 0


def tlc_scripts(tag, rng, wd, stats, n):
    beh = tlc_behaviours(os.path.join(wd, "gen"), max(60, 3 * n), 120, seed(), stats["gen"])
    pk = pick_behaviours(beh, n, rng)
    stats["gen"]["behaviours_turned_into_scripts"] = len(pk)
    return [script_of_behaviour("%s-tlc%d" % (tag, i), b) for i, b in enumerate(pk)]
