"""C10 (DESIGN.md section 6): concurrent requests and block events behave as if executed one at a time.

conc-rig (harness/src/conc.rs): two or three operations run on real OS threads over the real tower components; through the
instrumented Mutex hook (feature verif) a thread stops before every lock acquisition and node RPC, and a scheduler lets one
thread run at a time.  Every schedule within a preemption bound is executed (DFS from a checkpoint of the database file and
the node), plus random schedules.  Each execution yields one Conc event (operations with replies, chain events delivered,
node RPCs, state afterwards); Trace_Tower.tla accepts it iff some sequential order of the requests and of the chain event's
critical sections (gatekeeper, watcher, responder step per block), executed by Tower.tla's action operators, produces exactly
these replies and this state (Linearizable), plus slot conservation, three copies and no orphan records."""
import towerlib as T
import towercheck

PID = "C10"


def scenarios(rng, tier):
    return T.fam_conc(rng, tier)


RULE = ("a case = one schedule (sequence of thread choices at lock acquisitions / node RPCs) of one operation set; operation sets: "
        "add||add (same appointment, update), add||block-with-dispute (new, update), register||add, add||get, add||block-purging-the-user, "
        "get||block-purging, add||block-completing-a-tracker, register||block-completing, late-appointment||block-rebroadcasting, "
        "late-appointment||reorg, add||add||block, register||add||get; DFS over all schedules with <= 2 (thorough: 3) preemptions, "
        "capped per set, plus random schedules; all schedules are distinct")


def main(tier, replay=None):
    import mc_tower
    design = None if replay else mc_tower.design_stats("C01", tier)
    return towercheck.run(PID, tier, replay, scenarios, RULE, towercheck.COMMON_ASSUMPTIONS + [
        "scheduling points are the instrumented mutex acquisitions and node RPCs; atomics and values read when a handler starts "
        "(start block, expiry echoed by add_appointment) are compared leniently (DESIGN.md C10 Assumes)",
        "the chain event is linearized per listener call (gatekeeper / watcher / responder step of each block), requests may be ordered between them",
    ], design_stats=design, extra_tags=lambda t: t["event"]["act"] == "Conc" and t["prop"] in ("C07",))
