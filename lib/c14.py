"""C14 - the client trusts a tower only on valid signatures and survives any reply (DESIGN.md section 6).
Specification spec/Client.tla (RegRecorded via RegApply, BadSig, Misbehaving, Survives), real watchtower-client binary,
traces judged by spec/Trace_Client.tla."""
import clientlib as L

PID = "C14"


def scenarios(rng, tier, wd, stats):
    q = tier == "quick"
    sc = L.regression_scripts()
    sc += L.fam_register("c14")
    muts = L.MUTATIONS_ADD
    if q:
        sc += L.fam_mutations("c14", muts[::2], ("notify",)) + L.fam_mutations("c14", muts[1::2], ("retry",))
    else:
        sc += L.fam_mutations("c14", muts)
    np_ = L.fam_notify_path("c14", ["badsig", "malsig", "garbage", "broken"])
    rp = L.fam_retry_path("c14", ["badsig", "malsig", "garbage", "broken"])
    if q:
        keep = lambda s: not any(("garbage%d" % i) in s["name"] or ("malsig%d" % i) in s["name"] for i in range(2, 10))
        np_ = [s for s in np_ if keep(s)]
        rp = [s for s in rp if keep(s)]
    sc += np_ + rp
    sc += [s for s in L.fam_retrier_states("c14") if "misb" in s["name"]] + L.fam_misbehaving_late("c14") + L.fam_restart("c14")
    sc += L.tlc_scripts("c14", rng, wd, stats, 10 if q else 150)
    sc += L.fam_random("c14", rng, 8 if q else 250)
    return sc


RULE = ("families: 12 kinds of answers to register (valid, bad / malformed signature, same expiry, same slots, lower, "
        "garbage, error object, wrong types, missing signature) as first registration, as renewal by the user and as "
        "renewal by the retrier; 32 structured mutations of valid add_appointment answers and raw bodies (missing / "
        "mistyped / out-of-range fields, other start block, truncated signature, error objects with wrong types, non-JSON, "
        "BOM, NUL bytes, deep nesting, huge, empty, HTML) on the notification path and on the retry path, each followed by "
        "a liveness probe (listtowers, gettowerinfo, next notification); bad and malformed signatures on both paths; a "
        "misbehaving tower is never sent to again and keeps its status whatever is reported about it later (answers to "
        "requests that were in flight when it was caught, a refused registertower, a manual retry, a restart); TLC -simulate behaviours of MC_ClientGen as scripts; seeded random "
        "fault sequences; regression scripts. non-trivial / distinct as for C05")


def main(tier, replay=None):
    return L.run_check(PID, tier, replay, scenarios, RULE)
