"""Shared machinery of /verif/check (python3, stdlib only).

Exit codes of a check: 0 nothing unexplained, 1 at least one VIOLATION line, 2 tool error / timeout.
"""
import json
import os
import re
import shutil
import subprocess
import sys
import time

VERIF = os.path.dirname(os.path.dirname(os.path.abspath(__file__)))
SPEC = os.environ.get("VERIF_SPEC_DIR", os.path.join(VERIF, "spec"))
HARNESS = os.path.join(VERIF, "harness")
WORK = os.path.join(VERIF, "work")
EVID = os.path.join(VERIF, "evidence")
REPLAYS = os.path.join(WORK, "replays")
BIN = os.path.join(HARNESS, "target", "verif")
REPO = "/repo"


class ToolError(Exception):
    pass


def log(*a):
    print(*a, file=sys.stderr, flush=True)


def seed():
    try:
        return int(os.environ.get("VERIF_SEED", "1"))
    except ValueError:
        return 1


def workdir(pid):
    d = os.path.join(WORK, pid)
    shutil.rmtree(d, ignore_errors=True)
    os.makedirs(d, exist_ok=True)
    os.makedirs(REPLAYS, exist_ok=True)
    for f in os.listdir(REPLAYS):
        if f.startswith(pid + "-"):
            os.remove(os.path.join(REPLAYS, f))
    return d


def cargo_env():
    env = dict(os.environ)
    env["CARGO_NET_OFFLINE"] = "true"
    # never let a stray RUSTFLAGS change the semantics of the build under test
    env.pop("RUSTFLAGS", None)
    return env


def build(bins, timeout=3000):
    """(Re)builds harness binaries against /repo's current working tree (path dependencies, feature verif)."""
    t0 = time.time()
    lock = os.path.join(HARNESS, "Cargo.lock")
    if not os.path.exists(lock):
        shutil.copy(os.path.join(REPO, "Cargo.lock"), lock)
    cmd = ["cargo", "build", "--offline", "--profile", "verif"]
    for b in bins:
        cmd += ["--bin", b]
    p = subprocess.run(cmd, cwd=HARNESS, env=cargo_env(), stdout=subprocess.PIPE, stderr=subprocess.STDOUT,
                       text=True, timeout=timeout)
    if p.returncode != 0:
        log(p.stdout[-6000:])
        raise ToolError("cargo build of the harness failed (the tree under test does not compile with the hooks on?)")
    return time.time() - t0


def build_repo_bin(package, binname, features="verif", timeout=3000):
    """Builds a product binary of /repo (with hooks) into the harness target dir; returns its path."""
    tdir = os.path.join(HARNESS, "target", "product")
    cmd = ["cargo", "build", "--offline", "--manifest-path", os.path.join(REPO, "Cargo.toml"), "-p", package,
           "--bin", binname, "--target-dir", tdir]
    if features:
        cmd += ["--features", features]
    p = subprocess.run(cmd, cwd=REPO, env=cargo_env(), stdout=subprocess.PIPE, stderr=subprocess.STDOUT, text=True,
                       timeout=timeout)
    if p.returncode != 0:
        log(p.stdout[-6000:])
        raise ToolError("cargo build of %s failed" % binname)
    return os.path.join(tdir, "debug", binname)


def run(cmd, timeout=3600, cwd=None, env=None, check=True, stdin=None):
    p = subprocess.run(cmd, cwd=cwd, env=env, stdout=subprocess.PIPE, stderr=subprocess.PIPE, text=True,
                       timeout=timeout, input=stdin)
    if check and p.returncode != 0:
        log(p.stdout[-3000:])
        log(p.stderr[-3000:])
        raise ToolError("command failed (%d): %s" % (p.returncode, " ".join(cmd)))
    return p


TLC_STATES = re.compile(r"(\d+) states generated, (\d+) distinct states found, (\d+) states left on queue")
TLC_DEPTH = re.compile(r"The depth of the complete state graph search is (\d+)")


class TlcResult:
    def __init__(self):
        self.generated = 0
        self.distinct = 0
        self.depth = 0
        self.ok = False
        self.violated = None      # name of the violated invariant / property, if any
        self.out = ""
        self.wall = 0.0
        self.printed = []          # values printed with PrintT (raw lines starting with <<)
        self.coverage = {}


def tlc(module, cfg, workdir_, workers=4, consts=None, env_extra=None, timeout=1800, simulate=None, heap=None,
        deque=False, coverage=False, want_lines=None):
    """Runs TLC on spec/<module>.tla with spec/<cfg> (or a generated cfg when consts is given).

    consts: dict name -> TLA+ constant expression text; the cfg file is copied with its CONSTANTS block rewritten.
    want_lines: optional callable(line) called for every output line (streaming; output is not kept when given).
    """
    os.makedirs(workdir_, exist_ok=True)
    cfg_path = os.path.join(SPEC, cfg)
    if consts is not None:
        text = open(cfg_path).read()
        lines = text.splitlines()
        out = []
        in_consts = False
        for ln in lines:
            s = ln.strip()
            if s.startswith("CONSTANTS") or s.startswith("CONSTANT"):
                in_consts = True
                out.append("CONSTANTS")
                for k, v in consts.items():
                    out.append("  %s = %s" % (k, v))
                continue
            if in_consts:
                if s == "" or re.match(r"^\w+\s*(=|<-)", s):
                    continue
                in_consts = False
            out.append(ln)
        cfg_path = os.path.join(workdir_, "%s_%d.cfg" % (os.path.splitext(cfg)[0], int(time.time() * 1000) % 100000000))
        open(cfg_path, "w").write("\n".join(out) + "\n")
    meta = os.path.join(workdir_, "tlcmeta_%d_%d" % (os.getpid(), int(time.time() * 1000) % 100000000))
    cmd = ["tlc", "-workers", str(workers), "-metadir", meta, "-cleanup", "-noGenerateSpecTE"]
    if coverage:
        cmd += ["-coverage", "1"]
    if simulate:
        cmd += ["-simulate", simulate]
    cmd += ["-config", cfg_path, os.path.join(SPEC, module + ".tla")]
    env = dict(os.environ)
    jto = "-Xss1g"
    if heap:
        jto += " -Xmx%s" % heap
    if deque:
        jto += " -Dtlc2.tool.queue.IStateQueue=StateDeque"
    env["JAVA_TOOL_OPTIONS"] = jto
    if env_extra:
        env.update(env_extra)
    res = TlcResult()
    t0 = time.time()
    proc = subprocess.Popen(cmd, cwd=SPEC, env=env, stdout=subprocess.PIPE, stderr=subprocess.STDOUT, text=True)
    keep = []
    try:
        deadline = t0 + timeout
        for line in proc.stdout:
            if want_lines is not None and line.startswith("<<"):
                want_lines(line)
            else:
                if line.startswith("<<"):
                    res.printed.append(line.rstrip("\n"))
                else:
                    keep.append(line)
            if time.time() > deadline:
                proc.kill()
                raise ToolError("TLC timeout on %s/%s" % (module, cfg))
        proc.wait()
    finally:
        if proc.poll() is None:
            proc.kill()
        shutil.rmtree(meta, ignore_errors=True)
    res.wall = time.time() - t0
    res.out = "".join(keep)
    m = None
    for m in TLC_STATES.finditer(res.out):
        pass
    if m:
        res.generated, res.distinct = int(m.group(1)), int(m.group(2))
    m = TLC_DEPTH.search(res.out)
    if m:
        res.depth = int(m.group(1))
    if "Model checking completed. No error has been found." in res.out or (simulate and proc.returncode == 0):
        res.ok = True
    else:
        m = re.search(r"Error: Invariant (\S+) is violated", res.out)
        if m:
            res.violated = m.group(1)
        else:
            m = re.search(r"Error: (Action property|Temporal properties|Postcondition|Deadlock)[^\n]*", res.out)
            if m:
                res.violated = m.group(0)
    if not res.ok and res.violated is None and not simulate:
        log(res.out[-4000:])
        raise ToolError("TLC failed on %s/%s" % (module, cfg))
    if coverage:
        for m in re.finditer(r"<(\w+) line \d+, col \d+ to line \d+, col \d+ of module (\w+)>: (\d+):(\d+)", res.out):
            res.coverage[m.group(1)] = res.coverage.get(m.group(1), 0) + int(m.group(4))
    return res


def unwrap_print(line):
    """<<"TAG", ..., "json">> printed by PrintT -> (tag, python value of the last JSON string element)."""
    m = re.match(r'^<<"([A-Z\-]+)",\s*(.*)>>\s*$', line.strip(), re.S)
    if not m:
        return None, None
    tag, rest = m.group(1), m.group(2)
    # the last element is a TLA+ string holding JSON; TLA+ escapes \" and \\
    i = rest.find('"')
    if i < 0:
        return tag, None
    js = rest[i + 1: rest.rfind('"')]
    js = js.replace('\\"', '"').replace("\\\\", "\\")
    head = rest[:i].strip().rstrip(",").strip()
    try:
        return tag, (head, json.loads(js))
    except json.JSONDecodeError:
        return tag, (head, None)


def validate_trace(module, cfg, trace_path, workdir_, timeout=1800, heap="4g"):
    """Runs a Trace_* spec on an ndjson trace. Returns (tags, lines_consumed, tlc_result).

    tags: list of [line, property, what] printed by the 'end' event.
    """
    with open(trace_path) as f:
        nlines = sum(1 for _ in f)
    r = tlc(module, cfg, workdir_, workers=1, env_extra={"TRACE": trace_path}, timeout=timeout, deque=True, heap=heap)
    tags = None
    consumed = 0
    for ln in r.printed:
        tag, val = unwrap_print(ln)
        if tag == "TRACE-END" and val is not None:
            consumed = int(val[0])
            tags = val[1]
    # consumed is the value of l when the end event (the last line) is taken: it equals nlines
    if not r.ok or tags is None or consumed != nlines:
        log(r.out[-3000:])
        raise ToolError("trace %s was not consumed to its end by %s (consumed=%s of %d lines, ok=%s)" %
                        (trace_path, module, consumed, nlines, r.ok))
    return tags, consumed, r


# ---------------------------------------------------------------------------------------------------
# known findings

def load_findings():
    p = os.path.join(VERIF, "known_findings.json")
    if not os.path.exists(p):
        return []
    return json.load(open(p))["findings"]


class Verdict:
    """Collects disagreements of one check run and classifies them against known_findings.json."""

    def __init__(self, pid):
        self.pid = pid
        self.findings = [f for f in load_findings() if f["property"] == pid]
        self.known_hits = {}      # finding id -> count
        self.violations = []      # (key, description, replay data)
        self.seen_keys = set()

    def disagree(self, tag, site, scenario, what, replay):
        """tag/site/scenario identify the failing thing; what is human text; replay is JSON-able data."""
        for f in self.findings:
            if f["status"] == "known" and f["tag"] == tag and f.get("site", site) == site and \
                    f.get("scenario", scenario) == scenario:
                self.known_hits[f["id"]] = self.known_hits.get(f["id"], 0) + 1
                if self.known_hits[f["id"]] == 1:
                    json.dump({"property": self.pid, "finding": f["id"], "what": what, "replay": replay},
                              open(os.path.join(REPLAYS, "%s-known-%s.json" % (self.pid, f["id"])), "w"), indent=1)
                return "known"
        key = (tag, site, scenario)
        if key not in self.seen_keys:
            self.seen_keys.add(key)
            self.violations.append((key, what, replay))
        return "violation"

    def finish(self):
        for f in self.findings:
            if f["id"] in self.known_hits:
                print("KNOWN-FINDING: property=%s %s [%s, %d occurrences]" % (self.pid, f["what"], f["id"],
                                                                             self.known_hits[f["id"]]), flush=True)
        n = 0
        for key, what, replay in self.violations:
            n += 1
            path = os.path.join(REPLAYS, "%s-%d.json" % (self.pid, n))
            json.dump({"property": self.pid, "key": list(key), "what": what, "replay": replay}, open(path, "w"), indent=1)
            log("violation: %s" % what)
            print("VIOLATION property=%s replay=%s" % (self.pid, path), flush=True)
        return len(self.violations)


def write_evidence(pid, tier, level, coverage, assumptions, wall, violations):
    os.makedirs(EVID, exist_ok=True)
    ev = {
        "property_id": pid,
        "tier": tier,
        "seed": seed(),
        "level": level,
        "coverage": coverage,
        "assumptions": assumptions,
        "wall_s": round(wall, 2),
        "violations": violations,
    }
    json.dump(ev, open(os.path.join(EVID, pid + ".json"), "w"), indent=1)
