"""C04 (DESIGN.md section 6): tower campaign judged by Trace_Tower.tla / TowerProps.tla."""
import towerlib as T
import towercheck

PID = "C04"


def scenarios(rng, tier):
    sc = T.fam_reorg(rng) + T.fam_completion(rng) + T.fam_midreorg(rng) + T.fam_reorg_multi(rng)
    sc += T.fam_random(rng, 10 if tier == "quick" else 120)
    if tier == "thorough":
        sc += T.fam_reorg(rng, deep=True)
        for _ in range(3):
            sc += T.fam_completion(rng)
    return sc


RULE = 'reorg families: depth in {1,2,3,7} (thorough: 20, 100) x position of the reorg relative to the confirming block (tip / buried / above) x replacement chain (re-confirm at once / same block as dispute / later / never / conflicting penalty / dispute gone); completion: walk to 99/100/101 confirmations, never-confirming penalty (rebroadcast cadence), rejection; random'


def main(tier, replay=None):
    import mc_tower
    design = None if replay else mc_tower.design_stats(PID, tier)
    # "forgotten and its slots refunded when, and only when ...": the refund at the Responder's step belongs to this property too
    return towercheck.run(PID, tier, replay, scenarios, RULE, towercheck.COMMON_ASSUMPTIONS, design_stats=design,
                          extra_tags=lambda t: t["event"]["act"] == "RConnect" and t["prop"] == "C07")
