"""C03 (DESIGN.md section 6): crash at any instant + restart loses no acknowledged work.

Fault enumeration: for every history of the corpus the rig first counts the crash points (immediately before / after every
durable write - hook `crashpoint` in teos-common/src/dbm.rs and teos/src/dbm.rs - and before / after every node RPC), then
re-runs the history once per chosen point k with that point armed: the code unwinds there, every in-memory object is dropped,
the same SQLite file is reopened, the tower is booted (mirror of main.rs), polls to the tip, and the rest of the history
continues.  Trace_Tower.tla judges the crash state (between pre and post of the interrupted action, no dangling rows, no
slots granted), the restart (no durable change, same tower id, volatile state rebuilt) and, for crashes inside chain
processing, equality of the final durable state with the uninterrupted run (RefFinal)."""
import copy
import json
import os
import random
import subprocess
import time

import towerlib as T
from towerlib import (CFG_A, CFG_B, CFG_F, CFG_L, D, P, POLL, add, ff, garbled, get, mine, reg, scen, sub, valid)
from common import BIN, ToolError, Verdict, build, log, seed, workdir, write_evidence
import mc_tower

PID = "C03"


def base_scenarios(rng, tier):
    out = []
    # breach handling with every outcome, two users, a purge-free configuration
    ops = [reg(1), reg(2), add(1, 1, valid(1, 1)), add(2, 1, valid(1, 2)), add(1, 2, garbled(300)), add(2, 3, valid(3, 3)),
           add(1, 4, valid(4, 1)), {"op": "reject", "tx": P(4, 1), "code": -26}, add(1, 1, valid(1, 6)),
           mine([D(1), D(2)]), mine([D(3), D(4), P(1, 6)]), add(2, 4, valid(4, 2)), mine([P(3, 3)]), ff(2, "each"), sub(1), sub(2)]
    out.append(scen("crash-breach", CFG_A, ops))
    # late appointment (trigger in cache) accepted / rejected / invalid
    ops = [reg(1), mine([D(1), D(2), D(3)]), {"op": "reject", "tx": P(2, 1), "code": -25}, add(1, 1, valid(1, 1)), add(1, 2, valid(2, 1)),
           add(1, 3, garbled(2049)), mine([P(1, 1)]), sub(1)]
    out.append(scen("crash-late", CFG_A, ops))
    # reorg: re-announce, conflicting penalty, rejection
    ops = [reg(1), reg(2), add(1, 1, valid(1, 1)), add(2, 1, valid(1, 2)), mine([D(1)]), mine([P(1, 1)]),
           {"op": "reorg", "depth": 2, "blocks": [[D(1)], [P(1, 2)], []], "to_mempool": False}, POLL, ff(7, "each"), sub(1), sub(2)]
    out.append(scen("crash-reorg", CFG_A, ops))
    # completion with refunds (several trackers, two users) and a backlog of blocks in one poll
    ops = [reg(1), reg(2), add(1, 1, valid(1, 1)), add(1, 2, valid(2, 3)), add(2, 1, valid(1, 1)), mine([D(1), D(2)]),
           mine([P(1, 1), P(2, 3)]), ff(96, "end"), ff(5, "end"), sub(1), sub(2)]
    out.append(scen("crash-completion", CFG_L, ops))
    # a single tracker completing in its block (the refund takes another path than a batch), then another one
    ops = [reg(1), add(1, 1, valid(1, 3)), add(1, 2, valid(2, 1)), mine([D(1)]), mine([P(1, 3)]), mine([D(2)]), mine([P(2, 1)]), ff(97, "end"),
           ff(2, "each"), sub(1), ff(3, "each"), sub(1)]
    out.append(scen("crash-completion-single", CFG_L, ops))
    # expiry / purge with appointments and trackers, renewal
    ops = [reg(1), reg(2), add(1, 1, valid(1)), add(2, 1, valid(1, 2)), add(2, 2, valid(2)), mine([D(1)]), reg(1), ff(4, "each"),
           add(1, 3, valid(3)), ff(4, "end"), sub(1), sub(2)]
    out.append(scen("crash-expiry", CFG_B, ops))
    # registrations, updates, slot exhaustion
    ops = [reg(1), add(1, 1, garbled(2049)), add(1, 1, garbled(10)), add(1, 2, valid(2, 5)), reg(1), add(1, 2, valid(2, 1)), sub(1),
           mine([D(2)]), sub(1)]
    out.append(scen("crash-slots", CFG_F, ops))
    # the penalty is mined while the tower is down: the replayed dispute block is answered with "already in chain"
    ops = [reg(1), reg(2), add(1, 1, valid(1, 1)), add(2, 1, valid(1, 1)), add(1, 2, valid(2, 1)), mine([D(1), D(2)]), get(1, 1), ff(2, "each"), get(1, 1), get(2, 1),
           get(1, 2), sub(1)]
    sc = scen("crash-minedwhiledown", CFG_A, ops)
    sc["while_down"] = [mine([P(1, 1)], poll=False), mine([], poll=False)]
    out.append(sc)
    if tier == "thorough":
        for k in range(6):
            sc = T.fam_random(rng, 1, cfgs=(CFG_A, CFG_F), length=40)[0]
            # scripted one-shot verdicts are not reproducible across a re-processing: use persistent policy instead
            sc["ops"] = sc["ops"][:2] + [o for o in sc["ops"][2:] if o.get("op") not in ("verdict", "crash", "boot")]
            sc["name"] = "crash-random-%d" % k
            out.append(sc)
    return out


def restart_scenarios():
    """Crash between actions combined with a failed block download in the same poll (the tip is persisted although the
    listeners were not given every block)."""
    out = []
    for where in (1, 2):
        for transient in (True, False):
            base = [reg(1), add(1, 1, valid(1, 1)), add(1, 2, valid(2, 1)), mine([], poll=False),
                    mine([D(1)], poll=False), mine([D(2)], poll=False),
                    {"op": "fault", "kind": "block", "offset": where, "times": 1, "transient": transient}, POLL]
            tail = [POLL, get(1, 1), get(1, 2), sub(1)]
            out.append((scen("restart-after-partial-poll-%d-%s" % (where, "t" if transient else "p"), CFG_A, base + tail),
                        scen("restart-after-partial-poll-%d-%s" % (where, "t" if transient else "p"), CFG_A, base + [{"op": "restart"}] + tail)))
    return out


def main(tier, replay=None):
    t0 = time.time()
    wd = workdir(PID)
    build(["tower_rig"])
    rng = random.Random(seed() * 104729 + 3)
    verdict = Verdict(PID)
    camp = T.Campaign(wd)
    stats = {"histories": 0, "crash_points_total": 0, "crash_points_run": 0, "labels": {}}
    refs = {}   # variant name -> its uninterrupted reference scenario
    if replay:
        rp = json.load(open(replay))["replay"]
        scs = rp["scenarios"]
        camp.run(scs, "replay")
    else:
        design = mc_tower.design_stats(PID, tier)
        bases = base_scenarios(rng, tier)
        # 1. reference runs: count the crash points of every history
        script = os.path.join(wd, "count.json")
        json.dump({"cfg": CFG_A, "scenarios": bases}, open(script, "w"))
        p = subprocess.run([os.path.join(BIN, "tower_rig"), "run", script, os.path.join(wd, "count.ndjson"), os.path.join(wd, "db_count")],
                           stdout=subprocess.PIPE, stderr=subprocess.PIPE, text=True, timeout=3600)
        if p.returncode != 0:
            raise ToolError("tower_rig failed while counting crash points: " + p.stderr[-2000:])
        info = json.loads(p.stdout.strip().splitlines()[-1])
        # 2. one variant per chosen crash point, grouped with its reference
        for b, ps in zip(bases, info["per_scenario"]):
            n = ps["points"]
            stats["histories"] += 1
            stats["crash_points_total"] += n
            for lb in ps["labels"]:
                stats["labels"][lb] = stats["labels"].get(lb, 0) + 1
            if tier == "quick":
                want = 14
                # always: the points around explicit transactions (and the writes next to them), then a spread over the history
                hot = [i for i, lb in enumerate(ps["labels"]) if lb.startswith("batch_")]
                near = [j for i in hot for j in range(i - 1, i + 4) if 0 <= j < n]
                ks = sorted(set([0, n - 1] + near + [int(i * n / want) for i in range(want)] + [rng.randrange(n) for _ in range(4)])) if n else []
            else:
                ks = list(range(n))
            group = [b]
            for k in ks:
                v = copy.deepcopy(b)
                v["name"] = "%s@%d" % (b["name"], k)
                v["crash_at"] = k
                if "while_down" not in b:
                    v["ref"] = 0      # same history: the final state must equal the uninterrupted run's
                refs[v["name"]] = b
                group.append(v)
            stats["crash_points_run"] += len(ks)
            # a reference and its variants must share a trace (shard size >= group size): run group by group
            for i in range(0, len(group) - 1, 39):
                camp.run([group[0]] + group[1 + i:1 + i + 39], b["name"].replace("-", "_") + "_%d" % (i // 39))
        for ref, var in restart_scenarios():
            var["ref"] = 0
            var["name"] += "+restart"
            refs[var["name"]] = ref
            camp.run([ref, var], var["name"].replace("-", "_").replace("+", "_"))
            stats["histories"] += 1
        # 3. spec -> implementation: behaviours of MC_Tower with restarts between the actions (TLC -simulate), executed on the
        # real tower; what follows a restart is judged like what follows a crash
        mcs, mcstats = mc_tower.replay_scenarios(PID, tier, seed(), n_quick=24, n_thorough=300)
        for sc in mcs:
            sc["name"] = sc["name"] + "@mc"
        if mcs:
            camp.run(mcs, "mcreplay")
        stats["mc_tower_replay"] = mcstats
    for t in camp.tags:
        if t["prop"] != PID and t.get("after_crash") and t["prop"] in ("C01", "C02", "C04", "C07", "C09") and "@" in t["scenario"]["name"]:
            # after the restart every block not finished before the crash is answered exactly as the specification says
            t = dict(t, what="after_restart." + t["prop"] + "." + t["what"])
        elif t["prop"] == "C07" and t["what"] in ("copies_differ", "conf.users") and t["event"]["act"] in ("RConnect", "GkConnect", "WConnect"):
            # what the tower holds in memory was not made durable: the next restart loses it
            t = dict(t, what="not_durable." + t["what"])
        elif t["prop"] != PID:
            continue
        ev = t["event"]
        sname = t["scenario"]["name"]
        what = t["what"]
        if what.startswith("catchup") and sname.startswith("restart-after-partial-poll"):
            tag, site, sclass = "catchup", "chain_monitor.rs::poll_best_tip", "restart-after-partial-poll"
        elif what == "crash.grants_slots" and ev["act"] == "Add" and t["prev"] is not None and any(
                a[0] == ev["who"] and a[1] == ev["l"] and (a[4] + 2047) // 2048 > (ev["size"] + 2047) // 2048
                for a in t["prev"].get("post", {}).get("appts", [])):
            # the interrupted request replaces a held appointment by a smaller one
            tag, site, sclass = what, "Add", "shrinking-update"
        else:
            tag, site, sclass = what, ev["act"], sname.split("@")[0]
        # the replay needs the reference scenario too
        verdict.disagree(tag, site, sclass, "C03: %s at %s (scenario %s, trace %s line %d)" % (what, ev["act"], sname, t["trace"], t["line"]),
                         {"scenarios": ([refs[sname]] if sname in refs else []) + [t["scenario"]], "tag": [t["line"], t["prop"], what],
                          "event": ev})
    e2e_stats = {}
    if not replay:
        # the real teosd binary killed (SIGKILL) and restarted on its data directory: the bootstrap of main.rs itself
        import e2e
        # after a restart every tag of the response / accounting properties is this property's ("answered exactly as in an
        # uninterrupted run")
        for t in e2e.run(PID, tier, also=lambda x: x.get("after_crash") and x["prop"] in ("C01", "C02", "C04", "C07", "C09")):
            if t["prop"] != PID:
                t = dict(t, what="after_restart.%s.%s" % (t["prop"], t["what"]))
            verdict.disagree(t["what"], t["event"]["act"], "e2e-" + t["scenario"]["name"].split("-")[0],
                             "C03 (teosd binary): %s at %s (scenario %s, trace %s line %d)" % (t["what"], t["event"]["act"], t["scenario"]["name"], t["trace"], t["line"]),
                             {"scenarios": [t["scenario"]], "tag": [t["line"], t["prop"], t["what"]], "event": t["event"], "tier": "e2e"})
        e2e_stats = e2e.last_stats
    nviol = verdict.finish()
    if replay:
        return 1 if nviol else 0
    write_evidence(PID, tier, "fault_enumeration", {
        "end_to_end_teosd_binary": e2e_stats,
        "evaluations": camp.scenarios,
        "distinct_nontrivial": stats["crash_points_run"],
        "rule": "a case = (history, crash point k): the k-th instant immediately before/after a durable write or node RPC of that history; "
                "each is distinct by construction and non-trivial (the code unwinds at k, the tower is restarted on the same SQLite "
                "file and catches up); quick: ~20 points per history spread over its length, thorough: every point; plus restarts "
                "after a poll whose block download failed",
        "exhaustive": tier == "thorough",
        "histories": stats["histories"],
        "crash_points_in_histories": stats["crash_points_total"],
        "crash_points_exercised": stats["crash_points_run"],
        "crash_point_labels": stats["labels"],
        "mc_tower_behaviours_with_restarts_replayed": stats.get("mc_tower_replay"),
        "impl_events_validated": camp.events,
        "events_by_action": camp.acts,
        "behaviour_observed_in_validated_traces": camp.happened,
        "design_level": design,
        "known_findings_hit": verdict.known_hits,
        "samples": [{"history": "crash-breach", "variant": "crash-breach@k: same ops with crash_at=k; then Crash, Boot, Poll events and the rest of the history"}] + camp.samples[:1],
    }, T and [
        "an in-process unwind at a crash point followed by dropping every object and reopening the SQLite file leaves what a process kill leaves (rusqlite rolls back an open transaction on drop; statements are atomic)",
        "tower_rig's boot mirrors main.rs",
    ], time.time() - t0, nviol)
    return 1 if nviol else 0
