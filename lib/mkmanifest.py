#!/usr/bin/env python3
"""Regenerates /verif/MANIFEST.json from the table below (single source of truth for the interface)."""
import json
import os
import subprocess

VERIF = os.path.dirname(os.path.dirname(os.path.abspath(__file__)))

# id -> (category, technique, level text, level note, design ref)
CHECKS = {
    "C19": ("model_checking",
            "TLA+ reference model (TxIndex.tla) checked by TLC; every TLC behaviour replayed on the real TxIndex; random "
            "implementation traces validated by Trace_TxIndex.tla",
            "Exhaustive within the bound in both directions: TLC enumerates every connect/disconnect behaviour of the reference "
            "model for N in 1..3 (thorough: ..4) and small key universes, each behaviour is replayed on both real instantiations "
            "and every get/get_height observation compared with the specification's; random traces at the production sizes "
            "6 and 100 are validated by TLC against the same model.",
            "Reorg depth <= index size; a key is confirmed in at most one block of the active chain; txindex_rig's mapping of "
            "model ids/keys to real blocks/transactions.",
            "DESIGN.md section 6 C19"),
}

NOT_YET = {
}

NOT_APPLICABLE = {
    "C17": "universally quantified statement about four pure cryptographic functions over byte strings (AEAD round trip / "
           "tamper rejection, recoverable ECDSA): a TLA+ specification can only assume it as an axiom, TLC has no state or "
           "history to explore and conformance has nothing to bind (DESIGN.md section 7)",
}


def main():
    props = [json.loads(l) for l in open(os.path.join(VERIF, "properties.jsonl"))]
    commits = subprocess.check_output(
        ["git", "-C", "/repo", "log", "--format=%h %s", "d4e0fad..HEAD"], text=True).strip().splitlines()
    hook_commits = [c.split()[0] for c in commits if c.split(" ", 1)[1].startswith("verif hooks")]
    checks = []
    na = []
    for p in props:
        pid = p["id"]
        if pid in CHECKS:
            cat, tech, text, note, ref = CHECKS[pid]
            checks.append({
                "property_id": pid,
                "quick_cmd": "./check %s --tier quick" % pid,
                "thorough_cmd": "./check %s --tier thorough" % pid,
                "evidence_file": "evidence/%s.json" % pid,
                "replay_cmd_template": "./check %s --replay {path}" % pid,
                "engine": "tlc+harness",
                "level_claimed": {"category": cat, "text": text, "design_ref": ref},
                "level_note": note,
                "technique": tech,
            })
        elif pid in NOT_APPLICABLE:
            na.append({"property_id": pid, "reason": NOT_APPLICABLE[pid]})
        else:
            na.append({"property_id": pid, "reason": NOT_YET.get(pid, "not claimed yet: its specification / harness is "
                                                                  "still being built (see DESIGN.md section 11 for the order)")})
    m = {
        "version": 1,
        "setup_cmd": "./setup.sh",
        "hooks": {
            "guard": "cargo feature `verif` (crates teos, teos-common, watchtower-plugin); off by default",
            "enable": "harness/Cargo.toml depends on /repo/{teos,teos-common,watchtower-plugin} by path with "
                      "features=[\"verif\"]; product binaries are built with --features verif",
            "baseline_off_cmd": "cd /repo && cargo test --workspace --no-fail-fast --offline",
            "source_commits": hook_commits,
            "add_only": True,
        },
        "engines": [
            {"name": "tlc", "path": "spec/", "serves_properties": sorted(CHECKS),
             "kind_free_text": "explicit TLA+ specifications model-checked with TLC; Trace_*.tla validate implementation traces; "
                               "MC_* emit behaviours for replay"},
            {"name": "harness", "path": "harness/", "serves_properties": sorted(CHECKS),
             "kind_free_text": "Rust rigs driving the real code (path deps on /repo, feature verif): replay TLC behaviours, "
                               "record ndjson traces"},
        ],
        "checks": checks,
        "not_applicable": na,
        "notes": "./check <ID> [--tier quick|thorough] [--replay PATH]; exit 0 held / 1 VIOLATION / 2 tool error. "
                 "known_findings.json lists confirmed defects (known / fixed). See DESIGN.md.",
    }
    json.dump(m, open(os.path.join(VERIF, "MANIFEST.json"), "w"), indent=1)
    print("MANIFEST.json: %d checks, %d not claimed" % (len(checks), len(na)))


if __name__ == "__main__":
    main()
