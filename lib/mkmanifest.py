#!/usr/bin/env python3
"""Regenerates /verif/MANIFEST.json from the table below (single source of truth for the interface)."""
import json
import os
import subprocess

VERIF = os.path.dirname(os.path.dirname(os.path.abspath(__file__)))

# id -> (category, technique, level text, level note, design ref)
CHECKS = {
    "C19": ("model_checking",
            "TLA+ reference model (TxIndex.tla) checked by TLC; every TLC behaviour replayed on the real TxIndex; random "
            "implementation traces validated by Trace_TxIndex.tla",
            "Exhaustive within the bound in both directions: TLC enumerates every connect/disconnect behaviour of the reference "
            "model for N in 1..3 (thorough: ..4) and small key universes, each behaviour is replayed on both real instantiations "
            "and every get/get_height observation compared with the specification's; random traces at the production sizes "
            "6 and 100 are validated by TLC against the same model.",
            "Reorg depth <= index size; a key is confirmed in at most one block of the active chain; txindex_rig's mapping of "
            "model ids/keys to real blocks/transactions.",
            "DESIGN.md section 6 C19"),
}

TOWER_NOTE = "tower_rig mirrors main.rs' wiring (listener order, cache 6 / index 100); SimNode semantics (Appendix C) generate histories, RPC verdicts are inputs to validation; integers for users/transactions, no locator collisions, C17 assumed; design-level bounds: 1-2 users, 1-2 disputes, CACHE_N=2, IDX_N=IRR=3, RETRY_N=2 (MC_Tower configs in lib/mc_tower.py); C01 C02 C03 C04 C07 C08 C09 C12 also run their main.rs-sensitive scenarios on the REAL teosd binary against the simulated node over HTTP JSON-RPC (end-to-end tier, judged at block granularity by the same specification)"
TOWER_TECH = 'TLA+ specification of the tower (Tower.tla) model-checked with TLC against property monitors (TowerProps.tla, MC_Tower.tla); implementation traces of the real Watcher/Responder/Gatekeeper/Carrier/ChainMonitor/InternalAPI validated step by step by Trace_Tower.tla (same monitors + allowed-successor check)'
CHECKS.update({
    "C01": ("model_checking", TOWER_TECH, 'Model checking: TLC explores every environment behaviour (requests, blocks, reorgs, free node verdicts) of the bounded MC_Tower configs and evaluates the C01 (breach answered / dropped) monitors on every step. Conformance: hundreds of targeted and seeded random histories are executed on the real tower components over SQLite and a simulated bitcoind; every observed step is checked by TLC against the same monitors and against the successor Tower.tla allows (per-component comparison of users/appointments/trackers/heights/RPCs), so a code change breaking the property shows up as a rejected step.', TOWER_NOTE, "DESIGN.md section 6 C01"),
    "C02": ("model_checking", TOWER_TECH, 'Model checking: TLC explores every environment behaviour (requests, blocks, reorgs, free node verdicts) of the bounded MC_Tower configs and evaluates the C02 (justified submissions, trackers only for penalties the node has) monitors on every step. Conformance: hundreds of targeted and seeded random histories are executed on the real tower components over SQLite and a simulated bitcoind; every observed step is checked by TLC against the same monitors and against the successor Tower.tla allows (per-component comparison of users/appointments/trackers/heights/RPCs), so a code change breaking the property shows up as a rejected step.', TOWER_NOTE, "DESIGN.md section 6 C02"),
    "C04": ("model_checking", TOWER_TECH, 'Model checking: TLC explores every environment behaviour (requests, blocks, reorgs, free node verdicts) of the bounded MC_Tower configs and evaluates the C04 (re-announce, rebroadcast cadence, confirmation on the active chain, completion iff buried) monitors on every step. Conformance: hundreds of targeted and seeded random histories are executed on the real tower components over SQLite and a simulated bitcoind; every observed step is checked by TLC against the same monitors and against the successor Tower.tla allows (per-component comparison of users/appointments/trackers/heights/RPCs), so a code change breaking the property shows up as a rejected step.', TOWER_NOTE, "DESIGN.md section 6 C04"),
    "C06": ("model_checking", TOWER_TECH, 'Model checking: TLC explores every environment behaviour (requests, blocks, reorgs, free node verdicts) of the bounded MC_Tower configs and evaluates the C06 (authentication, nothing changes on refusal, isolation) monitors on every step. Conformance: hundreds of targeted and seeded random histories are executed on the real tower components over SQLite and a simulated bitcoind; every observed step is checked by TLC against the same monitors and against the successor Tower.tla allows (per-component comparison of users/appointments/trackers/heights/RPCs), so a code change breaking the property shows up as a rejected step.', TOWER_NOTE + "; malformed signatures recover to no registered key (negligible probability otherwise)", "DESIGN.md section 6 C06"),
    "C07": ("model_checking", TOWER_TECH, 'Model checking: TLC explores every environment behaviour (requests, blocks, reorgs, free node verdicts) of the bounded MC_Tower configs and evaluates the C07 (charge/refund arithmetic, three copies, conservation) monitors on every step. Conformance: hundreds of targeted and seeded random histories are executed on the real tower components over SQLite and a simulated bitcoind; every observed step is checked by TLC against the same monitors and against the successor Tower.tla allows (per-component comparison of users/appointments/trackers/heights/RPCs), so a code change breaking the property shows up as a rejected step.', TOWER_NOTE + "; the slot formula is exercised at the boundary sizes, not for every blob length (DESIGN.md section 7)", "DESIGN.md section 6 C07"),
    "C08": ("model_checking", TOWER_TECH, 'Model checking: TLC explores every environment behaviour (requests, blocks, reorgs, free node verdicts) of the bounded MC_Tower configs and evaluates the C08 (receipt signature and fields, start block, read-back) monitors on every step. Conformance: hundreds of targeted and seeded random histories are executed on the real tower components over SQLite and a simulated bitcoind; every observed step is checked by TLC against the same monitors and against the successor Tower.tla allows (per-component comparison of users/appointments/trackers/heights/RPCs), so a code change breaking the property shows up as a rejected step.', TOWER_NOTE + "; receipts verified with teos_common::receipts::*::verify (the client's verifier)", "DESIGN.md section 6 C08"),
    "C09": ("model_checking", TOWER_TECH, 'Model checking: TLC explores every environment behaviour (requests, blocks, reorgs, free node verdicts) of the bounded MC_Tower configs and evaluates the C09 (expiry, renewal, purge exactness) monitors on every step. Conformance: hundreds of targeted and seeded random histories are executed on the real tower components over SQLite and a simulated bitcoind; every observed step is checked by TLC against the same monitors and against the successor Tower.tla allows (per-component comparison of users/appointments/trackers/heights/RPCs), so a code change breaking the property shows up as a rejected step.', TOWER_NOTE, "DESIGN.md section 6 C09"),
    "C11": ("model_checking", TOWER_TECH + "; every history runs under a panic hook with a liveness probe", 'Model checking: TLC explores every environment behaviour (requests, blocks, reorgs, free node verdicts) of the bounded MC_Tower configs and evaluates the no-abort (the specification has no aborting step: any panic observed is a violation) monitors on every step. Conformance: hundreds of targeted and seeded random histories are executed on the real tower components over SQLite and a simulated bitcoind; every observed step is checked by TLC against the same monitors and against the successor Tower.tla allows (per-component comparison of users/appointments/trackers/heights/RPCs), so a code change breaking the property shows up as a rejected step.',
            TOWER_NOTE + "; sequential part only so far (lock-order / circular-wait exploration belongs to the concurrency rig)", "DESIGN.md section 6 C11"),
})

CHECKS["C03"] = ("fault_enumeration",
    "crash-point enumeration on the real tower (hook crashpoint before/after every durable write and node RPC), restart on the same "
    "SQLite file, each run validated by Trace_Tower.tla (CrashTags, Boot checks, RefFinal equality with the uninterrupted run); "
    "Tower.tla model-checked by TLC",
    "For every history of the corpus the crash points are counted and the history is re-run once per point (quick: ~20 points per "
    "history; thorough: every point, plus random histories) with the code unwinding exactly there; everything in memory is dropped, "
    "the tower is rebooted on the same database and catches up. TLC judges every such run against the specification: the crash "
    "state lies between pre- and post-state of the interrupted action, no dangling rows, no slots granted, restart changes "
    "nothing durable and keeps the tower id, and after a crash inside chain processing the final durable state equals the "
    "uninterrupted run's.",
    TOWER_NOTE + "; an in-process unwind + dropping all objects + reopening the SQLite file is equivalent to a process kill for the "
    "durable state (open transactions roll back); restarts of the real teosd binary (SIGKILL between requests / blocks) are part of the end-to-end tier; restarts between any two actions are also explored at the design level (MC_Tower Restart action) and TLC behaviours with restarts are replayed on the real tower",
    "DESIGN.md section 6 C03")

CHECKS["C12"] = ("fault_enumeration",
    "outage enumeration on the real tower with requests and the chain monitor on their own threads, each run validated by "
    "Trace_Tower.tla (unavailable + unchanged while the flag is down, interrupted submission re-issued, no thread left blocked); "
    "reachability protocol model-checked by TLC (Outage.tla: deadlock freedom, NoDrop, Recovers under fairness)",
    "Fault enumeration over where the outage starts (request path / block-processing path / idle / header, block or best-tip "
    "download inside a multi-block poll), how many failing polls it lasts and whether blocks are mined meanwhile. The node is "
    "brought back and recovery must happen by itself: a thread still blocked 25 s later (Carrier probe interval 10 s + slack) "
    "is a violation. Outage.tla checks the lock/flag protocol exhaustively (and, as a vacuity check, that the protocol "
    "without the Carrier's own probe deadlocks). The same on the REAL teosd binary (end-to-end tier: answers of one RPC method / of "
    "the whole simulated node dropped; from the tower's first dropped RPC every request must be answered 'service unavailable'; "
    "catch-up by itself afterwards).",
    TOWER_NOTE + "; real-time bound for 'blocked for ever'; in the scenario where a blocked request and the chain thread run "
    "concurrently only the no-thread-blocked clause is judged",
    "DESIGN.md section 6 C12")

CHECKS["C18"] = ("model_checking",
    "TLA+ model of the client's data layer (ClientStore.tla) model-checked with TLC; its labelled state graph walked on the real "
    "WTClient over SQLite (every (store, operation) pair, reload in every store); random implementation traces validated by "
    "Trace_ClientStore.tla",
    "Exhaustive within the bound in model and implementation: TLC checks MemEqDisk, ReloadFixpoint, AbandonExact, SharedBodies on "
    "every store reachable with 2-3 towers x 2-3 locators and <= 6-8 plugin-performable operations; store_rig executes every "
    "(store, operation) edge of that graph on a real WTClient driven to that store and compares memory, raw rows, load paths and "
    "receipt look-ups with the specification's successor, with a reload after every prefix; longer random histories are judged "
    "event by event by TLC.",
    "call sequences are those main.rs / retrier.rs can perform (no duplicate inserts, no mid-flow kills: those belong to C05); "
    "the rig mirrors the plugin's multi-call flows (pending->accepted, pending->invalid)",
    "DESIGN.md section 6 C18")

CHECKS["C15"] = ("exploration",
    "decision table HttpApi.tla (abstract request -> allowed (status, error code) set) enumerated and checked by TLC; every abstract "
    "request concretised and sent as raw bytes to the real warp router + tonic service + InternalAPI over real tower components",
    "The abstract request space (method x path x size class x body class x per-field class x tower state x bitcoind up/down, plus "
    "content-type and raw-byte families; 2401 abstract requests) is enumerated completely by TLC, which also checks the table itself "
    "(total, never 5xx, never the catch-all code, JSON error body, 503 iff node down); each abstract request is concretised several "
    "times and executed against the real API; status, error code, promptness, no crash and 'state unchanged on every non-200' "
    "(every table row + in-memory users) are compared with the allowed set. Bytes inside a class are sampled, not enumerated.",
    "request headers other than method/length are outside the statement (a non-JSON Content-Type yields 415 with a text body); "
    "positional JSON arrays are accepted by the code and left unconstrained; prompt = 5 s",
    "DESIGN.md section 6 C15")
CHECKS["C16"] = ("exploration",
    "Wire.tla (message table x value classes, signed layouts, locator rule) enumerated by TLC; the client's real request/response code "
    "exchanged with the real warp router through a scripted tonic service and a wire recorder; layout injectivity lemmas checked by TLC",
    "The full class product (all messages x field classes incl. empty, u32 boundaries, byte-reversed txids, status names; 11035 cases) "
    "is enumerated by TLC and every case is executed: client code -> real router -> parsed protobuf captured, scripted protobuf reply -> "
    "real router -> client parser, compared field by field, plus raw JSON form and the signed byte layouts. Values inside a class are "
    "sampled.",
    "the strings signed by the plugin binary's main.rs for get requests are exercised by the plugin end-to-end tier only; a size "
    "limit that was raised is not noticed",
    "DESIGN.md section 6 C16")
CHECKS["C20"] = ("model_checking",
    "Config.tla (effective setting = CLI over file over documented default, one-shot switches, Verify, network/port rule) checked by TLC; "
    "every enumerated presence/value case executed on the real from_file/patch_with_options/verify and on the real teosd / teos-cli "
    "binaries; random cases validated by Trace_Config.tla",
    "Exhaustive over the abstract space: presence/absence of every option in file and CLI, 4 networks + unknown, all 8 credential "
    "combinations per source, same-value and port-default families; each case carries the expectation computed by the specification and "
    "is compared field by field after patch and after verify; refusal cases also run through the real daemon binary (exit status, "
    "refusal before any file or connection).",
    "unspecified corners left unconstrained: explicit port 0, bitcoind short names main/test as input, unparsable file, message texts",
    "DESIGN.md section 6 C20")

CHECKS["C10"] = ("model_checking",
    "systematic schedule exploration of real tower threads (instrumented Mutex hook, DFS with a preemption bound + random schedules) "
    "with every execution judged by TLC: linearizability against Tower.tla's sequential action operators (Trace_Tower.tla StepConc)",
    "Two or three operations drawn from the property's set run on real threads; every schedule at lock-acquisition / node-RPC "
    "granularity with at most 2 (thorough 3) preemptions is executed from a common checkpoint (capped per operation set), plus random "
    "schedules. TLC accepts an execution iff some sequential order of the requests and of the per-listener critical sections of the "
    "chain event, compatible with the real-time order of invocations and returns, run through the specification's operators, yields "
    "exactly the observed replies, final state and set of submitted transactions; slot conservation, "
    "memory = disk and no orphan records are checked on the same state.",
    TOWER_NOTE + "; scheduling points = instrumented mutexes + node RPCs; start block / expiry echoed by add_appointment (read when the "
    "handler starts) compared leniently; exploration is bounded (preemptions, schedules per set)",
    "DESIGN.md section 6 C10")
c11 = CHECKS["C11"]
CHECKS["C11"] = (c11[0], c11[1] + "; lock-order / circular-wait search by systematic schedule exploration of real threads (conc-rig)",
                 c11[2] + " Concurrent part: the schedule exploration of C10 reports every execution in which no thread can proceed "
                 "(circular wait or self-deadlock), every panic on an operation thread, and hangs.",
                 TOWER_NOTE + "; circular waits are reported only when a schedule realising them blocks the real code", c11[4])

CLIENT_NOTE = ("the real watchtower-client binary is driven over stdio as lightningd would (client_rig) against scripted fake towers; "
               "timing obligations are real-time bounds with slack; lightningd itself is not part of the setting")
CHECKS["C05"] = ("model_checking",
    "Client.tla (client state machine: hook, retry manager, retriers, store; NeverLost, ExactlyOne, DataForResend) model-checked by TLC; "
    "fault enumeration on the real plugin binary with every trace validated by Trace_Client.tla",
    "Every reply class of a tower (accept, refuse, subscription error, other API error, non-JSON / wrong-shape bodies, bad and malformed "
    "signatures) on the notification path and on the retry path, with 1-2 towers; duplicate notifications; abandontower; SIGKILL at "
    "enumerated and random points followed by a restart; outages; scripts made from TLC -simulate behaviours of the specification; "
    "seeded random fault sequences. After every event the durable and in-memory records are compared with the specification's.",
    CLIENT_NOTE, "DESIGN.md section 6 C05")
CHECKS["C13"] = ("model_checking",
    "Client.tla (OneLoop, NoFlood, EndsUnreachable, ManualRetryGate, Delivered under fairness) model-checked by TLC; outage / recovery "
    "enumeration on the real plugin binary, traces and the towers' request logs validated by Trace_Client.tla",
    "Outages of several lengths around the retry and auto-retry delays, every reply class on the retry path, retrier states "
    "(running / idle / failed) x manual retry, subscription errors with and without renewal, revocations arriving while retries run, "
    "kills and restarts; the delivery bound, the back-off and 'at most one retry loop per tower' are judged on the towers' logs.",
    CLIENT_NOTE + "; liveness is decided on the model under fairness and observed on the code as a bounded-time obligation",
    "DESIGN.md section 6 C13")
CHECKS["C14"] = ("model_checking",
    "Client.tla (registration recorded only through RegApply, BadSig, Misbehaving <=> proof stored, Survives) model-checked by TLC; every reply a tower can produce enumerated "
    "against the real plugin binary, traces validated by Trace_Client.tla",
    "Registration receipts (valid, wrong signer, not extending the known subscription), appointment acknowledgements with wrong and "
    "malformed signatures on both paths, wrong types, non-JSON, error objects, huge and empty bodies, late answers to a tower already "
    "flagged; a panic, a poisoned state or an unanswered hook is a violation; the proof must be stored and nothing sent afterwards, "
    "also after a restart.",
    CLIENT_NOTE, "DESIGN.md section 6 C14")

NOT_YET = {
}

NOT_APPLICABLE = {
    "C17": "universally quantified statement about four pure cryptographic functions over byte strings (AEAD round trip / "
           "tamper rejection, recoverable ECDSA): a TLA+ specification can only assume it as an axiom, TLC has no state or "
           "history to explore and conformance has nothing to bind (DESIGN.md section 7)",
}


def main():
    props = [json.loads(l) for l in open(os.path.join(VERIF, "properties.jsonl"))]
    commits = subprocess.check_output(
        ["git", "-C", "/repo", "log", "--format=%h %s", "d4e0fad..HEAD"], text=True).strip().splitlines()
    hook_commits = [c.split()[0] for c in commits if c.split(" ", 1)[1].startswith("verif hooks")]
    checks = []
    na = []
    for p in props:
        pid = p["id"]
        if pid in CHECKS:
            cat, tech, text, note, ref = CHECKS[pid]
            checks.append({
                "property_id": pid,
                "quick_cmd": "./check %s --tier quick" % pid,
                "thorough_cmd": "./check %s --tier thorough" % pid,
                "evidence_file": "evidence/%s.json" % pid,
                "replay_cmd_template": "./check %s --replay {path}" % pid,
                "engine": "tlc+harness",
                "level_claimed": {"category": cat, "text": text, "design_ref": ref},
                "level_note": note,
                "technique": tech,
            })
        elif pid in NOT_APPLICABLE:
            na.append({"property_id": pid, "reason": NOT_APPLICABLE[pid]})
        else:
            na.append({"property_id": pid, "reason": NOT_YET.get(pid, "not claimed yet: its specification / harness is "
                                                                  "still being built (see DESIGN.md section 11 for the order)")})
    m = {
        "version": 1,
        "setup_cmd": "./setup.sh",
        "hooks": {
            "guard": "cargo feature `verif` (crates teos, teos-common, watchtower-plugin); off by default",
            "enable": "harness/Cargo.toml depends on /repo/{teos,teos-common,watchtower-plugin} by path with "
                      "features=[\"verif\"]; product binaries are built with --features verif",
            "baseline_off_cmd": "cd /repo && cargo test --workspace --no-fail-fast --offline",
            "source_commits": hook_commits,
            "add_only": True,
        },
        "engines": [
            {"name": "tlc", "path": "spec/", "serves_properties": sorted(CHECKS),
             "kind_free_text": "explicit TLA+ specifications model-checked with TLC; Trace_*.tla validate implementation traces; "
                               "MC_* emit behaviours for replay"},
            {"name": "harness", "path": "harness/", "serves_properties": sorted(CHECKS),
             "kind_free_text": "Rust rigs driving the real code (path deps on /repo, feature verif): replay TLC behaviours, "
                               "record ndjson traces"},
        ],
        "checks": checks,
        "not_applicable": na,
        "notes": "./check <ID> [--tier quick|thorough] [--replay PATH]; exit 0 held / 1 VIOLATION / 2 tool error. "
                 "known_findings.json lists confirmed defects (known / fixed). See DESIGN.md.",
    }
    json.dump(m, open(os.path.join(VERIF, "MANIFEST.json"), "w"), indent=1)
    print("MANIFEST.json: %d checks, %d not claimed" % (len(checks), len(na)))


if __name__ == "__main__":
    main()
