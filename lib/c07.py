"""C07 (DESIGN.md section 6): tower campaign judged by Trace_Tower.tla / TowerProps.tla."""
import towerlib as T
import towercheck

PID = "C07"


def scenarios(rng, tier):
    sc = T.fam_slots(rng) + T.fam_completion(rng) + T.fam_breach(rng)[:6] + T.fam_resubmit(rng)
    # "only irrevocably resolved trackers are refunded": trackers dropped because their re-announcement after a reorg is rejected
    sc += [x for x in T.fam_reorg(rng) if x["name"].endswith(("-conflict", "-dispute_gone")) and x["name"].startswith(("reorg-d1-", "reorg-d2-", "reorg-d3-"))]
    sc += T.fam_cli(rng)       # the balance the operator is shown (teos-cli getuser) is one more copy "on the wire"
    sc += T.fam_random(rng, 12 if tier == "quick" else 150)
    if tier == "thorough":
        for _ in range(5):
            sc += T.fam_slots(rng)
        sc += T.fam_completion(rng) + T.fam_expiry(rng, cfgs=(T.CFG_B, T.CFG_C, T.CFG_E))
    sc += T.fam_maxslots(rng)
    return sc


RULE = 'blob sizes on both sides of every slot boundary (1, 2047, 2048, 2049, 4095, 4096, 4097, 6144, 6145 bytes; valid blobs of exactly 2048/2049/4096/4097), replacements up and down, exhaustion (S in {10,3,1,0}), triggers accepted / invalid / rejected, replacements of a held triggered appointment, trackers dropped after a rejected re-announcement (no refund), completion refunds, expiry, restarts; slots compared in memory (hook), on disk (users table) and on the wire (reply) at every step'


def main(tier, replay=None):
    import mc_tower
    design = None if replay else mc_tower.design_stats(PID, tier)
    return towercheck.run(PID, tier, replay, scenarios, RULE, towercheck.COMMON_ASSUMPTIONS, design_stats=design)
