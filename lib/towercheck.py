"""Shared driver of the tower property checks (C01, C02, C04, C06, C07, C08, C09, ...)."""
import json
import os
import random
import time

import towerlib as T
from common import ToolError, Verdict, build, log, seed, workdir, write_evidence


E2E_PIDS = ("C01", "C02", "C04", "C07", "C08", "C09")


def classify(tag):
    """(tag, site, scenario class) used for matching against known_findings.json"""
    ev = tag["event"]
    name = tag["scenario"]["name"]
    # concurrency scenarios are identified by their operation set (full name), the others by their family
    return tag["what"], ev["act"], name if name.startswith("conc-") else name.split("-")[0]


def run(pid, tier, replay, scenarios_fn, rule, assumptions, level="model_checking", design_stats=None, extra_tags=None):
    """scenarios_fn(rng, tier) -> list of scenarios.  design_stats: optional dict from the TLC design-level run
    ({"states","transitions","configs"}).  extra_tags: callable(tag) -> True when a tag of another property family should
    also be judged by this check."""
    t0 = time.time()
    wd = workdir(pid)
    build(["tower_rig"])
    rng = random.Random(seed() * 7919 + sum(ord(c) for c in pid))
    verdict = Verdict(pid)
    camp = T.Campaign(wd)
    replay_info = {}
    if replay:
        rp = json.load(open(replay))
        scenarios = [rp["replay"]["scenario"]]
    else:
        scenarios = scenarios_fn(rng, tier)
        # spec -> implementation: behaviours simulated by TLC on MC_Tower become scripts
        import mc_tower
        replayed, replay_info = mc_tower.replay_scenarios(pid, tier, seed())
        scenarios = scenarios + replayed
    camp.run(scenarios, pid.lower())
    # end-to-end tier: the real teosd binary (everything wired in main.rs), same judge
    e2e_stats = {}
    e2e_tags = []
    if not replay and pid in E2E_PIDS:
        import e2e
        e2e_tags = e2e.run(pid, tier)
        e2e_stats = e2e.last_stats
    mine = [t for t in camp.tags if t["prop"] == pid or (extra_tags and extra_tags(t))] + e2e_tags
    others = {}
    for t in camp.tags:
        if t not in mine:
            others[(t["prop"], t["what"])] = others.get((t["prop"], t["what"]), 0) + 1
    for t in mine:
        what, site, sclass = classify(t)
        verdict.disagree(what, site, sclass,
                         "%s: %s at %s (scenario %s, trace %s line %d)" % (pid, what, site, t["scenario"]["name"], t["trace"], t["line"]),
                         {"scenario": t["scenario"], "tag": [t["line"], t["prop"], t["what"]], "event": t["event"], "before": t["prev"]})
    if others:
        log("note: tags owned by other properties in this campaign: %s" % sorted(others.items()))
    nviol = verdict.finish()
    if replay:
        return 1 if nviol else 0
    cov = {
        "evaluations": camp.scenarios,
        "distinct_nontrivial": len(camp.distinct),
        "rule": rule,
        "traces_validated_against_impl": camp.scenarios,
        "impl_events_validated": camp.events,
        "events_by_action": camp.acts,
        "behaviour_observed_in_validated_traces": camp.happened,
        "trace_validation_states": camp.tlc_states,
        "aborts_of_code_under_test_observed": camp.aborts,
        "concurrent_schedules_executed": getattr(camp, "conc_schedules", 0),
        "spec_to_impl_tlc_behaviours_replayed": replay_info,
        "end_to_end_teosd_binary": e2e_stats,
        "tags_of_other_properties": {"%s.%s" % k: v for k, v in others.items()},
        "known_findings_hit": verdict.known_hits,
        "samples": camp.samples[:3] if camp.samples else [{"scenario": scenarios[0]["name"], "ops": scenarios[0]["ops"][:8]}],
        "wall_rig_s": round(camp.wall_rig, 1),
        "wall_trace_validation_s": round(camp.wall_tlc, 1),
    }
    if design_stats:
        cov["states"] = design_stats["states"]
        cov["transitions"] = design_stats["transitions"]
        cov["design_level_configs"] = design_stats["configs"]
    write_evidence(pid, tier, level, cov, assumptions, time.time() - t0, nviol)
    return 1 if nviol else 0


COMMON_ASSUMPTIONS = [
    "tower_rig mirrors teos/src/main.rs (component construction, listener order gatekeeper -> watcher -> responder, cache 6 / index 100)",
    "simulated bitcoind semantics of DESIGN.md Appendix C generate the histories; in validation every RPC verdict is an input",
    "transactions are distinguished by small integers; no 16-byte locator collisions; blobs decrypt iff encrypted under the dispute id (C17)",
]
