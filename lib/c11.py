"""C11 (DESIGN.md section 6): no aborting handler / chain loop, no poisoned state (sequential part: every tower history
with a panic hook and a liveness probe; judged by Trace_Tower.tla: an abort is accepted only through a named deviation);
lock-order / circular-wait part: see conc (C10) campaign."""
import towerlib as T
import towercheck

PID = "C11"


def scenarios(rng, tier):
    sc = T.fam_resubmit(rng) + T.fam_reorg(rng) + T.fam_completion(rng)[:2] + T.fam_late(rng)[::3] + T.fam_expiry(rng, cfgs=(T.CFG_B,))[::2]
    sc += [x for x in T.fam_slots(rng, cfgs=(T.CFG_A,)) if x["name"].startswith("slots-replace")]
    sc += T.fam_auth(rng)[:2] + T.fam_oddnode(rng) + T.fam_random(rng, 14 if tier == "quick" else 200)
    # node replies include no reply at all: an outage on the request path and on the block-processing path
    sc += [x for x in T.fam_outage(rng, ms=25000) if x["name"] in ("outage-request-k0", "outage-block-k0", "outage-request-atsend")]
    sc += T.fam_conc(rng, tier)       # lock-order / circular-wait exploration on real threads (also judged by C10)
    if tier == "thorough":
        sc += T.fam_reorg(rng, deep=True) + T.fam_breach(rng) + T.fam_expiry(rng) + T.fam_slots(rng)
    return sc


RULE = ("every scenario runs with a panic hook; a panic of the code under test becomes an abort event (file:kind), followed by a "
        "liveness probe (register + get_subscription_info) and a restart; families: resubmission in every life-cycle state, "
        "reorgs (all shapes of C04), completion, purge with trackers flagged as reorged, bad signatures, random")


OPSETS = ['{"add_trig", "block_complete"}', '{"register", "block_complete"}', '{"add_trig", "block_breach"}',
          '{"add_new", "add_trig", "block_reorged"}', '{"add_trig", "disconnect", "get"}', '{"add_new", "register", "block_complete"}']


def lock_model(design):
    """TowerConc.tla: the lock programs of the operations (as the code is now) have no circular wait in any interleaving of
    the operation sets; with the lock programs of the code before the repairs TLC must find the deadlocks (vacuity check)."""
    import os
    from common import ToolError, tlc
    wd = os.path.join("/verif/work", PID, "conc_model")
    for ops in OPSETS:
        r = tlc("TowerConc", "TowerConc.cfg", wd, workers=2, consts={"Ops": ops, "OldOrder": "FALSE"}, timeout=600)
        if not r.ok:
            raise ToolError("TowerConc.tla: %s for %s with the current lock programs" % (r.violated, ops))
        design["states"] += r.distinct
        design["transitions"] += r.generated
        design["configs"].append({"config": "TowerConc", "ops": ops, "distinct_states": r.distinct, "result": "no circular wait"})
    r = tlc("TowerConc", "TowerConc.cfg", wd, workers=2, consts={"Ops": OPSETS[0], "OldOrder": "TRUE"}, timeout=600)
    if r.ok:
        raise ToolError("TowerConc.tla with the pre-repair lock programs should deadlock (vacuity check)")
    design["configs"].append({"config": "TowerConc/pre-repair lock orders", "ops": OPSETS[0], "expected": "deadlock", "found": str(r.violated)})
    return design


def main(tier, replay=None):
    import mc_tower
    design = None if replay else lock_model(mc_tower.design_stats(PID, tier))
    return towercheck.run(PID, tier, replay, scenarios, RULE, towercheck.COMMON_ASSUMPTIONS, design_stats=design,
                          extra_tags=lambda t: t["what"].startswith("hung:") or t["what"] == "process_died")
