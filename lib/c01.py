"""C01 (DESIGN.md section 6): tower campaign judged by Trace_Tower.tla / TowerProps.tla."""
import towerlib as T
import towercheck

PID = "C01"


def scenarios(rng, tier):
    sc = T.fam_breach(rng) + T.fam_late(rng) + T.fam_resubmit(rng) + T.fam_oddnode(rng)[:2]
    sc += T.fam_overloaded(rng)[1:2] if tier == "quick" else T.fam_overloaded(rng)
    sc += T.fam_random(rng, 12 if tier == "quick" else 150)
    if tier == "thorough":
        for _ in range(6):
            sc += T.fam_breach(rng) + T.fam_late(rng)
        sc += T.fam_reorg(rng)
    return sc


RULE = 'families breach (several appointments/users/blob kinds per dispute, several breaches per block, same-block penalty, node verdicts), late (appointment after its dispute at cache ages 0,1,4,5,6,7), resubmit (every life-cycle state), seeded random histories; a scenario is non-trivial if it contains a breach; distinct = distinct set of (action, reply code, rpc present, abort) signatures per configuration'


def main(tier, replay=None):
    import mc_tower
    design = None if replay else mc_tower.design_stats(PID, tier)
    return towercheck.run(PID, tier, replay, scenarios, RULE, towercheck.COMMON_ASSUMPTIONS, design_stats=design)
