#!/bin/bash
# usage: confirm_mutant.sh <dir with patch.diff demo.diff meta.json> : confirms a seeded change in a scratch worktree of /repo
#   (a) demo passes on HEAD, (b) demo fails with the patch, (c) the existing suite passes with the patch alone.
D=$1
W=/tmp/mutconfirm
[ -d $W ] || git -C /repo worktree add --detach $W HEAD >/dev/null 2>&1
cd $W && git checkout -q --detach ${MUT_BASE:-$(python3 -c "import json;print(json.load(open('$D/meta.json')).get('base','ab6aef5'))")} && git checkout -q -- . && git clean -fdq -e target
CMD=$(python3 -c "import json;print(json.load(open('$D/meta.json'))['demo_cmd'])")
export CARGO_NET_OFFLINE=true
git apply $D/demo.diff || { echo '{"error":"demo does not apply"}' > $D/confirm.json; exit 1; }
( eval "$CMD" ) > $D/confirm_a.log 2>&1; A=$?
git apply $D/patch.diff || { echo '{"error":"patch does not apply"}' > $D/confirm.json; exit 1; }
( eval "$CMD" ) > $D/confirm_b.log 2>&1; B=$?
git checkout -q -- . && git clean -fdq -e target && git apply $D/patch.diff
cargo test --offline --workspace --no-fail-fast > $D/confirm_c.log 2>&1; C=$?
FAILED=$(grep -c "^test .* FAILED" $D/confirm_c.log)
git checkout -q -- . && git clean -fdq -e target
echo "{\"demo_on_head_exit\":$A,\"demo_with_patch_exit\":$B,\"suite_with_patch_exit\":$C,\"suite_failed_tests\":$FAILED,\"head\":\"$(git rev-parse --short HEAD)\"}" > $D/confirm.json
cat $D/confirm.json
