"""End-to-end tier of the tower properties (DESIGN.md section 4.1 "teosd-rig").

The REAL `teosd` binary runs against the simulated bitcoind served over HTTP JSON-RPC (harness/src/bin/teosd_rig.rs) and is
driven through its public HTTP API; the recorded trace is judged by spec/Trace_Tower.tla through spec/Trace_TowerE2E.tla
(Trace_Tower's Next unchanged + submissions of a whole poll + "the first bootstrap persists its starting block").

Scenarios use the script format of lib/towerlib.py.  Every block costs up to ~1 s (the daemon polls once per second), so
scenarios run in PARALLEL processes, each with its own ports, data directory and simulated node.

The scenario set is chosen to be sensitive to what only teos/src/main.rs decides: the listener order gatekeeper -> watcher ->
responder, the slices of the boot blocks given to the Watcher (6) and the Responder (100), the bootstrap sequence (load the
last known block, catch up a backlog), the persisted starting block, the refusal to start below 100 blocks.
"""
import concurrent.futures
import json
import os
import signal
import subprocess
import time

from common import BIN, ToolError, log, tlc, unwrap_print
from towerlib import (CFG_A, CFG_B, CFG_F, CFG_L, D, P, POLL, add, ff, garbled, get, mine, reg, sub, valid)
import towerlib as T

BOOT = [{"op": "boot"}, {"op": "poll"}]
CRASH = {"op": "crash"}
RESTART = [{"op": "crash"}, {"op": "boot"}, {"op": "poll"}]

# purge / expiry at small heights
CFG_P = {"S": 3, "D": 4, "G": 2, "cache": 6, "idx": 100, "h0": 104}
# the smallest chain the daemon accepts
CFG_MIN = {"S": 2, "D": 3, "G": 1, "cache": 6, "idx": 100, "h0": 99}
CFG_GRACE = {"S": 3, "D": 1, "G": 3, "cache": 6, "idx": 100, "h0": 104}
CFG_ZERO = {"S": 3, "D": 0, "G": 2, "cache": 6, "idx": 100, "h0": 104}
CFG_MIN100 = {"S": 2, "D": 3, "G": 1, "cache": 6, "idx": 100, "h0": 100}


def scen(name, cfg, ops, props, pre=()):
    """pre: what happens at the node before the daemon is started for the first time"""
    return {"name": name, "cfg": cfg, "ops": list(pre) + BOOT + ops, "props": list(props)}


def ffc(n, chunk=10):
    """n empty blocks, delivered to the tower in pieces of `chunk` blocks (one synchronisation per piece: a Chain event of
    k blocks costs the validator more than linearly in k)"""
    out = []
    while n > 0:
        k = min(n, chunk)
        out.append(ff(k, "end"))
        n -= k
    return out


# ---------------------------------------------------------------------------------------------------
# scenarios sensitive to main.rs' wiring

def wiring_scenarios():
    out = []

    # (1) listener order gatekeeper before watcher: the block that purges user 1 also confirms the dispute of its appointment.
    # Registered at 104 (expiry 108, purged by block 110); user 2 renews and stays.  Nothing may be sent for user 1.
    ops = [reg(1), reg(2), reg(2), add(1, 1, valid(1)), add(2, 2, valid(2)), add(2, 1, valid(1, 6)), ff(5, "end"), sub(1),
           mine([D(1), D(2)]), get(2, 2), get(2, 1), sub(1), sub(2), get(1, 1), mine([P(2)]), get(2, 2)]
    out.append(scen("e2e-purge-then-breach", CFG_P, ops, ["C02", "C09", "C01"]))
    # the same without another holder of the locator: the only observable difference of a wrong order is the submission
    ops = [reg(1), reg(2), reg(2), add(1, 1, valid(1)), add(2, 2, valid(2)), ff(5, "end"), mine([D(1)]), sub(1), sub(2), mine([D(2)]),
           get(2, 2)]
    out.append(scen("e2e-purge-then-breach-alone", CFG_P, ops, ["C02", "C09"]))

    # (2) listener order watcher before responder: dispute and penalty confirmed in the same block (the penalty is not yet in
    # the Responder's index when the Watcher answers: the node says "already in chain", the appointment is kept, no tracker);
    # then a plain breach whose penalty stays unconfirmed: rebroadcast exactly RETRY_N blocks after the submission.
    ops = [reg(1), add(1, 1, valid(1)), add(1, 2, valid(2)), mine([D(1), P(1)]), get(1, 1), sub(1), mine([D(2)]), get(1, 2),
           ff(6, "each"), get(1, 2), mine([P(2)]), get(1, 2), ff(1, "each"), sub(1)]
    out.append(scen("e2e-same-block-penalty", CFG_A, ops, ["C01", "C04", "C02"]))

    # (3) breach then completion in one block: block k+100 buries the penalty of tracker 1 (refund, appointment forgotten) and
    # confirms the dispute of appointment 2 of the same user
    ops = [reg(1), add(1, 1, valid(1)), add(1, 2, valid(2)), sub(1), mine([D(1)]), mine([P(1)]), get(1, 1)] + ffc(98) + [ff(1, "each"), sub(1),
           mine([D(2)]), sub(1), get(1, 1), get(1, 2), mine([P(2)]), get(1, 2)]
    out.append(scen("e2e-breach-then-completion", CFG_L, ops, ["C04", "C07", "C01"]))

    # (4) cache slice: the Watcher is given the 6 newest boot blocks.  Dispute 1 is in the 6th newest block at the restart
    # (answered when the late appointment arrives), dispute 2 in the 7th (not answered); the same in steady state afterwards.
    # The blocks after the late trigger are delivered one by one (the rebroadcast of its penalty, RETRY_N blocks after the
    # recorded submission height, is judged in a Chain event of its own).
    ops = [reg(1), reg(2), mine([D(2)]), mine([D(1)]), ff(5, "end")] + RESTART + [
        add(1, 1, valid(1)), get(1, 1), add(1, 2, valid(2)), get(1, 2), sub(1),
        mine([D(4)]), mine([D(3)]), ff(5, "each"), add(2, 3, valid(3)), get(2, 3), add(2, 4, valid(4)), get(2, 4), sub(2)]
    out.append(scen("e2e-cache-window-restart", CFG_A, ops, ["C01", "C02", "C03"]))

    # (5) index slice: the Responder is given the 100 boot blocks.  Before the first start the node already has penalties
    # confirmed 100 / 99 blocks below the boot tip (206) and their disputes in the tip: at the start only the one in the 100th
    # newest block is in the index (tracker recorded as confirmed there without asking the node; the other is submitted and
    # bounces as "already in chain").  Then the same one block later in steady state (99 / 100 / 101 blocks below the tip), and
    # after a restart.
    pre = [mine([P(3), P(5)], poll=False), mine([P(1), P(4)], poll=False), mine([P(2)], poll=False), ff(97, "none"), mine([D(4), D(5)], poll=False)]
    ops = [reg(1), reg(2), add(1, 4, valid(4)), get(1, 4), add(1, 5, valid(5)), get(1, 5), sub(1), mine([D(1), D(2), D(3)]), sub(1), get(1, 4),
           add(1, 1, valid(1)), get(1, 1), add(1, 2, valid(2)), get(1, 2), add(1, 3, valid(3)), get(1, 3), sub(1)] + RESTART + [
           add(2, 2, valid(2)), get(2, 2), add(2, 1, valid(1)), get(2, 1), sub(2), mine([]), get(1, 2), get(2, 2), add(2, 3, valid(3)), get(2, 3),
           sub(1), sub(2)]
    out.append(scen("e2e-index-boundary", CFG_L, ops, ["C01", "C02", "C04", "C03"], pre=pre))

    # (6) restart with a backlog: three blocks (two breaches) mined while the daemon is down are processed by the catch-up poll
    # of the bootstrap, before the interfaces come up
    ops = [reg(1), reg(2), add(1, 1, valid(1)), add(1, 2, valid(2)), add(2, 2, valid(2, 6)), add(1, 3, garbled(200)), CRASH,
           mine([D(1)], poll=False), mine([], poll=False), mine([D(2), D(3)], poll=False), {"op": "boot"}, POLL,
           get(1, 1), get(1, 2), get(2, 2), get(1, 3), sub(1), sub(2), mine([P(1), P(2)]), get(1, 1), get(1, 2)]
    out.append(scen("e2e-restart-backlog", CFG_A, ops, ["C03", "C01"]))

    # (7) first-ever start, crash before any block: the block the tower started from must have been persisted, so that the
    # block mined while it was down (a breach) is processed after the restart
    ops = [reg(1), add(1, 1, valid(1)), CRASH, mine([D(1)], poll=False), {"op": "boot"}, POLL, get(1, 1), sub(1), mine([P(1)]), get(1, 1)]
    out.append(scen("e2e-first-boot-crash", CFG_A, ops, ["C03", "C01"]))

    # (8) refusal to start on a chain of fewer than 100 blocks (and what a later start on the same data directory does once
    # the chain is long enough: recorded, see the Note events); a fresh start on exactly 100 blocks works
    ops = [mine([], poll=False), {"op": "boot"}, POLL, reg(1), sub(1)]
    out.append(scen("e2e-refuse-below-100", CFG_MIN, ops, ["C03"]))
    ops = [reg(1), add(1, 1, valid(1)), mine([D(1)]), get(1, 1), sub(1)] + RESTART + [get(1, 1), mine([P(1)]), get(1, 1)]
    out.append(scen("e2e-start-at-100", CFG_MIN100, ops, ["C03", "C01"]))

    # (9) a reorg delivered by the real SpvClient over RPC: disconnections, re-announcement of dispute and penalty
    ops = [reg(1), reg(2), add(1, 1, valid(1)), add(2, 2, valid(2)), mine([D(1)]), mine([P(1)]), get(1, 1), get(2, 2),
           {"op": "reorg", "depth": 2, "blocks": [[], [D(1)], []], "to_mempool": True}, POLL, get(1, 1), get(2, 2), mine([P(1), D(2)]), ff(1, "each"),
           get(1, 1), get(2, 2), sub(1)]
    out.append(scen("e2e-reorg", CFG_A, ops, ["C04", "C01", "C02"]))
    # (10) a configuration whose grace period is LONGER than the subscription (and a zero-length subscription): the purge
    # height is expiry + the configured grace period, whatever the duration (Config::verify must not "normalise" it)
    for cfg, name in ((CFG_GRACE, "e2e-grace-longer"), (CFG_ZERO, "e2e-duration-zero")):
        ops = [reg(1), reg(2), add(1, 1, valid(1)), sub(1)] + [x for _ in range(cfg["D"] + cfg["G"] + 1) for x in (ff(1, "each"), sub(1), reg(2))]
        ops += [mine([D(1)]), sub(1), sub(2)]
        out.append(scen(name, cfg, ops, ["C09", "C02"]))
    out += outage_scenarios()
    return out


def fault(method, on):
    return {"op": "rpc_fault", "method": method, "on": on}


AWAIT = {"op": "await_outage"}


def outage_scenarios():
    """C12 on the real daemon: the node stops answering (one RPC method, or everything) while the tower works; from the first
    dropped RPC the API must answer 'service unavailable' (Flag event = that obligation); once the node answers again the
    tower catches up by itself: the blocks mined meanwhile are processed, the interrupted submission is retried."""
    out = []
    # the outage starts at the getblockheader of a poll that was told about a new best block (getblockchaininfo still works)
    # (a failing getblock is not part of this tier: SpvClient swallows the error, the tip is persisted although the block
    # was not delivered - known finding F-C03-2 - and the tower's progress can then not be observed through its last known
    # block; block download failures are judged in-process, event by event)
    for method in ("getblockheader", "getblockchaininfo"):
        ops = [reg(1), add(1, 1, valid(1)), add(1, 2, valid(2)), fault(method, True), mine([D(1)], poll=False), AWAIT,
               add(1, 3, valid(3)), sub(1), get(1, 1), reg(2), fault(method, False), POLL,
               get(1, 1), add(1, 3, valid(3)), sub(1), mine([D(2), P(1)]), get(1, 2), get(1, 1)]
        out.append(scen("e2e-outage-%s" % method, CFG_A, ops, ["C12"]))
    # the node goes away completely, two blocks (a breach each) are mined meanwhile
    ops = [reg(1), add(1, 1, valid(1)), add(1, 2, valid(2)), {"op": "node", "up": False}, mine([D(1)], poll=False), AWAIT,
           add(1, 3, valid(3)), sub(1), mine([D(2)], poll=False), {"op": "node", "up": True}, POLL,
           get(1, 1), get(1, 2), add(1, 3, valid(3)), sub(1)]
    out.append(scen("e2e-outage-down", CFG_A, ops, ["C12"]))
    # the outage hits the submission of a penalty: the chain monitor is inside the Responder; the Carrier retries by itself
    ops = [reg(1), add(1, 1, valid(1)), fault("sendrawtransaction", True), mine([D(1)], poll=False), AWAIT,
           add(1, 3, valid(3)), sub(1), fault("sendrawtransaction", False), POLL, get(1, 1), add(1, 3, valid(3)), sub(1),
           mine([P(1)]), get(1, 1)]
    out.append(scen("e2e-outage-at-send", CFG_A, ops, ["C12", "C01"]))
    return out


E2E_OPS = ("boot", "crash", "restart", "poll", "register", "add", "get", "sub", "mine", "ff", "reorg", "verdict", "reject", "unreject",
           "mempool_add", "mempool_drop")


E2E_BLOBS = ("valid", "garbled", "trailing", "truncated")     # the kinds teosd_rig can build
E2E_SIGS = ("valid", "other_msg", "unregistered", "truncated", "bitflip", "not_zbase32")


def _small(tx):
    """penalty variants 2..5 are padded to 2048..4097 bytes: over HTTP only bodies up to 2048 bytes reach the tower"""
    return tx + 4 if isinstance(tx, int) and tx % 10 in (2, 3, 4, 5) else tx


def e2e_adapt(sc):
    """An in-process scenario rewritten for the HTTP tier, or None if it cannot be: faults / threads / concurrency / outages and
    requests racing a poll are not part of this tier; the API refuses bodies over 2048 bytes and empty signatures before
    the tower sees them (big penalties are replaced by small variants of the same dispute, garbled blobs capped, requests
    with an empty signature dropped); long fast-forwards are delivered in pieces of 10 blocks."""
    if sc["cfg"].get("scale", 1) != 1 or "conc" in sc or "crash_at" in sc or "while_down" in sc or "nodereorg" in sc["name"]:
        return None
    ops = []
    for op in sc["ops"]:
        o = op.get("op")
        if o not in E2E_OPS or (o == "verdict" and op.get("v") == "err"):
            return None
        if op.get("sig") == "empty":
            continue
        if op.get("sig", "valid") not in E2E_SIGS:
            return None
        op = json.loads(json.dumps(op))
        if o == "add":
            b = op["blob"]
            if b["kind"] not in E2E_BLOBS:
                return None
            if b["kind"] == "garbled":
                b["size"] = min(b["size"], 900)
            else:
                b["p"] = _small(b["p"])
        elif o == "mine":
            op["txs"] = [_small(t) for t in op["txs"]]
        elif o == "reorg":
            op["blocks"] = [[_small(t) for t in blk] for blk in op["blocks"]]
        elif "tx" in op:
            op["tx"] = _small(op["tx"])
        if o == "ff" and op.get("poll", "end") == "end" and op["n"] > 10:
            ops += ffc(op["n"])
        else:
            ops.append(op)
    out = dict(sc)
    out["ops"] = ops
    return out


def family_scenarios(rng, n_random=8):
    """thorough tier: the in-process families, executed on the real daemon"""
    out = []
    fams = [("late", T.fam_late(rng), ["C01", "C02"]), ("resubmit", T.fam_resubmit(rng), ["C01", "C11"]),
            ("breach", T.fam_breach(rng), ["C01", "C02"]),
            ("completion", T.fam_completion(rng), ["C04", "C07"]),
            ("expiry", T.fam_expiry(rng, cfgs=(CFG_B,)), ["C09", "C07"]),
            ("reorg", T.fam_reorg(rng), ["C04", "C02"]),
            ("slots", T.fam_slots(rng, cfgs=(CFG_B,)), ["C07"]),
            ("auth", T.fam_auth(rng), ["C06"]),
            ("random", T.fam_random(rng, n_random, cfgs=(CFG_A, CFG_B, CFG_F), length=40), ["C01", "C02", "C03", "C04", "C06", "C07", "C09"])]
    for name, scs, props in fams:
        keep = [x for x in (e2e_adapt(s) for s in scs) if x is not None]
        if name == "reorg":
            keep = [s for s in keep if s["name"].startswith(("reorg-d1-", "reorg-d2-", "reorg-d3-"))]
        if name == "late":
            keep = [s for s in keep if "-age5-" in s["name"] or "-age6-" in s["name"] or "-age0-" in s["name"]]
        if name == "expiry":
            keep = keep[:6]
        if name == "completion":
            keep = [s for s in keep if s["name"] in ("completion-v1", "completion-multi", "completion-reorg")]
        for s in keep:
            s["name"] = "e2e-fam-" + s["name"]
            s["props"] = props
            out.append(s)
    return out


# ---------------------------------------------------------------------------------------------------
# campaign

def cfg_key(cfg):
    return json.dumps(cfg, sort_keys=True)


def _ints(v):
    if isinstance(v, bool):
        return
    if isinstance(v, int):
        yield v
    elif isinstance(v, list):
        for x in v:
            yield from _ints(x)


class E2ECampaign:
    def __init__(self, wd, teosd, jobs=None):
        self.wd = wd
        self.teosd = teosd
        self.jobs = jobs or int(os.environ.get("VERIF_E2E_JOBS", "10"))
        self.tags = []
        self.events = 0
        self.scenarios = 0
        self.traces = 0
        self.acts = {}
        self.tlc_states = 0
        self.wall_rig = 0.0
        self.wall_tlc = 0.0
        self.boots = 0
        self.node_rpc_calls = {}
        self.max_sync_ms = 0
        self.samples = []
        self.distinct = set()
        self.per_scenario = {}
        self.happened = {"blocks_delivered": 0, "blocks_disconnected": 0, "breach_responded": 0, "late_trigger": 0, "late_not_triggered": 0,
                         "completion_refund": 0, "purge": 0, "restart": 0, "catch_up_at_boot": 0, "refused_to_start": 0,
                         "node_submissions": 0, "node_mempool_queries": 0, "bounced_already_in_chain": 0, "hung_or_died": 0}

    # ---- running the rig

    def _run_one(self, idx, sc, label):
        d = os.path.join(self.wd, "%s_%02d" % (label, idx))
        os.makedirs(d, exist_ok=True)
        script = os.path.join(d, "script.json")
        trace = os.path.join(d, "trace.ndjson")
        json.dump({"cfg": sc["cfg"], "scenarios": [sc]}, open(script, "w"))
        t0 = time.time()
        p = subprocess.Popen([os.path.join(BIN, "teosd_rig"), "run", script, trace, os.path.join(d, "wd"), self.teosd],
                             stdout=subprocess.PIPE, stderr=subprocess.PIPE, text=True, start_new_session=True)
        try:
            out, err = p.communicate(timeout=int(os.environ.get("VERIF_E2E_SCENARIO_S", "900")))
        except subprocess.TimeoutExpired:
            self._kill_group(p.pid)
            p.communicate()
            raise ToolError("teosd_rig did not finish scenario %s in time" % sc["name"])
        if p.returncode != 0:
            # the rig normally stops its daemon itself; after an abnormal end the daemon (same process group) may be left
            self._kill_group(p.pid)
            log(err[-3000:])
            raise ToolError("teosd_rig failed on %s (exit %s)" % (script, p.returncode))
        info = json.loads(out.strip().splitlines()[-1])
        info["wall_s"] = time.time() - t0
        return trace, info

    @staticmethod
    def _kill_group(pgid):
        try:
            os.killpg(pgid, signal.SIGKILL)
        except (ProcessLookupError, PermissionError):
            pass

    def run(self, scenarios, label="e2e"):
        t0 = time.time()
        results = [None] * len(scenarios)
        with concurrent.futures.ThreadPoolExecutor(max_workers=max(1, self.jobs)) as ex:
            futs = {ex.submit(self._run_one, i, sc, label): i for i, sc in enumerate(scenarios)}
            for f in concurrent.futures.as_completed(futs):
                results[futs[f]] = f.result()
        self.wall_rig += time.time() - t0
        for (trace, info), sc in zip(results, scenarios):
            self.boots += info["boots"]
            self.max_sync_ms = max(self.max_sync_ms, info["max_sync_ms"])
            for k, v in info["node_rpc_calls"].items():
                self.node_rpc_calls[k] = self.node_rpc_calls.get(k, 0) + v
            self.per_scenario[sc["name"]] = round(info["wall_s"], 1)
        # one TLC run per configuration (the subscription constants differ): traces concatenated, one `end`
        groups = {}
        for (trace, info), sc in zip(results, scenarios):
            groups.setdefault(cfg_key(sc["cfg"]), []).append((trace, sc))
        t0 = time.time()
        with concurrent.futures.ThreadPoolExecutor(max_workers=4) as ex:
            futs = [ex.submit(self._validate, json.loads(k), g, "%s_g%d" % (label, gi)) for gi, (k, g) in enumerate(sorted(groups.items()))]
            for f in futs:
                f.result()
        self.wall_tlc += time.time() - t0

    # ---- validation

    def _validate(self, cfg, group, name):
        merged = os.path.join(self.wd, name + ".ndjson")
        events = []
        starts = []
        with open(merged, "w") as out:
            for trace, sc in group:
                lines = [ln for ln in open(trace).read().splitlines() if ln.strip()]
                if not lines or json.loads(lines[-1]).get("act") != "end":
                    raise ToolError("trace %s is incomplete" % trace)
                for ln in lines[:-1]:
                    e = json.loads(ln)
                    if e["act"] == "Init":
                        starts.append(len(events) + 1)
                    events.append(e)
                    out.write(ln + "\n")
            out.write(json.dumps({"act": "end"}) + "\n")
            events.append({"act": "end"})
        if len(starts) != len(group):
            raise ToolError("trace group %s: %d scenarios but %d Init events" % (name, len(group), len(starts)))
        maxtx = 10
        for e in events:
            for fld in ("l", "key", "pay"):
                v = e.get(fld)
                if isinstance(v, int) and v > maxtx:
                    maxtx = v
            for r in e.get("rpc", []):
                maxtx = max(maxtx, r[1])
            for b in e.get("blocks", []):
                maxtx = max([maxtx] + list(b["keys"]))
            for c in e.get("chain", []):
                maxtx = max([maxtx] + list(c[1]["keys"]))
            if "post" in e:
                for row in e["post"]["appts"]:
                    maxtx = max(maxtx, row[1], row[2], row[3])
                for row in e["post"]["trackers"]:
                    maxtx = max(maxtx, row[1], row[2], row[3])
        consts = {"CACHE_N": 6, "IDX_N": 100, "IRR": 100, "RETRY_N": 6, "SLOT_SIZE": 2048,
                  "SUB_S": cfg["S"], "SUB_D": cfg["D"], "SUB_G": cfg["G"], "MAXU": 2147483647, "MAXTX": maxtx + 9}
        r = tlc("Trace_TowerE2E", "Trace_TowerE2E.cfg", os.path.join(self.wd, "tlc_" + name), workers=1, consts=consts,
                env_extra={"TRACE": merged}, timeout=3600, deque=True, heap="4g")
        tags = None
        extra = None
        consumed = 0
        for ln in r.printed:
            tag, val = unwrap_print(ln)
            if tag == "TRACE-END" and val is not None:
                consumed = int(val[0])
                tags = val[1]
            elif tag == "TRACE-END-EXTRA" and val is not None:
                extra = val[1]
        if not r.ok or tags is None or extra is None or consumed != len(events):
            log(r.out[-3000:])
            raise ToolError("trace %s not consumed to its end (consumed %s of %d)" % (merged, consumed, len(events)))
        self._account(cfg, group, events, starts, tags + extra, merged, r.distinct)

    def _account(self, cfg, group, events, starts, tags, merged, states):
        self.tlc_states += states
        self.traces += 1
        self.events += len(events)
        self.scenarios += len(group)
        hp = self.happened
        prev = None
        for i, e in enumerate(events):
            a = e["act"]
            self.acts[a] = self.acts.get(a, 0) + 1
            if a == "Init":
                prev = None
            if a == "Note" and e.get("what") == "refused_to_start":
                hp["refused_to_start"] += 1
            if a in ("Hung", "Died"):
                hp["hung_or_died"] += 1
            if a == "Boot" and i >= 1 and events[i - 1]["act"] == "Crash":
                hp["restart"] += 1
            if a == "Chain":
                if i >= 1 and events[i - 1]["act"] == "Boot":
                    hp["catch_up_at_boot"] += 1
                hp["blocks_delivered"] += sum(1 for c in e["chain"] if c[0] == "conn")
                hp["blocks_disconnected"] += sum(1 for c in e["chain"] if c[0] == "disc")
            for rr in e.get("rpc", []):
                if rr[0] == "send":
                    hp["node_submissions"] += 1
                    if rr[2] == "res":
                        hp["bounced_already_in_chain"] += 1
                else:
                    hp["node_mempool_queries"] += 1
            if "post" in e and prev is not None and a != "Boot":
                p0, p1 = prev["post"], e["post"]
                k0 = set((t[0], t[1]) for t in p0["trackers"])
                k1 = set((t[0], t[1]) for t in p1["trackers"])
                if a == "Chain":
                    hp["breach_responded"] += len(k1 - k0)
                    hp["purge"] += max(0, len(p0["users"]) - len(p1["users"]))
                    s0 = {u[0]: u[1] for u in p0["users"]}
                    if (k0 - k1) and any(u[1] > s0.get(u[0], u[1]) for u in p1["users"]):
                        hp["completion_refund"] += 1
                elif a == "Add" and e["reply"].get("code") == "ok":
                    if k1 - k0:
                        hp["late_trigger"] += 1
                    elif not e.get("rpc"):
                        hp["late_not_triggered"] += 1
            if "post" in e:
                prev = e
        for sc_i, (trace, sc) in enumerate(group):
            lo = starts[sc_i]
            hi = starts[sc_i + 1] if sc_i + 1 < len(starts) else len(events)
            sig = tuple(sorted(set((e["act"], e.get("reply", {}).get("code", ""), bool(e.get("rpc")), e.get("abort", ""))
                                   for e in events[lo - 1:hi - 1])))
            self.distinct.add((cfg_key(cfg), sig))
        crash_line = {}
        for i_ev, e in enumerate(events, 1):
            if e["act"] == "Crash":
                sc_k = max(i for i, s0 in enumerate(starts) if s0 <= i_ev)
                crash_line.setdefault(sc_k, i_ev)
        for t in tags:
            line, prop, what = t[0], t[1], t[2]
            sc_i = max(i for i, s in enumerate(starts) if s <= line)
            self.tags.append({"prop": prop, "what": what, "line": line, "scenario": group[sc_i][1], "trace": merged,
                              "after_crash": sc_i in crash_line and line > crash_line[sc_i],
                              "event": events[line - 1], "prev": events[line - 2] if line >= 2 else None})
        if len(self.samples) < 2:
            for e in events:
                if e["act"] == "Chain" and e.get("rpc") and len(self.samples) < 2:
                    e2 = dict(e)
                    e2["post"] = {k: v for k, v in e["post"].items() if k in ("users", "appts", "trackers", "lastKnownH")}
                    self.samples.append({"scenario": group[0][1]["name"], "event": e2})

    def stats(self):
        return {
            "teosd_scenarios": self.scenarios,
            "teosd_events_validated": self.events,
            "teosd_events_by_action": self.acts,
            "teosd_starts": self.boots,
            "node_rpc_calls_served": self.node_rpc_calls,
            "behaviour_observed": self.happened,
            "trace_validation_states": self.tlc_states,
            "distinct_scenario_signatures": len(self.distinct),
            "wall_rig_s": round(self.wall_rig, 1),
            "wall_trace_validation_s": round(self.wall_tlc, 1),
            "max_sync_ms": self.max_sync_ms,
            "wall_per_scenario_s": self.per_scenario,
        }
