"""C20 - effective config is CLI over file over defaults; unsafe configs are refused (DESIGN.md section 6, C20).

Oracle: spec/Config.tla (Effective / Accepts / FinalPort, and the start-up sequence checked against them by TLC).
  spec -> impl   MC_Config enumerates the abstract space; every CASE line (sources + expected observations) is executed
                 by harness/cfg_rig on the real from_file / Opt / patch_with_options / verify and compared field by field;
                 the cases of family "bin" are executed on the real teosd binary.
  impl -> spec   cfg_rig draws random sources, records what the real code did, Trace_Config.tla judges every event with
                 the monitors of Config.tla.
This module only moves files between TLC and the rig and classifies the disagreements they report.
"""
import contextlib
import fcntl
import hashlib
import json
import os
import re
import shutil
import subprocess
import time

from common import (BIN, REPLAYS, REPO, WORK, ToolError, Verdict, build, build_repo_bin, log, seed, tlc, unwrap_print,
                    validate_trace, write_evidence)

PID = "C20"
RIG = os.path.join(BIN, "cfg_rig")
SITE_CFG = "teos/src/config.rs"
SITE_MAIN = "teos/src/main.rs"
SITE_TOOL = "teos/src/cli_config.rs"
TEMPLATE = os.path.join(REPO, "teos", "src", "conf_template.toml")
PORTS_LOCK = "/tmp/verif-C20-loopback-ports.lock"   # the binary stage listens on fixed loopback ports: one run at a time
MAX_SIGNATURES = 10      # distinct disagreement signatures turned into VIOLATION lines per stage (all are counted)

DEVIATIONS = ["oneshot_or", "file_over_cli", "port_forced", "auth_any", "auth_partial", "net_any", "verify_before_patch"]


def own_workdir():
    """work/C20/run-<pid>: a directory of this run only.  (common.workdir() empties work/C20, which pulls the files from
    under a second run of this check started meanwhile - seen in practice: traces rewritten while TLC was reading them.)
    Directories of runs that no longer exist are removed here."""
    base = os.path.join(WORK, PID)
    os.makedirs(base, exist_ok=True)
    os.makedirs(REPLAYS, exist_ok=True)
    for d in os.listdir(base):
        p = os.path.join(base, d)
        m = re.match(r"run-(\d+)$", d)
        if m and os.path.exists("/proc/%s" % m.group(1)):
            continue
        if os.path.isdir(p):
            shutil.rmtree(p, ignore_errors=True)
        else:
            try:
                os.remove(p)
            except OSError:
                pass
    wd = os.path.join(base, "run-%d" % os.getpid())
    shutil.rmtree(wd, ignore_errors=True)
    os.makedirs(wd)
    return wd


def tla_set(xs):
    return "{%s}" % ", ".join('"%s"' % x for x in xs)


def consts_for(tier, emit=True, families=None, deviations=()):
    if tier == "quick":
        ctx = ["bare", "full"]
        unk_f, unk_c = ["wrongnet"], ["liquid"]
        binfull = "FALSE"
    else:
        ctx = ["bare", "fileall", "cliall", "full"]
        unk_f = ["wrongnet", "bitcoin", "testnet4", "mainnetnet"]
        unk_c = ["liquid", "regtestnet", "signetnet", "net"]
        binfull = "TRUE"
    fams = families or ["group", "plain", "switch", "fileonly", "portdef", "samevalue", "teoscli", "bin"]
    return {"Deviations": tla_set(deviations), "Families": tla_set(fams), "Contexts": tla_set(ctx),
            "UnknownF": tla_set(unk_f), "UnknownC": tla_set(unk_c), "BinFull": binfull,
            "Emit": "TRUE" if emit else "FALSE"}


def rig(args, timeout=3000):
    p = subprocess.run([RIG] + args, stdout=subprocess.PIPE, stderr=subprocess.PIPE, text=True, timeout=timeout)
    if p.returncode != 0:
        raise ToolError("cfg_rig %s failed: %s" % (args[0], p.stderr[-2000:]))
    try:
        return json.loads(p.stdout.strip().splitlines()[-1])
    except (IndexError, json.JSONDecodeError):
        raise ToolError("cfg_rig %s printed no summary: %s" % (args[0], p.stderr[-2000:]))


def nonempty(x):
    return isinstance(x, dict) and len(x) > 0


# ---------------------------------------------------------------------------------------------------------------------
# stage 1: TLC checks the specification and enumerates the cases

def enumerate_cases(wd, tier, stats):
    meta_path = os.path.join(wd, "meta.json")
    cases_path = os.path.join(wd, "cases.ndjson")
    bin_path = os.path.join(wd, "bin_cases.ndjson")
    out_c = open(cases_path, "w")
    out_b = open(bin_path, "w")
    seen = set()
    fams = {}
    meta = []
    counts = {"lines": 0, "nontrivial": 0, "bad": 0, "states": 0}
    samples = {}

    def on_line(line):
        tag, val = unwrap_print(line)
        if tag == "META" and val and val[1] is not None:
            meta.append(val[1])
            return
        if tag != "CASE":
            return
        if not val or val[1] is None:
            counts["bad"] += 1
            return
        c = val[1]
        counts["lines"] += 1
        counts["states"] += 4 if c["prog"] == "teosd" else 3     # start, loaded, patched, running|refused / .., ready
        fams[c["fam"]] = fams.get(c["fam"], 0) + 1
        (out_b if c["fam"] == "bin" else out_c).write(json.dumps(c) + "\n")
        key = hashlib.blake2b(json.dumps([c["prog"], c["file"], c["cli"]], sort_keys=True).encode(),
                              digest_size=12).digest()
        if key not in seen:
            seen.add(key)
            if nonempty(c["file"]) or nonempty(c["cli"]):
                counts["nontrivial"] += 1
        if c["fam"] not in samples and fams[c["fam"]] == 97:
            samples[c["fam"]] = c

    r = tlc("MC_Config", "MC_Config.cfg", wd, workers=4, consts=consts_for(tier), want_lines=on_line, timeout=3000)
    out_c.close()
    out_b.close()
    if not r.ok:
        raise ToolError("the specification violates its own invariant %s (Config.tla's start-up sequence does not implement "
                        "the property)" % r.violated)
    if len(meta) != 1 or counts["bad"]:
        raise ToolError("could not read META / CASE lines from TLC (%d meta, %d unreadable)" % (len(meta), counts["bad"]))
    # every case is printed when its start-up sequence ends: one terminal state per initial state
    if counts["states"] != r.distinct:
        raise ToolError("TLC printed %d cases accounting for %d states, it found %d" %
                        (counts["lines"], counts["states"], r.distinct))
    json.dump(meta[0], open(meta_path, "w"))
    stats["states"] += r.distinct
    stats["transitions"] += r.generated
    stats["tlc_wall_s"] = round(r.wall, 1)
    stats["families"] = fams
    stats["cases_enumerated"] = counts["lines"]
    stats["distinct_sources"] = len(seen)
    stats["distinct_nontrivial"] = counts["nontrivial"]
    for f, c in sorted(samples.items()):
        stats["samples"].append({"direction": "spec->impl", "case": c})
    return meta[0], meta_path, cases_path, bin_path


# ---------------------------------------------------------------------------------------------------------------------
# stage 2: the documentation of the tree under test against the specification's table of documented defaults

def parse_template(path):
    text = open(path).read()
    try:
        import tomllib
        return tomllib.loads(text), text
    except ImportError:
        out = {}
        for ln in text.splitlines():
            ln = ln.split("#")[0].strip()
            if "=" in ln:
                k, v = [x.strip() for x in ln.split("=", 1)]
                out[k] = json.loads(v)
        return out, text


def check_documentation(meta, verdict, stats):
    try:
        tpl, text = parse_template(TEMPLATE)
    except Exception as e:  # noqa: BLE001 - an unreadable template is a finding about the documentation, not a tool error
        verdict.disagree("doc-template:unreadable", "teos/src/conf_template.toml", "documented-default",
                         "conf_template.toml cannot be read as TOML: %s" % e, {"mode": "doc", "error": str(e)})
        return None, None
    creds = ("btc_rpc_user", "btc_rpc_password", "btc_rpc_cookie")
    n = 0
    for o, v in meta["defaults"].items():
        if o in creds or o not in tpl:
            continue     # placeholders / not in the template (force_update)
        n += 1
        if tpl[o] != v or type(tpl[o]) is not type(v):
            verdict.disagree("doc-template:" + o, "teos/src/conf_template.toml", "documented-default",
                             "conf_template.toml documents %s = %r, Config.tla's table of documented defaults says %r"
                             % (o, tpl[o], v), {"mode": "doc", "option": o, "template": tpl[o], "specification": v})
    if "btc_rpc_port" in tpl:
        n += 1
        want = meta["net_default_port"].get(tpl.get("btc_network", ""), None)
        if tpl["btc_rpc_port"] != want:
            verdict.disagree("doc-template:btc_rpc_port", "teos/src/conf_template.toml", "documented-default",
                             "conf_template.toml shows btc_rpc_port = %r for network %r; the network default is %r"
                             % (tpl["btc_rpc_port"], tpl.get("btc_network"), want), {"mode": "doc", "template": tpl})
    stats["template_entries_checked"] = n
    stats["tool_defaults"] = meta.get("tool_defaults", {})
    stats["template_keys_unknown_to_spec"] = sorted(k for k in tpl if k not in meta["opts"])
    return tpl, text


# ---------------------------------------------------------------------------------------------------------------------
# stages 3 and 4: spec -> impl

def classify_rig(res, verdict, site, scenario_prefix, mode, meta_path):
    """Turns the rig's mismatch signatures into disagreements (one per distinct signature, capped)."""
    done = set()
    for m in res["first"]:
        sig = "+".join(m["differs"])
        key = (m["fam"], sig)
        if key in done:
            continue
        if len(done) >= MAX_SIGNATURES:
            break
        done.add(key)
        verdict.disagree(sig, SITE_TOOL if m["fam"] == "teoscli" and mode == "cases" else site,
                         "%s:%s" % (scenario_prefix, m["fam"]),
                         "%s: the real code disagrees with Config.tla on [%s] for file=%s cli=%s (family %s, case line %d; "
                         "%d cases with this signature)" % (mode, sig, json.dumps(m["file"]), json.dumps(m["cli"]), m["fam"],
                                                            m["line"], res["signatures"].get("%s|%s" % (m["fam"], sig), 0)),
                         {"mode": mode, "case": {k: m.get(k) for k in ("fam", "ctx", "prog", "file", "cli", "exp")}, "got": m["got"],
                          "differs": m["differs"]})


def run_cases(wd, meta_path, cases_path, verdict, stats):
    res = rig(["cases", meta_path, cases_path, wd])
    n_expected = stats["cases_enumerated"] - stats["families"].get("bin", 0)
    if res["cases"] != n_expected:
        raise ToolError("cfg_rig executed %d of %d cases" % (res["cases"], n_expected))
    for d in res["default_diffs"]:
        tool = d["option"].startswith("teos-cli:")
        verdict.disagree("default:" + d["option"], (SITE_TOOL if tool else SITE_CFG) + "::Default", "documented-default",
                         "Config::default() has %s = %r, the documented default is %r" % (d["option"], d["code"], d["documented"]),
                         {"mode": "default", "diff": d,
                          "case": {"prog": "teos-cli" if tool else "teosd", "file": {}, "cli": {}}})
    classify_rig(res, verdict, SITE_CFG, "enumerated", "cases", meta_path)
    # informational only: the "[default: X]" remarks of the -h texts against the documented defaults used as oracle
    meta = json.load(open(meta_path))
    notes = []
    for prog, table in (("teosd", meta["defaults"]), ("teos-cli", meta["tool_defaults"])):
        for o, h in sorted((res.get("help_defaults") or {}).get(prog, {}).items()):
            want = meta["net_default_port"]["mainnet"] if o == "btc_rpc_port" else table.get(o)
            if want is not None and str(want) != h:
                notes.append("%s -h says %s defaults to %s; the documented default used as oracle is %s" % (prog, o, h, want))
    stats["help_notes"] = notes
    stats["inproc"] = {k: res.get(k) for k in ("cases", "comparisons", "running", "refused", "tool_ready",
                                               "mismatching_cases", "signatures", "unmodelled_fields")}
    return res


@contextlib.contextmanager
def ports_lock(stats):
    """bitcoind's default ports, the tower's default RPC port and the explicit ones of MC_Config are machine-wide:
    concurrent runs of the binary stages take turns (the rig additionally ignores connections that carry another run's
    credentials marker)."""
    with open(PORTS_LOCK, "a") as lk:
        t_wait = time.time()
        while True:
            try:
                fcntl.flock(lk, fcntl.LOCK_EX | fcntl.LOCK_NB)
                break
            except OSError:
                if time.time() - t_wait > 2400:
                    raise ToolError("another run holds %s for more than 40 minutes" % PORTS_LOCK)
                time.sleep(1.0)
        stats["ports_lock_wait_s"] = stats.get("ports_lock_wait_s", 0) + round(time.time() - t_wait, 1)
        yield


def run_teosd(wd, teosd, meta_path, bin_path, verdict, stats):
    with ports_lock(stats):
        res = rig(["teosd", teosd, meta_path, bin_path, wd])
    if res["cases"] != stats["families"].get("bin", 0):
        raise ToolError("cfg_rig ran %d of %d binary cases" % (res["cases"], stats["families"].get("bin", 0)))
    if res["running"] and res["unobservable"] == res["running"]:
        raise ToolError("no listener could be bound where teosd was expected to look for bitcoind: %s" % res["unbound"][:6])
    classify_rig(res, verdict, SITE_MAIN, "teosd-binary", "teosd", meta_path)
    stats["teosd"] = {k: res.get(k) for k in ("cases", "comparisons", "running", "refused", "mismatching_cases", "signatures",
                                          "process_runs", "unobservable", "unbound", "listeners",
                                          "reported_values_compared", "foreign_connections_ignored")}
    stats["teosd"]["ports_lock_wait_s"] = stats.get("ports_lock_wait_s", 0)
    return res


def run_toolbin(wd, teos_cli, meta_path, cases_path, verdict, stats):
    """The teos-cli cases once more, on the real binary (cli.rs): where does it look for the tower."""
    with ports_lock(stats):
        res = rig(["toolbin", teos_cli, meta_path, cases_path, wd])
    if res["cases"] != stats["families"].get("teoscli", 0):
        raise ToolError("cfg_rig ran %d of %d teos-cli cases" % (res["cases"], stats["families"].get("teoscli", 0)))
    if res["cases"] and res["unobservable"] == res["cases"]:
        raise ToolError("no listener could be bound where teos-cli was expected to look for the tower: %s" % res["unbound"][:6])
    classify_rig(res, verdict, "teos/src/cli.rs", "teos-cli-binary", "toolbin", meta_path)
    stats["teos_cli_binary"] = {k: res.get(k) for k in ("cases", "comparisons", "mismatching_cases", "signatures",
                                                        "unobservable", "unbound", "listeners")}
    return res


# ---------------------------------------------------------------------------------------------------------------------
# stage 5: impl -> spec

def judge_trace(wd, tr, verdict, stats, scenario):
    with open(tr, "a") as f:
        f.write('{"ev":"end"}\n')
    tags, consumed, r = validate_trace("Trace_Config", "Trace_Config.cfg", tr, wd)
    stats["traces"] += 1
    stats["events"] += consumed - 1
    stats["states"] += r.distinct
    stats["transitions"] += r.generated
    if tags:
        with open(tr) as f:
            lines = f.readlines()
        by_kind = {}
        for t in tags:
            by_kind.setdefault((t[1], t[2]), []).append(t[0])
        for (owner, what), where in sorted(by_kind.items())[:MAX_SIGNATURES]:
            ev = json.loads(lines[where[0] - 1])
            if owner != PID:
                raise ToolError("trace %s line %d: %s" % (tr, where[0], what))
            verdict.disagree(what, SITE_CFG, scenario,
                             "trace %s line %d (%d events): %s disagrees with Config.tla for file=%s cli=%s" %
                             (tr, where[0], len(where), what, json.dumps(ev.get("file")), json.dumps(ev.get("cli"))),
                             {"mode": "trace", "case": {"prog": ev.get("prog", "teosd"), "file": ev.get("file"),
                                                        "cli": ev.get("cli")}, "event": ev,
                              "tag": what})
    return tags


def random_traces(wd, meta_path, plan, verdict, stats):
    sd = seed()
    for i, n in enumerate(plan):
        tr = os.path.join(wd, "trace_%d.ndjson" % i)
        res = rig(["random", meta_path, str(n), str(sd * 1000 + i), tr, wd])
        stats["random_running"] += res["running"]
        stats["random_refused"] += res["refused"]
        stats["random_tool"] += res.get("tool_ready", 0)
        stats["random_aborts"] += res["aborts"]
        keys = set()
        with open(tr) as f:
            for k, ln in enumerate(f):
                ev = json.loads(ln)
                keys.add(hashlib.blake2b(json.dumps([ev.get("prog"), ev.get("file"), ev.get("cli")], sort_keys=True).encode(),
                                         digest_size=12).digest())
                if i == 0 and k == 1:
                    stats["samples"].append({"direction": "impl->spec", "event": ev})
        stats["random_distinct"] += len(keys)
        judge_trace(wd, tr, verdict, stats, "random")


def template_trace(wd, meta_path, tpl, text, verdict, stats):
    """The documented template used verbatim as teos.toml, alone and repaired to one authentication method."""
    if tpl is None:
        return
    inp = os.path.join(wd, "template_in.ndjson")
    only = {k: v for k, v in tpl.items() if k != "btc_rpc_cookie"}
    with open(inp, "w") as f:
        f.write(json.dumps({"prog": "teosd", "file": tpl, "cli": {}, "file_text": text}) + "\n")
        f.write(json.dumps({"prog": "teosd", "file": only, "cli": {}}) + "\n")
        f.write(json.dumps({"prog": "teosd", "file": tpl, "cli": {"btc_network": "regtest", "btc_rpc_port": 18999},
                            "file_text": text}) + "\n")
        f.write(json.dumps({"prog": "teos-cli", "file": tpl, "cli": {}, "file_text": text}) + "\n")
    tr = os.path.join(wd, "trace_template.ndjson")
    rig(["rerun", meta_path, inp, tr, wd])
    judge_trace(wd, tr, verdict, stats, "template")
    # teos-cli's own documented defaults (teos-cli -h) live in cli_config.rs next to the code; the shared template
    # documents the daemon's.  Where the two documents disagree on a setting both programs have, say so in the evidence.
    stats["documentation_notes"] = [
        "%s: conf_template.toml says %r, teos-cli -h says %r" % (o, tpl[o], v)
        for o, v in sorted(stats.get("tool_defaults", {}).items()) if o in tpl and tpl[o] != v]


def binding_selftest(wd, cases_path):
    """Independent of the code under test: events built from the specification's own expectations must be accepted by
    Trace_Config without a tag, and a corrupted setting / port / verdict must be tagged exactly where it was corrupted
    (otherwise the validator is blind)."""
    picked = []
    want_kinds = [("group", True), ("group", False), ("plain", True), ("switch", True), ("switch", False)]
    with open(cases_path) as f:
        for ln in f:
            c = json.loads(ln)
            key = (c["fam"], c["exp"]["accept"])
            if key in want_kinds and c["exp"]["port_explicit"] is False:
                want_kinds.remove(key)
                picked.append(c)
            if not want_kinds:
                break
    if len(picked) < 4:
        raise ToolError("binding self-test: not enough cases to build a fixture from")

    def event(c):
        e = c["exp"]
        patched = dict(e["settings"], btc_rpc_port=e["port"])
        final = dict(patched)
        if e["accept"]:
            final["btc_rpc_port"] = e["final_port"]
            final["btc_network"] = sorted(e["final_network"])[0]
        file = c["file"] if isinstance(c["file"], dict) else {}
        cli = c["cli"] if isinstance(c["cli"], dict) else {}
        return {"ev": "case", "prog": c["prog"], "file": file, "cli": cli,
                "obs": {"patched": patched, "verdict": "running" if e["accept"] else "refused", "final": final}}

    clean = [event(c) for c in picked]
    tr = os.path.join(wd, "selftest_clean.ndjson")
    open(tr, "w").write("\n".join(json.dumps(e) for e in clean + [{"ev": "end"}]) + "\n")
    tags, _, _ = validate_trace("Trace_Config", "Trace_Config.cfg", tr, wd)
    if tags:
        raise ToolError("binding self-test: events built from Config.tla's own expectations are tagged: %r" % tags[:5])
    bad = json.loads(json.dumps(clean))
    k = next(i for i, e in enumerate(bad) if e["obs"]["verdict"] == "running")
    j = next(i for i, e in enumerate(bad) if e["obs"]["verdict"] == "refused")
    bad[k]["obs"]["patched"]["api_port"] += 1
    bad[k]["obs"]["final"]["btc_rpc_port"] += 1
    bad[k]["obs"]["final"]["overwrite_key"] = not bad[k]["obs"]["final"]["overwrite_key"]
    bad[j]["obs"]["verdict"] = "running"
    tr = os.path.join(wd, "selftest_corrupt.ndjson")
    open(tr, "w").write("\n".join(json.dumps(e) for e in bad + [{"ev": "end"}]) + "\n")
    tags, _, _ = validate_trace("Trace_Config", "Trace_Config.cfg", tr, wd)
    got = {(t[0], t[2]) for t in tags}
    want = {(k + 1, "patched:api_port"), (k + 1, "final:btc_rpc_port"), (k + 1, "final:overwrite_key"),
            (j + 1, "accepted-unsafe")}
    if got != want:
        raise ToolError("binding self-test failed: corrupted trace produced %r, expected %r" % (sorted(got), sorted(want)))
    return len(want)


# ---------------------------------------------------------------------------------------------------------------------
# stage 6 (thorough): every named deviation of the start-up sequence must be caught by an invariant

def deviation_runs(wd, stats):
    out = {}
    for d in DEVIATIONS:
        r = tlc("MC_Config", "MC_Config.cfg", wd, workers=4, timeout=1800,
                consts=consts_for("quick", emit=False, families=["group", "switch"], deviations=[d]))
        if r.ok or not r.violated:
            raise ToolError("deviation %s of the start-up sequence violates no invariant of Config.tla (vacuous invariants?)" % d)
        out[d] = r.violated
    stats["deviations_caught_by"] = out


# ---------------------------------------------------------------------------------------------------------------------

def replay_file(wd, path, meta_path, teosd, teos_cli, verdict, stats):
    """Re-executes the sources of a replay file on the current tree and judges them again."""
    data = json.load(open(path))
    rp = data.get("replay", data)
    mode = rp.get("mode", "cases")
    if mode == "toolbin":
        bp = os.path.join(wd, "replay_tool.ndjson")
        open(bp, "w").write(json.dumps(rp["case"]) + "\n")
        stats["families"] = {"teoscli": 1}
        run_toolbin(wd, teos_cli, meta_path, bp, verdict, stats)
    elif mode == "doc":
        check_documentation(json.load(open(meta_path)), verdict, stats)
    elif mode == "teosd":
        bp = os.path.join(wd, "replay_bin.ndjson")
        open(bp, "w").write(json.dumps(rp["case"]) + "\n")
        stats["families"] = {"bin": 1}
        run_teosd(wd, teosd, meta_path, bp, verdict, stats)
    elif "case" in rp:
        inp = os.path.join(wd, "replay_in.ndjson")
        open(inp, "w").write(json.dumps({"prog": rp["case"].get("prog", "teosd"), "file": rp["case"]["file"],
                                         "cli": rp["case"]["cli"]}) + "\n")
        tr = os.path.join(wd, "trace_replay.ndjson")
        rig(["rerun", meta_path, inp, tr, wd])
        judge_trace(wd, tr, verdict, stats, "replay")
    else:
        raise ToolError("replay file %s has no sources to re-execute (mode %s)" % (path, mode))


def main(tier, replay=None):
    t0 = time.time()
    wd = own_workdir()
    build(["cfg_rig"])
    teosd = build_repo_bin("teos", "teosd")
    teos_cli = build_repo_bin("teos", "teos-cli")
    verdict = Verdict(PID)
    stats = {"states": 0, "transitions": 0, "samples": [], "traces": 0, "events": 0, "random_running": 0,
             "random_refused": 0, "random_tool": 0, "random_aborts": 0, "random_distinct": 0}

    if replay:
        r = tlc("MC_Config", "MC_Config.cfg", wd, workers=2, timeout=600,
                consts=consts_for("quick", families=["fileonly"]))
        metas = [unwrap_print(ln)[1][1] for ln in r.printed if ln.startswith('<<"META"')]
        if not r.ok or not metas:
            raise ToolError("cannot obtain META from TLC")
        meta_path = os.path.join(wd, "meta.json")
        json.dump(metas[0], open(meta_path, "w"))
        replay_file(wd, replay, meta_path, teosd, teos_cli, verdict, stats)
        nviol = verdict.finish()
        log("replay of %s: %s" % (replay, "still disagrees" if nviol else "no disagreement"))
        return 1 if nviol else 0

    meta, meta_path, cases_path, bin_path = enumerate_cases(wd, tier, stats)
    stats["selftest_corruptions_detected"] = binding_selftest(wd, cases_path)
    tpl, text = check_documentation(meta, verdict, stats)
    run_cases(wd, meta_path, cases_path, verdict, stats)
    # A tool problem in a later stage must not hide what an earlier stage has found: it is reported (exit 2) only when
    # no stage found a disagreement.
    deferred = []
    stages = [
        ("teosd binary", lambda: run_teosd(wd, teosd, meta_path, bin_path, verdict, stats)),
        ("teos-cli binary", lambda: run_toolbin(wd, teos_cli, meta_path, cases_path, verdict, stats)),
        ("template", lambda: template_trace(wd, meta_path, tpl, text, verdict, stats)),
        ("random traces", lambda: random_traces(wd, meta_path, [2000, 2000] if tier == "quick" else [5000] * 6, verdict,
                                                stats)),
    ]
    if tier == "thorough":
        stages.append(("deviations", lambda: deviation_runs(wd, stats)))
    for name, fn in stages:
        try:
            fn()
        except ToolError as e:
            log("stage '%s' could not be completed: %s" % (name, e))
            deferred.append("%s: %s" % (name, e))
    if deferred and not verdict.violations:
        raise ToolError("; ".join(deferred))
    stats.setdefault("teosd", {"cases": 0, "skipped": deferred})
    stats.setdefault("teos_cli_binary", {"cases": 0, "skipped": deferred})

    nviol = verdict.finish()
    executed = stats["inproc"]["cases"] + stats["teosd"]["cases"] + stats["teos_cli_binary"]["cases"]
    write_evidence(PID, tier, "model_checking", {
        "states": stats["states"],
        "transitions": stats["transitions"],
        "traces_validated_against_impl": executed + stats["traces"],
        "evaluations": executed + stats["events"],
        "distinct_nontrivial": stats["distinct_nontrivial"],
        "rule": "spec->impl: TLC enumerates MC_Config's families exhaustively (group: network absent/4 names/unknown names x "
                "file/CLI, port present/absent x file/CLI, every subset of the 3 credential fields x file/CLI; plain: every "
                "subset of the 7 value options x file/CLI; switch: absent/false/true in file x absent/given on CLI for the 3 "
                "switches and the 2 one-shot switches; fileonly: every subset of the 7 file-only options; portdef: an explicit port "
                "equal to each network's default x each network, in either source; samevalue: the documented default given "
                "explicitly on the command line over a different file value, every non-empty subset of the 7 value options; teoscli: teos-cli's two settings present/absent "
                "in file x on its command line), each family in "
                "every context; every case is executed on the real from_file/Opt/patch_with_options/verify (family bin: on "
                "the real teosd binary) and compared with the expectation printed by TLC. distinct = distinct (file, cli) "
                "pairs (hash of the JSON of both sources), non-trivial = at least one option present in a source; counted "
                "over the enumerated cases only (random events are counted separately in random_distinct_sources). "
                "impl->spec: random sources executed and judged by Trace_Config.tla.",
        "exhaustive": True,
        "cases_enumerated": stats["cases_enumerated"],
        "cases_per_family": stats["families"],
        "distinct_sources": stats["distinct_sources"],
        "tlc_wall_s": stats["tlc_wall_s"],
        "inproc": stats["inproc"],
        "teosd_binary": stats["teosd"],
        "teos_cli_binary": stats["teos_cli_binary"],
        "random_traces": stats["traces"],
        "random_trace_events": stats["events"],
        "random_distinct_sources": stats["random_distinct"],
        "random_running": stats["random_running"],
        "random_refused": stats["random_refused"],
        "random_teos_cli": stats["random_tool"],
        "random_aborts": stats["random_aborts"],
        "template_entries_checked": stats.get("template_entries_checked", 0),
        "template_keys_unknown_to_spec": stats.get("template_keys_unknown_to_spec", []),
        "documentation_notes": stats.get("documentation_notes", []) + stats.get("help_notes", []),
        "selftest_corruptions_detected": stats["selftest_corruptions_detected"],
        "deviations_caught_by": stats.get("deviations_caught_by", {}),
        "stages_not_completed": deferred,
        "known_findings_hit": verdict.known_hits,
        "samples": stats["samples"][:6],
    }, [
        "documented defaults = teos/src/conf_template.toml as transcribed in Config.tla (DocDefault); the template of the tree "
        "under test is compared with that table on every run; credentials in the template are placeholders (documented "
        "default: not configured); force_update is not in the template (switch, off)",
        "authentication: accepted iff (user and password and no cookie) or (cookie and neither user nor password), as "
        "documented in conf_template.toml ('any other combination would be rejected')",
        "unspecified corners left unconstrained: bitcoind's short network names main/test as input, a file that does not "
        "parse, an explicit port 0, empty strings as explicit values, the text of error messages, btc_rpc_port before "
        "verification when no port was given",
        "after verification the network may be carried under any of its names (mainnet/main, testnet/test)",
        "teosd binary: observed through exit status, the TCP connection it opens for bitcoind (address, port, Authorization "
        "header) on loopback listeners, the directories it creates, the number of tower keys after two starts and its "
        "'Custom config arg' report; settings that only act after bitcoind was reached (API/RPC binds, subscription "
        "parameters, force_update) are observed in-process and through that report only; teos-cli binary: observed "
        "through the TCP connection it opens for the tower (address, port)",
    ], time.time() - t0, nviol)
    if not nviol:
        shutil.rmtree(wd, ignore_errors=True)    # (a few hundred MB of case lines; kept when there is something to look at)
    return 1 if nviol else 0
