"""Scenario generators, campaign runner and tag classification for the tower properties
(C01, C02, C04, C06, C07, C08, C09; also used by C03, C11, C12).  See DESIGN.md sections 4 and 6.

A scenario is {"name", "cfg", "ops"}; ops are executed by harness/tower_rig on the real tower components; the recorded
trace is validated by spec/Trace_Tower.tla.  Tags are [line, property, what].
"""
import json
import os
import random
import subprocess
import time

from common import BIN, SPEC, ToolError, log, tlc, unwrap_print

CFG_A = {"S": 10, "D": 50, "G": 5, "cache": 6, "idx": 100, "h0": 110}
CFG_B = {"S": 3, "D": 4, "G": 2, "cache": 6, "idx": 100, "h0": 104}
CFG_C = {"S": 1, "D": 1, "G": 0, "cache": 6, "idx": 100, "h0": 101}
CFG_D = {"S": 2, "D": 0, "G": 1, "cache": 6, "idx": 100, "h0": 102}
CFG_E = {"S": 0, "D": 3, "G": 0, "cache": 6, "idx": 100, "h0": 100}
CFG_F = {"S": 4, "D": 6, "G": 3, "cache": 6, "idx": 100, "h0": 120}
CFG_L = {"S": 12, "D": 400, "G": 5, "cache": 6, "idx": 100, "h0": 105}
# slot counters near u32::MAX: every balance is a multiple of 2^20 and is logged divided by it (TLC integers are 32 bit)
CFG_BIG = {"S": 2048, "scale": 1048576, "D": 5, "G": 2, "cache": 6, "idx": 100, "h0": 101}
CFG_BIG2 = {"S": 1365, "scale": 1048576, "D": 3, "G": 1, "cache": 6, "idx": 100, "h0": 101}

SIG_BAD = ["other_msg", "unregistered", "truncated", "bitflip", "not_zbase32", "empty"]


def D(i):
    return 10 * i


def P(i, v=1):
    return 10 * i + v


def valid(i, v=1):
    return {"kind": "valid", "d": D(i), "p": P(i, v)}


def garbled(n):
    return {"kind": "garbled", "size": n}


def add(u, i, blob=None, sig="valid", tsd=42, l=None):
    return {"op": "add", "u": u, "l": D(i) if l is None else l, "blob": blob if blob is not None else valid(i), "sig": sig,
            "tsd": tsd}


def get(u, i, sig="valid"):
    return {"op": "get", "u": u, "l": D(i), "sig": sig}


def sub(u, sig="valid"):
    return {"op": "sub", "u": u, "sig": sig}


def reg(u):
    return {"op": "register", "u": u}


def mine(txs=(), poll=True):
    return {"op": "mine", "txs": list(txs), "poll": poll}


def ff(n, poll="each"):
    return {"op": "ff", "n": n, "poll": poll}


POLL = {"op": "poll"}
BOOT = [{"op": "boot"}, {"op": "poll"}]


def probes(users, disputes):
    ops = []
    for u in users:
        ops.append(sub(u))
        for i in disputes:
            ops.append(get(u, i))
    return ops


def scen(name, cfg, ops):
    return {"name": name, "cfg": cfg, "ops": BOOT + ops}


# ---------------------------------------------------------------------------------------------------
# targeted families

def fam_breach(rng, cfg=CFG_A):
    """C01/C02: appointments of several kinds, blocks with several breaches, same-block penalty, verdicts."""
    out = []
    kinds = ["valid", "valid_big", "garbled", "wrongkey", "trailing"]
    for variant in range(12):
        ops = [reg(1), reg(2)]
        known = []
        nd = rng.choice([2, 3, 4])
        for i in range(1, nd + 1):
            for u in (1, 2):
                if rng.random() < 0.75:
                    k = rng.choice(kinds)
                    if k == "valid":
                        b = valid(i, rng.choice([1, 6, 7]))
                    elif k == "valid_big":
                        b = valid(i, rng.choice([2, 3, 4, 5]))
                    elif k == "garbled":
                        b = garbled(rng.choice([1, 17, 300, 2048, 2049, 5000]))
                    elif k == "trailing":
                        # authenticates under the dispute id, but the plaintext is a penalty followed by extra bytes / cut short
                        b = {"kind": rng.choice(["trailing", "truncated"]), "d": D(i), "p": P(i, 1), "extra": rng.choice([1, 9]), "cut": rng.choice([1, 4])}
                    else:
                        j = i % nd + 1
                        b = valid(j, 1)   # encrypted under another dispute's id: does not decrypt under this locator
                    ops.append(add(u, i, b))
                    known.append((u, i))
                    if rng.random() < 0.25:   # update before the trigger
                        ops.append(add(u, i, valid(i, rng.choice([1, 2, 6, 8])), tsd=rng.choice([1, 42, 1000])))
        ops += probes([1, 2], range(1, nd + 1))
        # node verdict overrides
        for i in range(1, nd + 1):
            r = rng.random()
            if r < 0.15:
                ops.append({"op": "reject", "tx": P(i, 1), "code": rng.choice([-26, -25, -22, -1])})
            elif r < 0.25:
                ops.append({"op": "verdict", "tx": P(i, 1), "v": "res"})
        # blocks: several breaches per block, dispute and penalty in the same block
        order = list(range(1, nd + 1))
        rng.shuffle(order)
        while order:
            take = order[:rng.choice([1, 1, 2, 3])]
            order = order[len(take):]
            txs = [D(i) for i in take]
            if rng.random() < 0.3:
                txs.append(P(take[0], 1))          # penalty confirmed in the same block as its dispute
            ops.append(mine(txs))
            ops += probes([1, 2], range(1, nd + 1))
            if rng.random() < 0.4:
                ops.append(ff(rng.choice([1, 2]), "each"))
        ops.append(ff(rng.choice([1, 7]), "each"))
        ops += probes([1, 2], range(1, nd + 1))
        out.append(scen("breach-%d" % variant, cfg, ops))
    return out


def fam_shared(rng, cfg=CFG_A):
    """C06: several users hold the SAME locator with different blobs (other penalty, other size, undecryptable, encrypted under
    another id), in every submission order; the dispute is then confirmed (or is already in the cache when the last one arrives);
    everybody reads their own appointment back."""
    out = []
    blobs = {"v1": lambda i: valid(i, 1), "v6": lambda i: valid(i, 6), "big": lambda i: valid(i, 3),
             "garbled": lambda i: garbled(300), "wrongkey": lambda i: valid(i % 3 + 1, 1),
             "trailing": lambda i: {"kind": "trailing", "d": D(i), "p": P(i, 1), "extra": 3, "cut": 1}}
    pairs = [("v1", "v6"), ("v6", "v1"), ("garbled", "v1"), ("v1", "garbled"), ("wrongkey", "v6"), ("big", "trailing"),
             ("trailing", "v1"), ("v1", "v1")]
    for n, (b1, b2) in enumerate(pairs):
        for late in (False, True):
            ops = [reg(1), reg(2), reg(3), add(1, 1, blobs[b1](1))]
            if not late:
                ops += [add(2, 1, blobs[b2](1)), add(3, 1, valid(1, 7) if n % 2 else garbled(17)), add(3, 2, valid(2, 1))]
                ops += probes([1, 2, 3], [1])
                ops += [mine([D(1)])]
            else:
                ops += [mine([D(1)]), mine([]) if n % 2 else mine([D(2)]), add(2, 1, blobs[b2](1)), add(3, 1, valid(1, 7))]
            ops += probes([1, 2, 3], [1, 2]) + [sub(1), sub(2), sub(3), mine([P(1, 1)] if n % 3 == 0 else []), mine([])]
            ops += probes([1, 2, 3], [1])
            out.append(scen("shared-%s-%s-%s" % (b1, b2, "late" if late else "held"), cfg, ops))
    return out


def fam_late(rng, cfg=CFG_A):
    """C01: appointment arriving after its dispute was confirmed: cache window boundary (ages 0,1,5,6,7)."""
    out = []
    for age in (0, 1, 4, 5, 6, 7):
        for kind in ("valid", "garbled", "rejected", "in_mempool", "resolved") + (("trailing",) if age in (0, 5) else ()):
            ops = [reg(1), reg(2), mine([D(1)])]
            if age:
                ops.append(ff(age, "each" if age < 3 else "end"))
            if kind == "rejected":
                ops.append({"op": "reject", "tx": P(1), "code": -26})
            if kind == "in_mempool":
                ops.append({"op": "mempool_add", "tx": P(1)})
            if kind == "resolved":
                ops.append({"op": "verdict", "tx": P(1), "v": "res"})
            ops.append(add(1, 1, garbled(400) if kind == "garbled" else
                           ({"kind": "trailing", "d": D(1), "p": P(1), "extra": 5} if kind == "trailing" else valid(1))))
            ops += [get(1, 1), sub(1)]
            # a second user with the same locator afterwards
            ops.append(add(2, 1, valid(1, 1)))
            ops += [get(2, 1), sub(2), mine([P(1)] if kind in ("valid", "in_mempool") else []), get(1, 1), get(2, 1)]
            out.append(scen("late-age%d-%s" % (age, kind), cfg, ops))
    # the node has already reorganised the dispute's block away (dispute back in its mempool) but the tower has not polled yet
    for depth in (1, 2):
        for then in ("poll", "nopoll"):
            ops = [reg(1), reg(2), mine([]), mine([D(1)]), {"op": "reorg", "depth": depth, "blocks": [[] for _ in range(depth + 1)], "to_mempool": True},
                   add(1, 1, valid(1)), get(1, 1), add(2, 1, valid(1, 2)), get(2, 1)]
            if then == "poll":
                ops += [POLL, get(1, 1), get(2, 1), mine([D(1)]), get(1, 1), get(2, 1)]
            out.append(scen("late-nodereorg-d%d-%s" % (depth, then), cfg, ops))
    return out


def fam_reorg(rng, cfg=CFG_A, deep=False):
    """C04: reorgs of several depths placed at / below / above the confirming block; replacement chains that re-confirm
    the penalty at once or later, never, or confirm a conflicting penalty; dispute gone for good."""
    out = []
    depths = [1, 2, 3, 7] + ([20, 100] if deep else [])
    for depth in depths:
        for pos in ("tip", "buried", "above"):
            for repl in (("never",) if pos == "above" else ("reconfirm_first", "reconfirm_same", "reconfirm_later", "never", "conflict", "dispute_gone")):
                ops = [reg(1), reg(2), add(1, 1, valid(1, 1)), add(2, 1, valid(1, 2)), add(1, 2, valid(2, 1)),
                       mine([D(1)]), get(1, 1), get(2, 1), mine([P(1, 1)]), get(1, 1)]
                if pos == "tip":
                    above = 0
                    rdepth = depth
                elif pos == "buried":
                    above = 2
                    rdepth = depth + above
                else:
                    above = depth
                    rdepth = depth
                if rdepth > cfg["idx"]:
                    continue      # reorgs deeper than the index size are outside the quantifier of C04 / C19
                if above:
                    ops.append(ff(above, "each" if above < 4 else "end"))
                removed_penalty = pos != "above"
                removed_dispute = removed_penalty and rdepth >= above + 2
                nb = rdepth + 1
                blocks = [[] for _ in range(nb)]
                if repl != "dispute_gone" and removed_dispute:
                    blocks[0].append(D(1))
                if removed_penalty:
                    if repl == "reconfirm_first":
                        blocks[1 if removed_dispute else 0].append(P(1, 1))
                    elif repl == "reconfirm_same":
                        blocks[0].append(P(1, 1))
                    elif repl == "reconfirm_later":
                        blocks[nb - 1].append(P(1, 1))
                    elif repl == "conflict":
                        blocks[min(1, nb - 1)].append(P(1, 2))
                ops.append({"op": "reorg", "depth": rdepth, "blocks": blocks,
                            "to_mempool": repl not in ("dispute_gone", "conflict")})
                ops.append(POLL)
                ops += [get(1, 1), get(2, 1), sub(1), sub(2)]
                ops.append(ff(8, "each"))
                ops += [get(1, 1), get(2, 1), mine([D(2)]), get(1, 2), sub(1)]
                out.append(scen("reorg-d%d-%s-%s" % (depth, pos, repl), cfg, ops))
    return out


def fam_reorg_multi(rng, cfg=CFG_A):
    """C04: a reorg that hits SEVERAL trackers, one of which is gone by the time the Responder re-announces (its dispute is
    confirmed again in the first replacement block and the node now refuses its penalty: the Watcher drops appointment and
    tracker in its own step of that block); the others must be re-announced and recorded as unconfirmed all the same."""
    out = []
    for gone in (1, 2, 3, 4):
        for to_mempool in (False, True):
            ops = [reg(1), reg(2)]
            ops += [add(1 + i % 2, i, valid(i)) for i in (1, 2, 3, 4)]
            ops += [mine([D(1), D(2), D(3), D(4)]), mine([P(1), P(2), P(3), P(4)]), get(1, 1), get(2, 2),
                    {"op": "reject", "tx": P(gone), "code": -26},
                    {"op": "reorg", "depth": 2, "blocks": [[D(1), D(2), D(3), D(4)], [], []], "to_mempool": to_mempool}, POLL]
            ops += [get(1, 1), get(2, 2), get(1, 3), get(2, 4), sub(1), sub(2), {"op": "unreject", "tx": P(gone)}, ff(7, "each"),
                    mine([P(i) for i in (1, 2, 3, 4) if i != gone]), get(1, 1), get(2, 2), get(1, 3), get(2, 4), sub(1)]
            out.append(scen("reorg-multi-gone%d-%s" % (gone, "mem" if to_mempool else "nomem"), cfg, ops))
    return out


def fam_midreorg(rng, cfg=CFG_A):
    """C04/C19: a late appointment answered in the middle of a reorg (blocks disconnected, replacement blocks not yet
    downloaded) whose penalty is already confirmed: the recorded height must be the true height of the confirming block."""
    out = []
    for depth in (1, 2, 3):
        for age in (3, 4):
            ops = [reg(1), reg(2), mine([D(1)]), mine([P(1, 1)]), ff(age - 1 + depth, "each"),
                   {"op": "reorg", "depth": depth, "blocks": [[] for _ in range(depth + 1)]},
                   {"op": "fault", "kind": "block", "offset": depth, "times": 1, "transient": True}, POLL,
                   add(1, 1, valid(1, 1)), get(1, 1), add(2, 1, valid(1, 1)), POLL, get(1, 1), get(2, 1), ff(2, "each"), get(1, 1), sub(1)]
            out.append(scen("midreorg-d%d-age%d" % (depth, age), cfg, ops))
    return out


def fam_completion(rng, cfg=CFG_L):
    """C04/C07: walk a tracker to 99 / 100 / 101 confirmations; never-confirming penalty; rebroadcast cadence."""
    out = []
    for v in (1, 3, 5):
        ops = [reg(1), reg(2), add(1, 1, valid(1, v)), add(2, 2, valid(2, 1)), add(1, 3, valid(3, 1)), sub(1),
               mine([D(1), D(2)]), mine([P(1, v)]), sub(1), get(1, 1)]
        # penalty of dispute 2 never confirms: rebroadcast every RETRY_N blocks
        ops.append(ff(14, "each"))
        ops.append(ff(80, "end"))
        ops.append(ff(3, "each"))     # 98, 99 ...
        ops += [sub(1), get(1, 1)]
        ops.append(ff(4, "each"))     # ... crosses 100
        ops += [sub(1), get(1, 1), get(2, 2), sub(2)]
        # the long-unconfirmed penalty finally gets rejected
        ops.append({"op": "mempool_drop", "tx": P(2, 1)})
        ops.append({"op": "reject", "tx": P(2, 1), "code": -26})
        ops.append(ff(8, "each"))
        ops += [get(2, 2), sub(2), sub(1)]
        out.append(scen("completion-v%d" % v, cfg, ops))
    # several trackers of one user (and one of another) buried by the same block
    ops = [reg(1), reg(2), add(1, 1, valid(1, 1)), add(1, 2, valid(2, 3)), add(1, 3, valid(3, 1)), add(2, 1, valid(1, 1)),
           add(2, 4, valid(4, 1)), mine([D(1), D(2), D(3)]), mine([P(1, 1), P(2, 3), P(3, 1)]), sub(1), sub(2),
           ff(95, "end"), ff(6, "each"), sub(1), sub(2), reg(1), sub(1), {"op": "crash"}, {"op": "boot"}, POLL, sub(1), sub(2)]
    out.append(scen("completion-multi", cfg, ops))
    # completion combined with a reorg shortly before 100
    ops = [reg(1), add(1, 1, valid(1, 1)), mine([D(1)]), mine([P(1, 1)]), ff(90, "end"), ff(7, "each"),
           {"op": "reorg", "depth": 2, "blocks": [[], [], []]}, POLL, ff(5, "each"), sub(1), get(1, 1)]
    out.append(scen("completion-reorg", cfg, ops))
    return out


def fam_expiry(rng, cfgs=(CFG_B, CFG_C, CFG_D, CFG_E, CFG_F)):
    """C09: registrations / renewals at every offset relative to expiry and grace, purge, reorgs across the heights."""
    out = []
    for cfg in cfgs:
        Dd, G = cfg["D"], cfg["G"]
        for renew_at in (None, 0, max(Dd - 1, 0), Dd, Dd + G - 1 if G else Dd, Dd + G):
            for reorg in (False, True):
                ops = [reg(1), reg(2), add(1, 1, valid(1)), add(2, 1, valid(1, 2)), add(2, 2, valid(2)), sub(1), sub(2)]
                total = Dd + G + 3
                for step in range(total):
                    if renew_at is not None and step == renew_at:
                        ops.append(reg(1))
                    if step == 1:
                        ops.append(mine([D(1)]))
                    else:
                        ops.append(mine([]))
                    ops += [sub(1), sub(2), get(1, 1), add(1, 3, valid(3)) if step % 2 == 0 else get(2, 2)]
                    if step >= 2:
                        ops.append(add(1, 1, valid(1)))      # already responded; refused as expired once the subscription has run out
                    if reorg and step in (Dd - 1, Dd + G - 1, Dd + G):
                        ops.append({"op": "reorg", "depth": 2, "blocks": [[], [], []]})
                        ops.append(POLL)
                        ops += [sub(1), sub(2), add(2, 4, valid(4))]
                ops += [reg(1), reg(2), sub(1), sub(2), ff(3, "end"), sub(1)]
                out.append(scen("expiry-S%dD%dG%d-renew%s-%s" % (cfg["S"], Dd, G, renew_at, "reorg" if reorg else "lin"), cfg, ops))
    return out


def fam_slots(rng, cfgs=(CFG_A, CFG_B, CFG_C)):
    """C07: sizes on both sides of every slot boundary, replacements up and down, exhaustion, triggers, refunds."""
    out = []
    sizes = [1, 2047, 2048, 2049, 4095, 4096, 4097, 6144, 6145]
    for cfg in cfgs:
        for k in range(4):
            ops = [reg(1), reg(2)]
            seq = [rng.choice(sizes) for _ in range(6)]
            for n, s in enumerate(seq):
                ops.append(add(1, 1 + n % 2, garbled(s)))
                ops.append(sub(1))
            # valid blobs of exact boundary sizes
            for v in (2, 3, 4, 5, 1):
                ops.append(add(2, 3, valid(3, v)))
                ops.append(sub(2))
            ops.append(reg(1))
            ops.append(add(1, 4, garbled(rng.choice(sizes))))
            ops += [mine([D(1), D(3)]), sub(1), sub(2), mine([P(3, 1)]), sub(2)]
            ops.append(add(1, 1, garbled(300)))      # dispute in cache + garbled: charged, nothing stored
            ops.append(sub(1))
            out.append(scen("slots-S%d-%d" % (cfg["S"], k), cfg, ops))
    # replacing a held appointment whose dispute is in the cache (held without tracker: penalty already on chain) by smaller / garbled / bigger data
    for k, repl in enumerate((garbled(10), garbled(5000), valid(1, 1), valid(1, 5))):
        ops = [reg(1), add(1, 1, valid(1, 3)), sub(1), mine([D(1), P(1, 3)]), get(1, 1), sub(1),
               add(1, 1, repl), sub(1), get(1, 1), add(1, 1, repl), sub(1), add(1, 1, garbled(10)), sub(1), add(1, 2, valid(2)), sub(1)]
        out.append(scen("slots-replace-resolved-%d" % k, CFG_A, ops))
    # ... the same state reached because the NODE said the penalty is already on chain (it is not): the replacement's penalty is
    # then taken by the node, so the replacement is what must be held (and charged for) from now on, with its tracker
    for k, v in enumerate((1, 5, 2, 4)):
        ops = [reg(1), reg(2), add(1, 1, valid(1, 3)), add(2, 1, valid(1, 3)), sub(1), {"op": "verdict", "tx": P(1, 3), "v": "res", "times": 2},
               mine([D(1)]), get(1, 1), sub(1), add(1, 1, valid(1, v)), sub(1), get(1, 1), get(2, 1), sub(2), mine([P(1, v)]), get(1, 1), sub(1),
               add(1, 2, valid(2)), sub(1)]
        out.append(scen("slots-replace-resolved-taken-%d" % k, CFG_A, ops))
    return out


def fam_auth(rng, cfg=CFG_B):
    """C06: every endpoint x every signature class x user state (registered / expired / purged / never registered)."""
    out = []
    for state in ("registered", "expired", "purged", "never"):
        ops = [reg(2), add(2, 1, valid(1, 2))]
        if state != "never":
            ops += [reg(1), add(1, 1, valid(1, 1)), add(1, 2, valid(2, 1))]
        if state == "expired":
            ops.append(ff(cfg["D"], "each"))
            ops.append(reg(2))
        if state == "purged":
            ops.append(ff(cfg["D"], "each"))
            ops.append(reg(2))
            ops.append(ff(cfg["G"], "each"))
        for cls in ["valid"] + SIG_BAD:
            ops.append(add(1, 3, valid(3, 1), sig=cls))
            ops.append(add(1, 1, valid(1, 6), sig=cls))      # attempt to replace
            ops.append(get(1, 1, sig=cls))
            ops.append(sub(1, sig=cls))
            ops.append(get(1, 2, sig=cls))
        # user 1 probing user 2's locator and vice versa
        ops += [get(1, 1), get(2, 1), get(2, 2), sub(2), add(2, 2, valid(2, 2)), get(1, 2), get(2, 2)]
        out.append(scen("auth-%s" % state, cfg, ops))
    return out


def fam_resubmit(rng, cfg=CFG_A):
    """C11/C01: resubmission of an appointment in every life-cycle state."""
    out = []
    for state in ("watched", "responded", "completed", "dropped_invalid", "dropped_rejected", "kept_resolved", "late_resolved"):
        ops = [reg(1)]
        if state == "watched":
            ops += [add(1, 1, valid(1)), add(1, 1, valid(1)), add(1, 1, valid(1, 2))]
        elif state == "responded":
            ops += [add(1, 1, valid(1)), mine([D(1)]), add(1, 1, valid(1)), add(1, 1, valid(1, 2)), sub(1), add(1, 1, valid(1, 3)), sub(1),
                    add(1, 1, garbled(5000)), sub(1)]
        elif state == "completed":
            ops += [add(1, 1, valid(1)), mine([D(1)]), mine([P(1)]), ff(100, "end"), ff(1, "each"), sub(1), add(1, 1, valid(1))]
        elif state == "dropped_invalid":
            ops += [add(1, 1, garbled(100)), mine([D(1)]), add(1, 1, garbled(100)), add(1, 1, valid(1))]
        elif state == "dropped_rejected":
            ops += [{"op": "reject", "tx": P(1), "code": -26}, add(1, 1, valid(1)), mine([D(1)]), add(1, 1, valid(1)),
                    {"op": "unreject", "tx": P(1)}, add(1, 1, valid(1)), mine([]), add(1, 1, valid(1)), get(1, 1), mine([]),
                    {"op": "mempool_drop", "tx": P(1)}, {"op": "reject", "tx": P(1), "code": -25}, add(1, 1, valid(1))]
        elif state == "kept_resolved":
            # dispute and penalty confirmed in the same block: the node answers already-in-chain, the appointment is kept
            ops += [add(1, 1, valid(1)), mine([D(1), P(1)]), get(1, 1), add(1, 1, valid(1)), get(1, 1)]
        elif state == "late_resolved":
            ops += [mine([D(1), P(1)]), add(1, 1, valid(1)), get(1, 1), add(1, 1, valid(1)), get(1, 1)]
        ops += [sub(1), get(1, 1), mine([]), sub(1)]
        out.append(scen("resubmit-%s" % state, cfg, ops))
    return out


def fam_random(rng, n, cfgs=(CFG_A, CFG_B, CFG_F), length=60):
    """Seeded random histories mixing everything."""
    out = []
    for k in range(n):
        cfg = rng.choice(cfgs)
        ops = []
        nd = 5
        mined = set()
        for step in range(length):
            r = rng.random()
            u = rng.choice([1, 2, 3])
            i = rng.randint(1, nd)
            if r < 0.12:
                ops.append(reg(u))
            elif r < 0.42:
                kind = rng.random()
                if kind < 0.6:
                    b = valid(i, rng.choice([1, 1, 2, 3, 6]))
                elif kind < 0.8:
                    b = garbled(rng.choice([5, 300, 2048, 2049, 4097]))
                else:
                    b = valid(i % nd + 1, 1)
                ops.append(add(u, i, b, sig="valid" if rng.random() < 0.9 else rng.choice(SIG_BAD)))
            elif r < 0.52:
                ops.append(get(u, i, sig="valid" if rng.random() < 0.9 else rng.choice(SIG_BAD)))
            elif r < 0.58:
                ops.append(sub(u))
            elif r < 0.85:
                txs = []
                for j in range(1, nd + 1):
                    if D(j) not in mined and rng.random() < 0.2:
                        txs.append(D(j))
                        mined.add(D(j))
                    elif D(j) in mined and P(j) not in mined and rng.random() < 0.25:
                        txs.append(P(j))
                        mined.add(P(j))
                ops.append(mine(txs, poll=rng.random() < 0.85))
            elif r < 0.90:
                depth = rng.choice([1, 1, 2, 3])
                nb = depth + 1
                blocks = [[] for _ in range(nb)]
                ops.append({"op": "reorg", "depth": depth, "blocks": blocks, "to_mempool": rng.random() < 0.7})
                ops.append(POLL)
                mined = set()   # conservatively allow re-mining
            elif r < 0.94:
                ops.append({"op": "reject", "tx": P(i), "code": rng.choice([-26, -25])})
            elif r < 0.96:
                ops.append({"op": "verdict", "tx": P(i), "v": "res"})
            elif r < 0.98:
                ops += [{"op": "crash"}, {"op": "boot"}, POLL]
            else:
                ops.append(ff(rng.choice([1, 6, 7]), "each"))
        ops.append(POLL)
        ops += probes([1, 2, 3], range(1, nd + 1))
        out.append(scen("random-%d" % k, cfg, ops))
    return out


# ---------------------------------------------------------------------------------------------------
# campaign runner

def cfg_key(cfg):
    return json.dumps(cfg, sort_keys=True)


class Campaign:
    def __init__(self, wd):
        self.wd = wd
        self.tags = []          # dicts: prop, what, scenario, line, event
        self.events = 0
        self.scenarios = 0
        self.traces = 0
        self.aborts = 0
        self.acts = {}
        self.samples = []
        self.distinct = set()
        self.tlc_states = 0
        self.wall_rig = 0.0
        self.wall_tlc = 0.0
        # what actually happened in the validated traces (anti-vacuity)
        self.happened = {"breach_responded": 0, "breach_dropped": 0, "late_trigger": 0, "completion_refund": 0, "purge": 0,
                         "reannounce": 0, "rebroadcast": 0, "first_confirmation": 0, "reorg_flagged": 0,
                         "refused_auth": 0, "refused_expired": 0, "refused_slots_or_auth": 0, "update": 0, "renewal": 0,
                         "restart": 0, "maxslots": 0}

    def run(self, scenarios, label="c"):
        groups = {}
        for s in scenarios:
            groups.setdefault(cfg_key(s["cfg"]), []).append(s)
        for gi, (k, group) in enumerate(sorted(groups.items())):
            cfg = json.loads(k)
            # shard big groups so that a TLC run stays small
            shard = 40
            for si in range(0, len(group), shard):
                self._run_group(cfg, group[si:si + shard], "%s_g%d_%d" % (label, gi, si // shard))

    def _run_group(self, cfg, group, name):
        script = os.path.join(self.wd, name + ".json")
        trace = os.path.join(self.wd, name + ".ndjson")
        json.dump({"cfg": cfg, "scenarios": group}, open(script, "w"))
        t0 = time.time()
        p = subprocess.run([os.path.join(BIN, "tower_rig"), "run", script, trace, os.path.join(self.wd, "db_" + name)],
                           stdout=subprocess.PIPE, stderr=subprocess.PIPE, text=True, timeout=3600)
        self.wall_rig += time.time() - t0
        if p.returncode != 0:
            if p.returncode < 0 and os.path.exists(trace) and os.path.getsize(trace) > 0:
                # the code under test killed the process (abort / stack overflow): judge the trace recorded so far
                with open(trace, "a") as f:
                    f.write(json.dumps({"act": "Died", "signal": -p.returncode}) + "\n" + json.dumps({"act": "end"}) + "\n")
                info = {"aborts": 1}
            else:
                log(p.stderr[-3000:])
                raise ToolError("tower_rig failed on %s" % script)
        else:
            info = json.loads(p.stdout.strip().splitlines()[-1])
        self.aborts += info["aborts"]
        # scan the trace: scenario boundaries, max tx id, action histogram
        starts = []
        maxtx = 10
        events = []
        prev = None
        hp = self.happened
        with open(trace) as f:
            for ln, line in enumerate(f, 1):
                e = json.loads(line)
                events.append(e)
                a = e["act"]
                if "post" in e and prev is not None and "post" in prev and a != "Boot":
                    p0, p1 = prev["post"], e["post"]
                    k0 = set((t[0], t[1]) for t in p0["trackers"])
                    k1 = set((t[0], t[1]) for t in p1["trackers"])
                    a0 = set((x[0], x[1]) for x in p0["appts"])
                    a1 = set((x[0], x[1]) for x in p1["appts"])
                    if a == "WConnect":
                        hp["breach_responded"] += len(k1 - k0)
                        hp["breach_dropped"] += len(a0 - a1)
                    elif a == "Add" and e["reply"].get("code") == "ok":
                        if (k1 - k0) or (e["l"] in [c[0] for c in p0["cache"]]):
                            hp["late_trigger"] += 1
                        if (e.get("who"), e["l"]) in a0:
                            hp["update"] += 1
                    elif a == "RConnect":
                        s0 = {u[0]: u[1] for u in p0["users"]}
                        if any(u[1] > s0.get(u[0], u[1]) for u in p1["users"]):
                            hp["completion_refund"] += 1
                        sends = [r[1] for r in e["rpc"] if r[0] == "send"]
                        hp["reannounce"] += sum(1 for t in sends if t % 10 == 0)
                        hp["rebroadcast"] += sum(1 for t in sends if t % 10 != 0)
                        c0 = set((t[0], t[1]) for t in p0["trackers"] if t[5])
                        hp["first_confirmation"] += sum(1 for t in p1["trackers"] if t[5] and (t[0], t[1]) not in c0)
                    elif a == "GkConnect":
                        hp["purge"] += len(p0["users"]) - len(p1["users"])
                    elif a == "RDisc":
                        hp["reorg_flagged"] += len(p1["reorged"]) - len(p0["reorged"])
                    elif a == "Register" and e["reply"].get("code") == "ok" and any(u[0] == e["u"] for u in p0["users"]):
                        hp["renewal"] += 1
                if a == "Boot" and len(events) >= 2 and events[-2]["act"] == "Crash":
                    hp["restart"] += 1
                if a in ("Add", "Get", "Sub", "Register"):
                    code = e["reply"].get("code")
                    if code == "auth":
                        hp["refused_auth" if e.get("who") == 0 else "refused_slots_or_auth"] += 1
                    elif code == "expired":
                        hp["refused_expired"] += 1
                    elif code == "maxslots":
                        hp["maxslots"] += 1
                if "post" in e:
                    prev = e
                self.acts[a] = self.acts.get(a, 0) + 1
                if a == "Init":
                    starts.append(ln)
                for fld in ("l", "key", "pay"):
                    v = e.get(fld)
                    if isinstance(v, int) and v > maxtx:
                        maxtx = v
                for r in e.get("rpc", []):
                    if r[1] > maxtx:
                        maxtx = r[1]
                if "blk" in e:
                    for kx in e["blk"]["keys"]:
                        maxtx = max(maxtx, kx)
        consts = {"CACHE_N": cfg["cache"], "IDX_N": cfg["idx"], "IRR": 100, "RETRY_N": 6, "SLOT_SIZE": 2048,
                  "SUB_S": cfg["S"], "SUB_D": cfg["D"], "SUB_G": cfg["G"],
                  "MAXU": 2147483647 if cfg.get("scale", 1) == 1 else (2 ** 32 - 1) // cfg["scale"], "MAXTX": maxtx + 9}
        t0 = time.time()
        r = tlc("Trace_Tower", "Trace_Tower.cfg", self.wd, workers=1, consts=consts, env_extra={"TRACE": trace},
                timeout=3600, deque=True, heap="6g")
        self.wall_tlc += time.time() - t0
        tags = None
        consumed = 0
        for ln in r.printed:
            tag, val = unwrap_print(ln)
            if tag == "TRACE-END" and val is not None:
                consumed = int(val[0])
                tags = val[1]
        if not r.ok or tags is None or consumed != len(events):
            log(r.out[-3000:])
            raise ToolError("trace %s not consumed to its end (consumed %s of %d)" % (trace, consumed, len(events)))
        self.tlc_states += r.distinct
        self.traces += 1
        self.conc_schedules = getattr(self, "conc_schedules", 0) + sum(1 for e in events if e["act"] == "Conc")
        self.events += len(events)
        self.scenarios += len(group)
        for sc_i, sc in enumerate(group):
            if sc_i >= len(starts):
                break      # the run ended early (watchdog / process death): later scenarios were not executed
            lo = starts[sc_i]
            hi = starts[sc_i + 1] if sc_i + 1 < len(starts) else len(events) + 1
            sig = tuple(sorted(set((e["act"], e.get("reply", {}).get("code", ""), bool(e.get("rpc")), e.get("abort", ""))
                                   for e in events[lo - 1:hi - 1])))
            self.distinct.add((cfg_key(cfg), sig))
        crash_line = {}
        for i_ev, e in enumerate(events, 1):
            if e.get("abort") == "crash" or e["act"] == "Crash":
                sc_k = max(i for i, s0 in enumerate(starts) if s0 <= i_ev)
                crash_line.setdefault(sc_k, i_ev)
        for t in tags:
            line, prop, what = t[0], t[1], t[2]
            sc_i = max(i for i, s in enumerate(starts) if s <= line)
            self.tags.append({"prop": prop, "what": what, "line": line, "scenario": group[sc_i], "trace": trace,
                              "after_crash": sc_i in crash_line and line > crash_line[sc_i],
                              "event": events[line - 1], "prev": events[line - 2] if line >= 2 else None})
        if len(self.samples) < 2:
            ev = [e for e in events if e["act"] in ("Add", "WConnect", "RConnect") and e.get("rpc")][:2]
            for e in ev:
                e2 = dict(e)
                e2["post"] = {k: v for k, v in e["post"].items() if k in ("users", "appts", "trackers", "wH")}
                self.samples.append({"scenario": group[0]["name"], "event": e2})


def act_class(event):
    a = event["act"]
    return a


def summarize_tags(tags, prop):
    mine_ = [t for t in tags if t["prop"] == prop]
    return mine_


def fam_receipts(rng, cfg=CFG_A):
    """C08: receipts issued between block events and around reorgs (heights going backwards after a poll whose
    replacement blocks could not be downloaded), renewals, varying to_self_delay and blob contents."""
    out = []
    for k in range(6):
        ops = [reg(1), reg(2), add(1, 1, valid(1, 1), tsd=0), add(1, 1, valid(1, 6), tsd=4294967 + k), get(1, 1)]
        ops += [mine([]), add(2, 1, valid(1, 2), tsd=1), reg(1), reg(1), sub(1)]
        # (deeper than the Watcher's 6-block cache in the last two: its height must keep following the disconnections)
        depth = rng.choice([1, 2, 3]) if k < 4 else (7, 9)[k - 4]
        ops.append(ff(depth + 1, "each"))
        # reorg whose first replacement block cannot be downloaded: the tower only disconnects
        ops.append({"op": "reorg", "depth": depth, "blocks": [[] for _ in range(depth + 1)]})
        ops.append({"op": "fault", "kind": "block", "offset": depth, "times": 1, "transient": rng.random() < 0.5})
        ops.append(POLL)
        ops += [add(1, 2, valid(2, rng.choice([1, 2, 3])), tsd=7), get(1, 2), add(2, 3, garbled(rng.choice([10, 2049]))), get(2, 3),
                reg(2), sub(2)]
        ops.append(POLL)       # now the replacement blocks arrive
        ops += [add(1, 4, valid(4, 1)), get(1, 4), add(1, 2, valid(2, 7), tsd=8), get(1, 2), sub(1)]
        # a re-submission that changes everything BUT the blob (new to_self_delay, hence a new signature; new start block)
        ops += [mine([]), add(1, 4, valid(4, 1), tsd=9 + k), get(1, 4), mine([]), add(2, 1, valid(1, 2), tsd=1), get(2, 1)]
        out.append(scen("receipts-%d" % k, cfg, ops))
    return out


def fam_maxslots(rng, cfgs=(CFG_BIG, CFG_BIG2)):
    """C07/C09: renewals until the slot counter would overflow (nothing may change), then further use."""
    out = []
    for cfg in cfgs:
        ops = [reg(1), reg(2), sub(1)]
        for k in range(4):
            ops += [reg(1), sub(1), mine([])]
        ops += [reg(2), sub(2), sub(1), reg(1), {"op": "crash"}, {"op": "boot"}, POLL, sub(1), reg(1), sub(1),
                ff(cfg["D"] * 6 + cfg["G"] + 2, "each"), sub(1), sub(2)]
        out.append(scen("maxslots-S%d" % cfg["S"], cfg, ops))
    return out


def apoll(name, ms=1500):
    """A poll on the chain-monitor thread (it may block inside the code under test), joined within ms."""
    return [{"op": "spawn_poll", "thread": name}, {"op": "join", "thread": name, "ms": ms}, {"op": "end_async"}]


def fam_outage(rng, cfg=CFG_A, ms=1500):
    """C12: bitcoind outages on the request path and on the block-processing path, of several lengths, with and without
    blocks mined meanwhile; block / header download failures in the middle of a multi-block poll.  Every poll that may
    have to answer a breach runs on its own thread and is joined within `ms` (recovery must not need operator action)."""
    out = []
    down, up = {"op": "node", "up": False}, {"op": "node", "up": True}
    refused = [reg(2), get(1, 1), sub(1), add(1, 2, valid(2))]
    # (a) request path: the node goes away while a late appointment is being answered; k further polls fail; no new block
    for k in (0, 1, 2):
        ops = [reg(1), mine([D(1)]), down, {"op": "spawn_add", "thread": "T1", "u": 1, "l": D(1), "blob": valid(1)},
               {"op": "wait_flag", "reachable": False}] + refused
        ops += [POLL] * k + refused[:2] + [up, POLL, {"op": "join", "thread": "T1", "ms": ms}, {"op": "end_async"}, get(1, 1), sub(1), reg(2),
                                           mine([P(1)], poll=False)] + apoll("P9", ms) + [get(1, 1)]
        out.append(scen("outage-request-k%d" % k, cfg, ops))
    # (b) request path, a block is mined during the outage
    ops = [reg(1), mine([D(1)]), down, {"op": "spawn_add", "thread": "T1", "u": 1, "l": D(1), "blob": valid(1)},
           {"op": "wait_flag", "reachable": False}] + refused[:2] + [up, mine([], poll=False), {"op": "spawn_poll", "thread": "P1"},
           {"op": "join", "thread": "T1", "ms": ms}, {"op": "join", "thread": "P1", "ms": ms}, {"op": "end_async"}, get(1, 1), sub(1)]
    out.append(scen("outage-request-newblock", cfg, ops))
    # (c) block-processing path: the transaction RPC fails while the breach of a block is being answered
    for k in (0, 1):
        ops = [reg(1), add(1, 1, valid(1)), {"op": "rpc_up", "up": False}, mine([D(1)], poll=False), {"op": "spawn_poll", "thread": "P1"},
               {"op": "wait_flag", "reachable": False}] + refused[:3] + [{"op": "rpc_up", "up": True}]
        if k:
            ops += [mine([], poll=False)]
        ops += [{"op": "join", "thread": "P1", "ms": ms}, {"op": "end_async"}, get(1, 1), sub(1)]
        out.append(scen("outage-block-k%d" % k, cfg, ops))
    # (c2) the connection drops exactly at the submission (after the mempool query was answered), request path and block path
    ops = [reg(1), mine([D(1)]), {"op": "fault", "kind": "rpc_after", "n": 1}, {"op": "spawn_add", "thread": "T1", "u": 1, "l": D(1), "blob": valid(1)},
           {"op": "wait_flag", "reachable": False}] + refused[:3] + [{"op": "rpc_up", "up": True}, POLL, {"op": "join", "thread": "T1", "ms": ms},
           {"op": "end_async"}, get(1, 1), sub(1)]
    out.append(scen("outage-request-atsend", cfg, ops))
    ops = [reg(1), add(1, 1, valid(1)), {"op": "fault", "kind": "rpc_after", "n": 1}, mine([D(1)], poll=False), {"op": "spawn_poll", "thread": "P1"},
           {"op": "wait_flag", "reachable": False}] + refused[:3] + [{"op": "rpc_up", "up": True}, {"op": "join", "thread": "P1", "ms": ms},
           {"op": "end_async"}, get(1, 1), sub(1)]
    out.append(scen("outage-block-atsend", cfg, ops))
    # (d) plain outage of k polls between requests; the blocks mined meanwhile (with breaches) are processed afterwards
    for k in (1, 2, 3):
        ops = [reg(1), add(1, 1, valid(1)), add(1, 2, valid(2)), down] + [POLL] * k + refused + [mine([D(1)], poll=False), POLL, up,
               mine([D(2)], poll=False)] + apoll("P1", ms) + [get(1, 1), get(1, 2), reg(2), sub(1)]
        out.append(scen("outage-idle-k%d" % k, cfg, ops))
    # (d2) the node comes back having lost its last block (worse tip): reachable again all the same
    ops = [reg(1), add(1, 1, valid(1)), mine([]), down, POLL] + refused[:2] + [{"op": "reorg", "depth": 1, "blocks": []}, up, POLL, reg(2), get(1, 1),
           mine([], poll=False), mine([D(1)], poll=False)] + apoll("P1", ms) + [get(1, 1), sub(1)]
    out.append(scen("outage-worse-tip", cfg, ops))
    # (e) download failures in the middle of a multi-block poll (no restart): everything is answered by the following polls
    for kind in ("block", "header", "best"):
        for off in (0, 1, 2):
            ops = [reg(1), add(1, 1, valid(1)), add(1, 2, valid(2)), mine([], poll=False), mine([D(1)], poll=False), mine([D(2)], poll=False),
                   {"op": "fault", "kind": kind, "offset": off, "times": 1, "transient": rng.random() < 0.5}]
            ops += apoll("P1", ms) + [get(1, 1), get(1, 2), reg(2)] + apoll("P2", ms) + [get(1, 1), get(1, 2)] + apoll("P3", ms) + [sub(1)]
            out.append(scen("outage-download-%s-%d" % (kind, off), cfg, ops))
    return out


def conc(name, cfg, prefix, threads, preemptions=2, mx=150, rnd=10):
    sc = scen(name, cfg, prefix)
    sc["conc"] = {"threads": threads, "preemptions": preemptions, "max": mx, "random": rnd, "seed": 1}
    return sc


def cadd(u, i, blob=None):
    return {"op": "add", "u": u, "l": D(i), "blob": blob if blob is not None else valid(i)}


def fam_conc(rng, tier="quick"):
    """C10/C11: two or three operations on real threads, every interleaving at lock-acquisition granularity within a
    preemption bound (DFS), plus random schedules."""
    mx = 120 if tier == "quick" else 1500
    pb = 2 if tier == "quick" else 3
    rnd = 10 if tier == "quick" else 100
    CPOLL = {"op": "poll"}
    out = []
    # two submissions of the same appointment (new), and of an update
    out.append(conc("conc-add-add-same", CFG_A, [reg(1)], [cadd(1, 1), cadd(1, 1)], pb, mx, rnd))
    out.append(conc("conc-add-add-update", CFG_A, [reg(1), add(1, 1, valid(1, 3))], [cadd(1, 1, valid(1, 1)), cadd(1, 1, valid(1, 5))], pb, mx, rnd))
    # an appointment accepted while the block containing its dispute is being processed
    out.append(conc("conc-add-block-dispute", CFG_A, [reg(1), mine([D(1)], poll=False)], [cadd(1, 1), CPOLL], pb, mx, rnd))
    out.append(conc("conc-update-block-dispute", CFG_A, [reg(1), add(1, 1, valid(1, 3)), mine([D(1)], poll=False)], [cadd(1, 1, valid(1, 1)), CPOLL], pb, mx, rnd))
    # registration (renewal) against a charge; reads against writes
    out.append(conc("conc-register-add", CFG_A, [reg(1)], [{"op": "register", "u": 1}, cadd(1, 1, valid(1, 3))], pb, mx, rnd))
    out.append(conc("conc-add-get", CFG_A, [reg(1), add(1, 1, valid(1, 3))], [cadd(1, 1, valid(1, 1)), {"op": "get", "u": 1, "l": D(1)}], pb, mx, rnd))
    # a block that purges the user while the user submits
    pre = [reg(1), add(1, 1, valid(1))] + [ff(CFG_B["D"] + CFG_B["G"] - 1, "each"), mine([], poll=False)]
    out.append(conc("conc-add-block-purge", CFG_B, pre, [cadd(1, 2), CPOLL], pb, mx, rnd))
    out.append(conc("conc-get-block-purge", CFG_B, pre, [{"op": "get", "u": 1, "l": D(1)}, CPOLL], pb, mx, rnd))
    # the block at the height of the user's expiry (the subscription ends, the data stays) while the user submits / reads
    pre = [reg(1), add(1, 1, valid(1))] + [ff(CFG_B["D"] - 1, "each"), mine([], poll=False)]
    out.append(conc("conc-add-block-expiry", CFG_B, pre, [cadd(1, 2), CPOLL], pb, mx, rnd))
    # a block that completes a tracker (refund) while the same user is charged
    pre = [reg(1), add(1, 1, valid(1, 3)), mine([D(1)]), mine([P(1, 3)]), ff(99, "end"), mine([], poll=False)]
    out.append(conc("conc-add-block-complete", CFG_L, pre, [cadd(1, 2, valid(2, 3)), CPOLL], pb, mx, rnd))
    out.append(conc("conc-register-block-complete", CFG_L, pre, [{"op": "register", "u": 1}, CPOLL], pb, mx, rnd))
    # a block in which a stale penalty is rebroadcast while a late appointment is answered (carrier / db lock orders)
    pre = [reg(1), reg(2), add(1, 1, valid(1)), mine([D(1), D(2)]), ff(5, "each"), mine([], poll=False)]
    out.append(conc("conc-trigger-block-rebroadcast", CFG_A, pre, [cadd(2, 2, valid(2)), CPOLL], pb, mx, rnd))
    # a reorg delivered while a late appointment for the disconnected block's dispute is answered
    pre = [reg(1), mine([D(1)]), {"op": "reorg", "depth": 1, "blocks": [[], [D(1)]], "to_mempool": True}]
    out.append(conc("conc-trigger-reorg", CFG_A, pre, [cadd(1, 1), CPOLL], pb, mx, rnd))
    # ... and the late appointment's penalty is already confirmed in the block that is being disconnected: the tracker is
    # either recorded as confirmed there and then flagged as reorged, or built after the disconnection (penalty sent again)
    pre = [reg(1), mine([D(1)]), mine([P(1)]), {"op": "reorg", "depth": 1, "blocks": [[], []], "to_mempool": True}]
    out.append(conc("conc-trigger-reorg-penalty", CFG_A, pre, [cadd(1, 1), CPOLL], pb, mx, rnd))
    # get_subscription_info against writers of the same user
    CSUB = {"op": "sub", "u": 1}
    out.append(conc("conc-sub-register", CFG_A, [reg(1), add(1, 1)], [CSUB, {"op": "register", "u": 1}], pb, mx, rnd))
    out.append(conc("conc-sub-add", CFG_A, [reg(1), add(1, 1)], [CSUB, cadd(1, 2, valid(2, 3))], pb, mx, rnd))
    pre = [reg(1), add(1, 1, valid(1, 3)), mine([D(1)]), mine([P(1, 3)]), ff(99, "end"), mine([], poll=False)]
    out.append(conc("conc-sub-block-complete", CFG_L, pre, [CSUB, CPOLL], pb, mx, rnd))
    # three operations
    out.append(conc("conc-add-add-block", CFG_A, [reg(1), reg(2), mine([D(1)], poll=False)], [cadd(1, 1), cadd(2, 1, valid(1, 2)), CPOLL], pb,
                    mx, rnd))
    out.append(conc("conc-register-add-get", CFG_A, [reg(1), add(1, 1)], [{"op": "register", "u": 1}, cadd(1, 2), {"op": "get", "u": 1, "l": D(1)}],
                    pb, mx, rnd))
    return out


CLI = {"op": "cli", "users": [1, 2, 3]}


def fam_cli(rng, cfg=CFG_B):
    """The operator's view (private API behind teos-cli) along a history that goes through every kind of state: users with
    and without appointments, a shared locator, triggered / resolved / dropped appointments, completion, expiry and purge."""
    out = []
    for k in range(3):
        ops = [CLI, reg(1), reg(2), CLI, add(1, 1, valid(1)), add(2, 1, valid(1, 6)), add(1, 2, valid(2, 3)), add(2, 3, garbled(300)), CLI,
               mine([D(1)]), CLI, mine([P(1)]), CLI, reg(3), add(3, 2, valid(2)), mine([D(2), D(3)]), CLI, reg(2), CLI]
        ops += [x for _ in range(cfg["D"] + cfg["G"]) for x in (mine([]), CLI)] + [reg(1), CLI, {"op": "restart"}, POLL, CLI]
        out.append(scen("cli-%d" % k, cfg if k else CFG_A, ops))
    return out


def fam_oddnode(rng, cfg=CFG_A):
    """C02/C01/C11: the node answers the mempool query of a breach with something unexpected (an undocumented error code, a
    result that is not a transaction): that is no statement that the node has the penalty - it must still be submitted."""
    out = []
    for n, odd in enumerate(([None], [-1], [-32603], [None, -8])):
        f = {"op": "fault", "kind": "get_odd", "replies": odd}
        ops = [reg(1), reg(2), add(1, 1, valid(1)), add(2, 1, valid(1, 6)), f, mine([D(1)]), get(1, 1), get(2, 1), sub(1), sub(2),
               mine([D(2)]), f, add(1, 2, valid(2)), get(1, 2), sub(1), mine([P(1), P(2)]), get(1, 1), get(1, 2)]
        out.append(scen("oddnode-%d" % n, cfg, ops))
    return out


def fam_staleboot(rng, cfgs=(CFG_B, CFG_D)):
    """C09/C02: the tower restarts at a height at which a stored user is already outdated (its last poll recorded the node's
    tip although the blocks could not be downloaded - known finding F-C03-2 - and the tower was then restarted).  The user
    is purged by the next block it processes, nothing is ever sent for the purged owner, other users stay."""
    out = []
    for cfg in cfgs:
        dur, grace = cfg["D"], cfg["G"]
        for extra in (0, 1, 3):
            k = dur + grace + extra          # blocks mined before the failing poll: the tip is at/after expiry + grace of user 1
            ops = [reg(1), add(1, 1, valid(1)), add(1, 2, valid(2))]
            ops += [mine([], poll=False) for _ in range(k)]
            ops += [{"op": "fault", "kind": "block", "offset": k - 1, "times": 1, "transient": False}, POLL, {"op": "restart"}, POLL]
            ops += [reg(2), add(2, 1, valid(1, 6)), sub(1), get(1, 1), mine([D(1)]), get(1, 1), get(2, 1), sub(1), sub(2), mine([D(2)]), sub(1), sub(2)]
            out.append(scen("staleboot-S%dD%dG%d-%d" % (cfg["S"], dur, grace, extra), cfg, ops))
    return out


def fam_overloaded(rng, cfg=CFG_A, ms=25000):
    """C01/C12: bitcoind answers one RPC with a bare HTTP 503 (no verdict about the transaction) while a breach is being
    handled: the submission must be retried, never treated as a rejection."""
    out = []
    for at in (0, 1):
        ops = [reg(1), add(1, 1, valid(1)), {"op": "fault", "kind": "http503", "at": [at]}, mine([D(1)], poll=False)]
        ops += apoll("P1", ms) + [get(1, 1), sub(1), mine([P(1)], poll=False)] + apoll("P2", ms) + [get(1, 1)]
        out.append(scen("overloaded-block-%d" % at, cfg, ops))
    ops = [reg(1), mine([D(1)]), {"op": "fault", "kind": "http503", "at": [1]}, {"op": "spawn_add", "thread": "T1", "u": 1, "l": D(1), "blob": valid(1)},
           {"op": "wait_flag", "reachable": False}, POLL, {"op": "join", "thread": "T1", "ms": ms}, {"op": "end_async"}, get(1, 1), sub(1)]
    out.append(scen("overloaded-request", cfg, ops))
    return out
