"""C09 (DESIGN.md section 6): tower campaign judged by Trace_Tower.tla / TowerProps.tla."""
import towerlib as T
import towercheck

PID = "C09"


def scenarios(rng, tier):
    sc = T.fam_expiry(rng) + T.fam_auth(rng)[1:3] + T.fam_staleboot(rng)
    sc += T.fam_random(rng, 10 if tier == "quick" else 120, cfgs=(T.CFG_B, T.CFG_F, T.CFG_D))
    if tier == "thorough":
        for _ in range(2):
            sc += T.fam_expiry(rng)
        sc += T.fam_auth(rng, cfg=T.CFG_F)
    sc += T.fam_maxslots(rng)
    return sc


RULE = '(slots, duration, grace) in {(3,4,2),(1,1,0),(2,0,1),(0,3,0),(4,6,3)}; renewal at offsets {none, 0, D-1, D, D+G-1, D+G} relative to registration; a block per step past expiry+grace; reorgs of depth 2 across the expiry and purge heights; several blocks per poll; random histories'


def main(tier, replay=None):
    import mc_tower
    design = None if replay else mc_tower.design_stats(PID, tier)
    return towercheck.run(PID, tier, replay, scenarios, RULE, towercheck.COMMON_ASSUMPTIONS, design_stats=design)
