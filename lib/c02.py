"""C02 (DESIGN.md section 6): tower campaign judged by Trace_Tower.tla / TowerProps.tla."""
import towerlib as T
import towercheck

PID = "C02"


def scenarios(rng, tier):
    sc = T.fam_breach(rng) + T.fam_late(rng) + T.fam_reorg(rng)[::3] + T.fam_expiry(rng, cfgs=(T.CFG_B, T.CFG_F)) + T.fam_oddnode(rng) + T.fam_staleboot(rng)
    sc += T.fam_random(rng, 12 if tier == "quick" else 150)
    if tier == "thorough":
        for _ in range(4):
            sc += T.fam_breach(rng)
        sc += T.fam_reorg(rng, deep=True) + T.fam_expiry(rng)
    return sc


RULE = 'every RPC of every explored history is checked by the C02 monitors (justified send, tracker only for a penalty the node has); families breach, late, reorg, expiry (purged owners), odd answers of the node to the mempool query (unexpected error code, malformed result), random'


def main(tier, replay=None):
    import mc_tower
    design = None if replay else mc_tower.design_stats(PID, tier)
    return towercheck.run(PID, tier, replay, scenarios, RULE, towercheck.COMMON_ASSUMPTIONS, design_stats=design)
