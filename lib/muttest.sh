#!/bin/bash
# usage: muttest.sh <patch.diff> <check id>... : applies a seeded change to /repo, runs the checks, reverts.
# The evidence files of the checks are saved and restored: evidence/ must describe runs on the unchanged tree.
P=$1; shift
cd /repo && git apply "$P" || { echo "patch does not apply"; exit 2; }
for c in "$@"; do
  cp /verif/evidence/$c.json /tmp/muttest_evidence_$c.json 2>/dev/null
  cd /verif && ./check $c > /tmp/muttest_$c.out 2> /tmp/muttest_$c.err; rc=$?
  cp /verif/evidence/$c.json /tmp/muttest_evidence_mut_$c.json 2>/dev/null
  cp /tmp/muttest_evidence_$c.json /verif/evidence/$c.json 2>/dev/null
  echo "== $c exit=$rc"; grep -h "VIOLATION\|KNOWN" /tmp/muttest_$c.out | head -5; grep -h "^violation" /tmp/muttest_$c.err | head -4
done
cd /repo && git checkout -- . && git status --short | head -3
