"""Binding self-tests run by setup.sh: a corrupted trace must be rejected, a dropped event must be rejected."""
import json
import os
import subprocess
import sys

sys.path.insert(0, os.path.dirname(os.path.abspath(__file__)))
from common import BIN, WORK, ToolError, validate_trace  # noqa: E402


def txindex_selftest():
    wd = os.path.join(WORK, "selftest")
    os.makedirs(wd, exist_ok=True)
    tr = os.path.join(wd, "t.ndjson")
    subprocess.run([os.path.join(BIN, "txindex_rig"), "random", "6", "120", "7", tr], check=True,
                   stdout=subprocess.DEVNULL)
    lines = open(tr).read().splitlines()
    end = '{"ev":"end"}'
    # 1. the unmodified trace is accepted with no tag
    open(tr, "w").write("\n".join(lines + [end]) + "\n")
    tags, _, _ = validate_trace("Trace_TxIndex", "Trace_TxIndex.cfg", tr, wd)
    assert tags == [], "clean trace produced tags: %r" % tags[:3]
    # 2. corrupt one logged field (a height) -> rejected at exactly that line
    k = next(i for i, ln in enumerate(lines) if '"connect"' in ln and i > 20)
    ev = json.loads(lines[k])
    ev["obs"]["rows"][-1][1] += 1
    bad = lines[:k] + [json.dumps(ev)] + lines[k + 1:]
    open(tr, "w").write("\n".join(bad + [end]) + "\n")
    tags, _, _ = validate_trace("Trace_TxIndex", "Trace_TxIndex.cfg", tr, wd)
    assert any(t[0] == k + 1 for t in tags), "corrupted field not detected"
    # 3. drop one connect event that carried keys -> the following observations disagree
    k = next(i for i, ln in enumerate(lines) if '"connect"' in ln and json.loads(ln)["keys"])
    bad = lines[:k] + lines[k + 1:]
    open(tr, "w").write("\n".join(bad + [end]) + "\n")
    tags, _, _ = validate_trace("Trace_TxIndex", "Trace_TxIndex.cfg", tr, wd)
    assert tags, "dropped event not detected"
    print("selftest txindex: ok")


def manifest_selftest():
    """MANIFEST.json and the committed evidence agree (claimed level = level of the evidence record, one record per check)."""
    verif = os.path.dirname(os.path.dirname(os.path.abspath(__file__)))
    m = json.load(open(os.path.join(verif, "MANIFEST.json")))
    for c in m["checks"]:
        pid = c.get("property_id") or c.get("id")
        path = os.path.join(verif, "evidence", pid + ".json")
        if os.path.exists(path):
            lv = json.load(open(path)).get("level")
            want = c.get("level_claimed", {}).get("category")
            assert lv == want, "evidence/%s.json has level %s, MANIFEST claims %s" % (pid, lv, want)
    print("selftest manifest: ok")


if __name__ == "__main__":
    try:
        manifest_selftest()
        txindex_selftest()
    except (AssertionError, ToolError) as e:
        print("SELFTEST FAILED:", e)
        sys.exit(1)
