#!/usr/bin/env python3
"""save_seeded.py <name> <detected_by check ids, comma separated or 'none'> <how it was run / notes>
Copies a confirmed seeded change from /tmp/mut-out/<name> to /verif/seeded/<name>/ with meta.json."""
import json
import os
import shutil
import sys

name, detected, notes = sys.argv[1], sys.argv[2], sys.argv[3]
src = "/tmp/mut-out/" + name
dst = "/verif/seeded/" + name
os.makedirs(dst, exist_ok=True)
for f in ("patch.diff", "demo.diff", "notes.md"):
    if os.path.exists(os.path.join(src, f)):
        shutil.copy(os.path.join(src, f), dst)
meta = json.load(open(os.path.join(src, "meta.json")))
conf = json.load(open(os.path.join(src, "confirm.json"))) if os.path.exists(os.path.join(src, "confirm.json")) else {}
out = {
    "property": meta["property"],
    "summary": meta.get("summary"),
    "needs": meta.get("needs"),
    "demo_cmd": meta.get("demo_cmd"),
    "base_commit": conf.get("head", "ab6aef5"),
    "confirmed": {
        "how": "lib/confirm_mutant.sh in a scratch worktree: demo.diff alone -> demo_cmd passes; demo.diff + patch.diff -> fails; "
               "patch.diff alone -> cargo test --workspace --no-fail-fast passes",
        "demo_on_base_exit": conf.get("demo_on_head_exit"),
        "demo_with_patch_exit": conf.get("demo_with_patch_exit"),
        "suite_with_patch_exit": conf.get("suite_with_patch_exit"),
        "suite_failed_tests": conf.get("suite_failed_tests"),
    },
    "detected_by": [] if detected == "none" else detected.split(","),
    "ran": "git -C /repo apply seeded/%s/patch.diff; ./check <id>; git -C /repo checkout -- .   (lib/muttest.sh)" % name,
    "notes": notes,
}
json.dump(out, open(os.path.join(dst, "meta.json"), "w"), indent=1)
print("saved", dst)
