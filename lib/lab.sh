#!/bin/bash
# usage: lab.sh sync            : (re)creates /tmp/lab = a private copy of /verif + a scratch worktree of /repo (HEAD), so that
#                                 seeded changes can be tried without touching /repo while other checks run against it
#        lab.sh test <patch> <check id>...   : applies the patch in the lab's worktree, runs the lab's checks, reverts
#        lab.sh drop            : removes the lab
LAB=/tmp/lab
case "$1" in
sync)
  mkdir -p $LAB
  [ -d $LAB/repo ] || git -C /repo worktree add --detach $LAB/repo HEAD >/dev/null 2>&1
  (cd $LAB/repo && git checkout -q --detach $(git -C /repo rev-parse HEAD) && git checkout -q -- .)
  rsync -a --delete --exclude work --exclude harness/target --exclude .git /verif/ $LAB/verif/
  sed -i "s#/repo/#$LAB/repo/#g" $LAB/verif/harness/Cargo.toml
  grep -rl '"/repo"\|/verif/work\|"/verif/\|/repo' $LAB/verif/lib/*.py $LAB/verif/check | while read f; do
    sed -i "s#\"/repo\"#\"$LAB/repo\"#g; s#/verif/work#$LAB/verif/work#g; s#\"/verif/#\"$LAB/verif/#g; s#-C\", \"/repo\"#-C\", \"$LAB/repo\"#g" $f
  done
  mkdir -p $LAB/verif/work
  ;;
test)
  P=$2; shift; shift
  cd $LAB/repo && git apply "$P" || { echo "patch does not apply"; exit 2; }
  for c in "$@"; do
    cd $LAB/verif && ./check $c > $LAB/out_$c.out 2> $LAB/out_$c.err; rc=$?
    echo "== $c exit=$rc"; grep -h "VIOLATION" $LAB/out_$c.out | head -3; grep -h "^violation" $LAB/out_$c.err | head -4
  done
  cd $LAB/repo && git checkout -- . && git status --short | head -3
  ;;
drop)
  git -C /repo worktree remove --force $LAB/repo 2>/dev/null; rm -rf $LAB
  ;;
esac
