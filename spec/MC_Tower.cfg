CONSTANTS
  CACHE_N = 2
  IDX_N = 3
  IRR = 3
  RETRY_N = 2
  SLOT_SIZE = 2
  SUB_S = 2
  SUB_D = 4
  SUB_G = 1
  MAXU = 1000
  Users = {1, 2}
  Disputes = {10}
  Variants = {1, 2}
  Garbled = {1}
  H0 = 10
  MaxBlocks = 3
  MaxOps = 3
  MaxDisc = 0
  Acts = {"Register", "Add", "Mine"}
  Emit = FALSE
SPECIFICATION Spec
INVARIANTS NoViolation Structure Conservation TrackersJustified ReorgedSane EmitInv
CONSTRAINT Bound
VIEW View
CHECK_DEADLOCK FALSE
