------------------------------ MODULE HttpApi ------------------------------
(***************************************************************************)
(* C15 - "Every HTTP request gets a documented answer; bad ones change     *)
(* nothing".  Decision table of the tower's public HTTP API.               *)
(*                                                                         *)
(* An ABSTRACT REQUEST is a record                                         *)
(*   fam     which family of the domain the request belongs to            *)
(*   method  HTTP method                                                   *)
(*   path    one of the four endpoints, ping, or a path that is no endpoint*)
(*   size    how the body length relates to the endpoint's size limit     *)
(*   body    what the body is (no JSON, JSON but no object, object, ...)   *)
(*   fc      per field of the endpoint's request: the class of its value   *)
(*   signer  who signed / which user the request is about (tower state)    *)
(*   loc     what the tower holds for the locator of the request           *)
(*   node    whether the tower can reach bitcoind                          *)
(*   ctype   what the Content-Type header says ("json" except in the one    *)
(*           family that varies it)                                        *)
(* and  Allowed(r)  is the set of outcomes the documentation and the       *)
(* property statement allow for it.  An outcome is [st, code]:             *)
(*   [st |-> 200, code |-> 0]   success, body = the documented reply       *)
(*   [st |-> s,   code |-> c]   status s, body = a JSON object             *)
(*                              {"error": <string>, "error_code": c}       *)
(*   Any4xx                     any status 400..499, nothing said about    *)
(*                              the body (only used where the property     *)
(*                              does not demand a JSON error: wrong method,*)
(*                              no endpoint, body of unacceptable size)    *)
(*   NoAnswer                   the connection is closed without a reply   *)
(*                              (only for byte strings that are no HTTP)   *)
(* Where the documentation is silent (which of several defects is          *)
(* reported, lenient acceptance of an undocumented form) the set has more  *)
(* than one element.  The obligations that do not depend on the request    *)
(* (Unchanged, Prompt, panics) are stated at the end as predicates over an *)
(* observation; lib/c15.py evaluates exactly these on what harness/api_rig *)
(* records from the real router.                                           *)
(***************************************************************************)
EXTENDS Integers, Sequences, FiniteSets, TLC

-----------------------------------------------------------------------------
(* Documented error codes (teos-common/src/errors.rs) named in the property *)
MISSING_FIELD == 1
EMPTY_FIELD == 2
WRONG_FIELD_TYPE == 3
WRONG_FIELD_SIZE == 4
WRONG_FIELD_FORMAT == 5
INVALID_REQUEST_FORMAT == 6
INVALID_SIGNATURE_OR_SUBSCRIPTION_ERROR == 7
SERVICE_UNAVAILABLE == 32
APPOINTMENT_ALREADY_TRIGGERED == 35
APPOINTMENT_NOT_FOUND == 36
REGISTRATION_RESOURCE_EXHAUSTED == 65
UNEXPECTED_ERROR == 255

DocumentedCodes == {MISSING_FIELD, EMPTY_FIELD, WRONG_FIELD_TYPE, WRONG_FIELD_SIZE, WRONG_FIELD_FORMAT,
                    INVALID_REQUEST_FORMAT, INVALID_SIGNATURE_OR_SUBSCRIPTION_ERROR, SERVICE_UNAVAILABLE,
                    APPOINTMENT_ALREADY_TRIGGERED, APPOINTMENT_NOT_FOUND, REGISTRATION_RESOURCE_EXHAUSTED}

(* HTTP status that goes with a documented code *)
StatusOf(c) == CASE c = INVALID_SIGNATURE_OR_SUBSCRIPTION_ERROR -> 401
                 [] c = APPOINTMENT_NOT_FOUND -> 404
                 [] c = SERVICE_UNAVAILABLE -> 503
                 [] OTHER -> 400

Ok == [st |-> 200, code |-> 0]
E(c) == [st |-> StatusOf(c), code |-> c]
Any4xx == [st |-> 499, code |-> -1]
NoAnswer == [st |-> 0, code |-> -1]

(* the answer must come within this many milliseconds *)
PromptMs == 5000

-----------------------------------------------------------------------------
(* Endpoints, their request-size limits and request fields                  *)
Endpoints == {"register", "add_appointment", "get_appointment", "get_subscription_info"}
OtherPaths == {"ping", "unknown", "root", "nested"}    \* nested = an endpoint followed by a further path segment
Paths == Endpoints \cup OtherPaths
Methods == {"POST", "GET", "PUT", "DELETE", "HEAD", "OPTIONS", "PATCH", "JUNK"}

Limit == [register |-> 87, add_appointment |-> 2048, get_appointment |-> 178, get_subscription_info |-> 127]

AllFields == {"user_id", "appointment", "locator", "encrypted_blob", "to_self_delay", "signature"}

FieldsOf(ep) == CASE ep = "register" -> {"user_id"}
                  [] ep = "add_appointment" -> {"appointment", "locator", "encrypted_blob", "to_self_delay", "signature"}
                  [] ep = "get_appointment" -> {"locator", "signature"}
                  [] ep = "get_subscription_info" -> {"signature"}

(* the fields that live inside the "appointment" object of add_appointment *)
Inner == {"locator", "encrypted_blob", "to_self_delay"}

Kind == [user_id |-> "key", appointment |-> "obj", locator |-> "hex16", encrypted_blob |-> "hexvar",
         to_self_delay |-> "u32", signature |-> "sig"]

Classes(kind) ==
    CASE kind = "key"    -> {"absent", "wrongtype", "empty", "wrongsize", "oddhex", "nonhex", "badpoint", "valid"}
      [] kind = "hex16"  -> {"absent", "wrongtype", "empty", "wrongsize", "oddhex", "nonhex", "valid"}
      [] kind = "hexvar" -> {"absent", "wrongtype", "empty", "oddhex", "nonhex", "valid"}
      [] kind = "u32"    -> {"absent", "wrongtype", "outofrange", "valid"}
      [] kind = "sig"    -> {"absent", "wrongtype", "empty", "garbage", "wrongmsg", "valid"}
      [] kind = "obj"    -> {"absent", "null", "wrongtype", "object"}

Good(kind) == IF kind = "obj" THEN "object" ELSE "valid"

(* What a defect of one field is reported as, were it the only defect.     *)
Defect(kind, cls) ==
    CASE cls = "absent"     -> {E(MISSING_FIELD)}
      [] cls = "null"       -> {E(MISSING_FIELD), E(WRONG_FIELD_TYPE)}       \* an optional object given as null
      [] cls = "wrongtype"  -> {E(WRONG_FIELD_TYPE)}
      [] cls = "empty"      -> {E(EMPTY_FIELD)}
      [] cls = "wrongsize"  -> {E(WRONG_FIELD_SIZE)}
      [] cls = "oddhex"     -> {E(WRONG_FIELD_FORMAT)}
      [] cls = "nonhex"     -> {E(WRONG_FIELD_FORMAT)}
      [] cls = "badpoint"   -> {E(WRONG_FIELD_FORMAT)}                         \* 33 bytes that are no public key
      [] cls = "outofrange" -> {E(WRONG_FIELD_TYPE), E(WRONG_FIELD_SIZE), E(INVALID_REQUEST_FORMAT)}   \* not said which
      [] cls = "garbage"    -> {E(INVALID_SIGNATURE_OR_SUBSCRIPTION_ERROR)}   \* a string that is no signature
      [] cls = "wrongmsg"   -> {E(INVALID_SIGNATURE_OR_SUBSCRIPTION_ERROR)}   \* a signature of something else
      [] OTHER              -> {}

(* A defect the tower may also let pass: none.  (An empty encrypted blob    *)
(* used to be let through and was then stored without costing a slot, which *)
(* breaks C07's "never less than one"; repaired in the code - it is now     *)
(* refused with EMPTY_FIELD like an empty locator or signature.)            *)
Lenient(kind, cls) == FALSE

-----------------------------------------------------------------------------
(* Tower state classes                                                      *)
(*   signer: register: "new" | "reg" (already registered) | "maxed" (one    *)
(*             more registration overflows the slot counter)                *)
(*           others:   "unreg" | "reg" | "expired" | "noslots"              *)
(*   loc:    "na" | "fresh" (tower holds nothing) | "watched" (appointment  *)
(*           held) | "triggered" (a tracker exists) | "resolved" (dispute   *)
(*           confirmed, the node said the penalty is already on chain: the  *)
(*           appointment is still held, there is no tracker)                *)
StateCombos(ep) ==
    CASE ep = "register" -> {<<"new", "na">>, <<"reg", "na">>, <<"maxed", "na">>}
      [] ep = "add_appointment" -> {<<"unreg", "fresh">>, <<"expired", "fresh">>, <<"noslots", "fresh">>,
                                    <<"reg", "fresh">>, <<"reg", "watched">>, <<"reg", "triggered">>, <<"reg", "resolved">>}
      [] ep = "get_appointment" -> {<<"unreg", "watched">>, <<"expired", "watched">>, <<"reg", "fresh">>,
                                    <<"reg", "watched">>, <<"reg", "triggered">>, <<"reg", "resolved">>}
      [] ep = "get_subscription_info" -> {<<"unreg", "na">>, <<"expired", "na">>, <<"reg", "na">>, <<"noslots", "na">>}

DefaultState(ep) ==
    CASE ep = "register" -> <<"new", "na">>
      [] ep = "add_appointment" -> <<"reg", "fresh">>
      [] ep = "get_appointment" -> <<"reg", "watched">>
      [] ep = "get_subscription_info" -> <<"reg", "na">>

(* The answer to a request whose every field is well formed.                *)
StateOutcome(ep, signer, loc, node) ==
    IF node = "down" THEN {E(SERVICE_UNAVAILABLE)}
    ELSE CASE ep = "register" ->
                IF signer = "maxed" THEN {E(REGISTRATION_RESOURCE_EXHAUSTED)} ELSE {Ok}
           [] ep = "add_appointment" ->
                IF signer # "reg" THEN {E(INVALID_SIGNATURE_OR_SUBSCRIPTION_ERROR)}
                ELSE IF loc = "triggered" THEN {E(APPOINTMENT_ALREADY_TRIGGERED)} ELSE {Ok}
           [] ep = "get_appointment" ->
                IF signer \in {"unreg", "expired"} THEN {E(INVALID_SIGNATURE_OR_SUBSCRIPTION_ERROR)}
                ELSE IF loc = "fresh" THEN {E(APPOINTMENT_NOT_FOUND)} ELSE {Ok}
           [] ep = "get_subscription_info" ->
                IF signer \in {"unreg", "expired"} THEN {E(INVALID_SIGNATURE_OR_SUBSCRIPTION_ERROR)} ELSE {Ok}

-----------------------------------------------------------------------------
(* Field-class assignments of an endpoint.  Fields that do not belong to    *)
(* the endpoint, and the inner fields of an "appointment" that is no        *)
(* object, are "na".                                                        *)
Applicable(ep, fc, f) ==
    /\ f \in FieldsOf(ep)
    /\ (ep = "add_appointment" /\ f \in Inner) => fc["appointment"] = "object"

FieldAssignments(ep) ==
    LET D(f) == IF f \notin FieldsOf(ep) THEN {"na"}
                ELSE IF ep = "add_appointment" /\ f \in Inner THEN Classes(Kind[f]) \cup {"na"}
                ELSE Classes(Kind[f])
        all == {[user_id |-> a, appointment |-> b, locator |-> c, encrypted_blob |-> d, to_self_delay |-> e,
                 signature |-> g] :
                    a \in D("user_id"), b \in D("appointment"), c \in D("locator"), d \in D("encrypted_blob"),
                    e \in D("to_self_delay"), g \in D("signature")}
    IN {fc \in all : \A f \in AllFields : IF Applicable(ep, fc, f) THEN fc[f] \in Classes(Kind[f]) ELSE fc[f] = "na"}

ValidFc(ep) == [f \in AllFields |-> IF f \in FieldsOf(ep) THEN Good(Kind[f]) ELSE "na"]

Defective(ep, fc) == {f \in AllFields : Applicable(ep, fc, f) /\ fc[f] # Good(Kind[f])}
Hard(ep, fc) == {f \in Defective(ep, fc) : ~Lenient(Kind[f], fc[f])}
DefectOutcomes(ep, fc, S) == UNION {Defect(Kind[f], fc[f]) : f \in S}

(* Which of several defects is reported is not documented: any of them.     *)
(* Whether the bitcoind check comes before or after validation is not       *)
(* documented either.                                                       *)
FieldOutcome(ep, fc, signer, loc, node) ==
    IF Hard(ep, fc) # {}
    THEN DefectOutcomes(ep, fc, Defective(ep, fc)) \cup (IF node = "down" THEN {E(SERVICE_UNAVAILABLE)} ELSE {})
    ELSE DefectOutcomes(ep, fc, Defective(ep, fc)) \cup StateOutcome(ep, signer, loc, node)

-----------------------------------------------------------------------------
(* Body classes other than a plain object (endpoint, POST, acceptable size) *)
BodyClasses == {"empty", "notjson", "truncated", "nonutf8", "trailing", "scalar", "array", "deep", "positional",
                "dupfield", "extrafield"}

BodyOutcome(ep, body, node) ==
    LET ds == DefaultState(ep)
        normal == StateOutcome(ep, ds[1], ds[2], node)
        down == IF node = "down" THEN {E(SERVICE_UNAVAILABLE)} ELSE {}
    IN CASE body \in {"empty", "notjson", "truncated", "nonutf8", "trailing"} -> {E(INVALID_REQUEST_FORMAT)} \cup down
         [] body \in {"scalar", "array", "deep"} -> {E(WRONG_FIELD_TYPE), E(INVALID_REQUEST_FORMAT)} \cup down
         \* the field values in declaration order as a JSON array: undocumented, may be refused or understood
         [] body = "positional" -> {E(WRONG_FIELD_TYPE), E(INVALID_REQUEST_FORMAT)} \cup normal
         \* a field given twice with the same (valid) value; an additional unknown field
         [] body \in {"dupfield", "extrafield"} -> {E(INVALID_REQUEST_FORMAT)} \cup normal

-----------------------------------------------------------------------------
(* Size classes (endpoint, POST, a valid object as body)                    *)
(*   natural  as produced by a client                                      *)
(*   atlimit  padded with JSON white space to exactly Limit[ep] bytes       *)
(*   over     longer than Limit[ep] (Content-Length says so)                *)
(*   nolength no Content-Length header and no body                         *)
(*   chunked  no Content-Length header, body sent with chunked encoding     *)
SizeClasses == {"natural", "atlimit", "over", "nolength", "chunked"}

SizeOutcome(ep, size, node) ==
    LET ds == DefaultState(ep)
        normal == StateOutcome(ep, ds[1], ds[2], node)
    IN CASE size \in {"natural", "atlimit"} -> normal
         [] size \in {"over", "chunked"} -> {Any4xx} \cup normal    \* refusing is documented (4xx); a larger limit is no defect
         [] size = "nolength" -> {Any4xx}

(* "the request addressed an existing endpoint with the right method and a body of acceptable size" *)
Addressed(r) == r.path \in Endpoints /\ r.method = "POST" /\ r.size \in {"natural", "atlimit"} /\ r.ctype = "json"

-----------------------------------------------------------------------------
(* Routing (everything that is not POST to an endpoint)                     *)
RouteOutcome(method, path) ==
    CASE path = "ping" /\ method = "GET" -> {Ok}
      [] path = "ping" /\ method = "HEAD" -> {Ok, Any4xx}
      [] path = "nested" /\ method = "POST" -> {Ok, Any4xx}      \* /register/x : an endpoint or not, not documented
      [] OTHER -> {Any4xx}

(* Byte strings that are not HTTP at all *)
RawClasses == {"garbage", "badversion", "hugeheader", "lf_only", "nul"}

-----------------------------------------------------------------------------
(* The abstract domain                                                      *)
NaFc == [f \in AllFields |-> "na"]

Req(fam, method, path, size, body, fc, signer, loc, node) ==
    [fam |-> fam, method |-> method, path |-> path, size |-> size, body |-> body, fc |-> fc, signer |-> signer,
     loc |-> loc, node |-> node, ctype |-> "json"]

RouteReq(m, p) ==
    Req("route", m, p, "natural", IF p \in Endpoints \cup {"nested"} THEN "object" ELSE "none",
        IF p \in Endpoints THEN ValidFc(p) ELSE IF p = "nested" THEN ValidFc("register") ELSE NaFc,
        IF p \in Endpoints THEN DefaultState(p)[1] ELSE IF p = "nested" THEN "new" ELSE "na",
        IF p \in Endpoints THEN DefaultState(p)[2] ELSE "na", "up")

(* POST to an endpoint is covered by the other families *)
RouteCases == {RouteReq(mp[1], mp[2]) : mp \in {x \in Methods \X Paths : ~(x[1] = "POST" /\ x[2] \in Endpoints)}}

SizeCases ==
    {Req("size", "POST", ep, s, "object", ValidFc(ep), DefaultState(ep)[1], DefaultState(ep)[2], n) :
        ep \in Endpoints, s \in SizeClasses \ {"natural"}, n \in {"up", "down"}}

BodyCases ==
    {Req("body", "POST", ep, "natural", b, ValidFc(ep), DefaultState(ep)[1], DefaultState(ep)[2], n) :
        ep \in Endpoints, b \in BodyClasses, n \in {"up", "down"}}

FieldCasesOf(ep) ==
    UNION {
        IF Hard(ep, fc) = {}        \* no defect, or only defects the tower may let pass (an empty blob): every tower state
        THEN {Req("fields", "POST", ep, "natural", "object", fc, sl[1], sl[2], n) : sl \in StateCombos(ep), n \in {"up", "down"}}
        ELSE {Req("fields", "POST", ep, "natural", "object", fc, DefaultState(ep)[1], DefaultState(ep)[2], n) : n \in {"up", "down"}}
        : fc \in FieldAssignments(ep)}

FieldCases == UNION {FieldCasesOf(ep) : ep \in Endpoints}

(* The property quantifies over methods, paths, sizes and body bytes, not over headers: every request of the    *)
(* other families declares its body as application/json.  What a different or missing Content-Type does to an *)
(* otherwise valid request is not documented (refusing with a 4xx or ignoring the header are both fine).      *)
CtypeClasses == {"absent", "other", "params"}       \* params = application/json with a parameter
CtypeCases ==
    {[Req("ctype", "POST", ep, "natural", "object", ValidFc(ep), DefaultState(ep)[1], DefaultState(ep)[2], n)
        EXCEPT !.ctype = ct] : ep \in Endpoints, ct \in CtypeClasses, n \in {"up", "down"}}

RawCases == {Req("raw", "JUNK", "unknown", "natural", c, NaFc, "na", "na", "up") : c \in RawClasses}

Domain == RouteCases \cup SizeCases \cup BodyCases \cup FieldCases \cup CtypeCases \cup RawCases

-----------------------------------------------------------------------------
(* THE TABLE                                                                *)
Allowed(r) ==
    CASE r.fam = "route"  -> RouteOutcome(r.method, r.path)
      [] r.fam = "size"   -> SizeOutcome(r.path, r.size, r.node)
      [] r.fam = "body"   -> BodyOutcome(r.path, r.body, r.node)
      [] r.fam = "fields" -> FieldOutcome(r.path, r.fc, r.signer, r.loc, r.node)
      [] r.fam = "ctype"  -> {Any4xx} \cup StateOutcome(r.path, r.signer, r.loc, r.node)
      \* (an otherwise valid GET /ping carrying an oversized header may also simply be served: whether the header fits
      \* the server's buffer is not documented, and was seen to depend on how the bytes arrive)
      [] r.fam = "raw"    -> {Any4xx, NoAnswer} \cup (IF r.body = "hugeheader" THEN {Ok} ELSE {})

(* The documented reply to a successful request: the keys of the JSON object *)
ReplyKeys(r) ==
    CASE r.path \in {"register", "nested"} -> {"user_id", "available_slots", "subscription_start", "subscription_expiry",
                                               "subscription_signature"}
      [] r.path = "add_appointment" -> {"locator", "start_block", "signature", "available_slots", "subscription_expiry"}
      [] r.path = "get_appointment" -> {"appointment", "status"}
      [] r.path = "get_subscription_info" -> {"available_slots", "subscription_expiry", "locators"}
      [] OTHER -> {}

(* get_appointment: what "appointment" holds and the status name *)
ReplyInner(r) ==
    IF r.path # "get_appointment" THEN {}
    ELSE IF r.loc = "triggered" THEN {"dispute_txid", "penalty_txid", "penalty_rawtx"}
    ELSE {"locator", "encrypted_blob", "to_self_delay"}
ReplyStatus(r) ==
    IF r.path # "get_appointment" THEN "" ELSE IF r.loc = "triggered" THEN "dispute_responded" ELSE "being_watched"

-----------------------------------------------------------------------------
(* Obligations on the table (checked by TLC for every abstract request)     *)
Total(r) == Allowed(r) # {}

Never5xx(r) == \A o \in Allowed(r) : o.st \in {0, 200, 503} \cup 400..499

NeverUnexpected(r) ==
    \A o \in Allowed(r) : /\ o.code # UNEXPECTED_ERROR
                          /\ o.code > 0 => o.code \in DocumentedCodes
                          /\ o.code > 0 => o.st = StatusOf(o.code)
                          /\ o.st = 503 => o.code = SERVICE_UNAVAILABLE

JsonErrorBody(r) == Addressed(r) => \A o \in Allowed(r) : o = Ok \/ o.code \in DocumentedCodes

(* 200 is only ever allowed where the request can be understood as a valid one *)
OkOnlyIfValid(r) ==
    Ok \in Allowed(r) =>
        \/ r.fam = "route" /\ r.path \in {"ping", "nested"}
        \/ r.fam = "raw" /\ r.body = "hugeheader"        \* GET /ping with an oversized (but well-formed) extra header
        \/ /\ r.path \in Endpoints /\ r.method = "POST" /\ r.node = "up"
           /\ Hard(r.path, r.fc) = {}
           /\ r.body \in {"object", "positional", "dupfield", "extrafield"}

(* a request with a defect that must be refused has no 200 among its outcomes *)
DefectsRefused(r) == (r.fam = "fields" /\ Hard(r.path, r.fc) # {}) => Ok \notin Allowed(r)

(* 503 exactly when bitcoind cannot be reached and nothing else is wrong *)
UnavailableOnlyWhenDown(r) == E(SERVICE_UNAVAILABLE) \in Allowed(r) => r.node = "down"
DownMeansUnavailable(r) ==
    (r.fam = "fields" /\ r.node = "down" /\ Defective(r.path, r.fc) = {}) => Allowed(r) = {E(SERVICE_UNAVAILABLE)}

-----------------------------------------------------------------------------
(* Obligations on an observation  obs = [answered, st, json, code, keys,    *)
(* elapsed_ms, pre, post, panicked]  of the real router for request r.      *)
Matches(obs, o) ==
    CASE o = NoAnswer -> ~obs.answered
      [] o = Any4xx   -> obs.answered /\ obs.st \in 400..499
      [] o = Ok       -> obs.answered /\ obs.st = 200
      [] OTHER        -> obs.answered /\ obs.st = o.st /\ obs.json /\ obs.keys = {"error", "error_code"} /\ obs.code = o.code

Documented(r, obs) == \E o \in Allowed(r) : Matches(obs, o)
Prompt(obs) == obs.elapsed_ms <= PromptMs
Unchanged(obs) == (~obs.answered \/ obs.st # 200) => obs.pre = obs.post
NoCrash(obs) == ~obs.panicked
Conforms(r, obs) == Documented(r, obs) /\ Prompt(obs) /\ Unchanged(obs) /\ NoCrash(obs)
=============================================================================
