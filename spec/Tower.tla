-------------------------------- MODULE Tower --------------------------------
(***************************************************************************)
(* Sequential specification of the rust-teos tower core (crates teos,      *)
(* teos-common): Gatekeeper, Watcher, Responder, Carrier, ChainMonitor.    *)
(*                                                                         *)
(* Every tower action is written FUNCTIONALLY: an operator from the tower  *)
(* state record, the action's arguments and the answers of the Bitcoin     *)
(* node (an "oracle" orc : Tx -> verdict) to the successor state, the      *)
(* reply and the set of transactions submitted to the node.  The same      *)
(* operators are used                                                      *)
(*   - by MC_Tower.tla (model checking: the environment chooses arguments  *)
(*     and node verdicts),                                                 *)
(*   - by Trace_Tower.tla (trace validation: arguments, verdicts and the   *)
(*     projected post-state are read from an implementation trace).        *)
(* One operator per critical section of the code, in code order; see       *)
(* DESIGN.md Appendix A for the reading of the code this transcribes.      *)
(*                                                                         *)
(* Abstractions: users and transactions are naturals; Loc(tx) = tx (no     *)
(* 16-byte prefix collisions); an encrypted blob is [key, pay, size] with  *)
(* Decrypt(blob, d) = pay iff key = d (C17 assumed); a user signature is   *)
(* the version number of the submission it signs.                          *)
(***************************************************************************)
EXTENDS Naturals, Integers, Sequences, FiniteSets, TxIndex

CONSTANTS CACHE_N,     \* blocks held by the Watcher's locator cache   (6)
          IDX_N,       \* blocks held by the Responder's tx index      (100)
          IRR,         \* confirmations for irrevocable resolution     (100)
          RETRY_N,     \* missed confirmations before a rebroadcast    (6)
          SLOT_SIZE,   \* bytes per slot                               (2048)
          SUB_S,       \* slots granted per registration
          SUB_D,       \* subscription duration (blocks)
          SUB_G,       \* grace period (expiry_delta)
          MAXU         \* largest counter value (u32::MAX in the code)

NoTx == 0
NoUser == 0

MinOf(a, b) == IF a < b THEN a ELSE b
MaxOf(a, b) == IF a > b THEN a ELSE b

\* Slots taken by a blob of n bytes.  n >= 1 through the public API (empty blobs are refused by
\* the HTTP layer), so this is never less than one.
Cost(n) == (n + SLOT_SIZE - 1) \div SLOT_SIZE

Decrypt(blob, d) == IF blob.key = d THEN blob.pay ELSE NoTx

\* Slots occupied by a set of appointment rows
RECURSIVE SumCost(_)
SumCost(S) == IF S = {} THEN 0 ELSE LET x == CHOOSE x \in S : TRUE IN Cost(x.size) + SumCost(S \ {x})

-----------------------------------------------------------------------------
(* State.  Durable (SQLite): users, appts, trackers, lastKnown.  Volatile: *)
(* gk (the Gatekeeper's copy of users), heights, caches, reorged, memo,    *)
(* reachable.  Tables are sets of records; (u,l) is the key of appts and   *)
(* trackers (UUID = RIPEMD160(locator || user)).                           *)
(*   users, gk : [u, slots, start, expiry]                                 *)
(*   appts     : [u, l, key, pay, size, tsd, ver, start]                   *)
(*   trackers  : [u, l, d, p, h, conf]                                     *)
(*   memo      : [tx, v, h]   (Carrier.issued_receipts)                    *)
(***************************************************************************)

Key(r) == <<r.u, r.l>>
HasUser(S, u) == \E r \in S : r.u = u
UserOf(S, u) == CHOOSE r \in S : r.u = u
HasKey(S, k) == \E r \in S : Key(r) = k
RowOf(S, k) == CHOOSE r \in S : Key(r) = k
BlobOf(a) == [key |-> a.key, pay |-> a.pay, size |-> a.size]

SetSlots(S, u, n) == {IF r.u = u THEN [r EXCEPT !.slots = n] ELSE r : r \in S}

\* ON DELETE CASCADE
DropAppts(st, ks) == [st EXCEPT !.appts = {a \in st.appts : Key(a) \notin ks},
                                !.trackers = {t \in st.trackers : Key(t) \notin ks}]
DropUsers(st, us) == [st EXCEPT !.users = {r \in st.users : r.u \notin us},
                                !.appts = {a \in st.appts : a.u \notin us},
                                !.trackers = {t \in st.trackers : t.u \notin us}]

-----------------------------------------------------------------------------
(* Node verdicts.  orc[tx] is what the node answers about tx during this   *)
(* action: "ok" (sendrawtransaction accepted), "rej" (-26/-25/-22/other),  *)
(* "res" (-27 already in chain), "mem" (not sent because getrawtransaction *)
(* reported it in the mempool), "none" (the node was not asked).           *)
(***************************************************************************)

MemoHas(memo, tx) == \E m \in memo : m.tx = tx
MemoOf(memo, tx) == CHOOSE m \in memo : m.tx = tx

\* Carrier::send_transaction: memoised answer or a fresh RPC.
\* Result: [v, h (height stamped when accepted), sent]
Send(st, memo, tx, orc) ==
    IF MemoHas(memo, tx)
    THEN [v |-> MemoOf(memo, tx).v, h |-> MemoOf(memo, tx).h, sent |-> FALSE]
    ELSE [v |-> IF orc[tx] \in {"ok", "rej", "res"} THEN orc[tx] ELSE "norpc", h |-> st.cH, sent |-> TRUE]

\* Responder::handle_breach for penalty p: index, then mempool, then send.
\* Result: [cls \in {"acc","rej","res","norpc"}, conf, h, hs (admissible recorded heights), sent]
HandleBreach(st, memo, p, orc) ==
    IF IdxHas(st.rIndex, p)
    THEN LET bh == IdxHeight(st.rIndex, IdxGet(st.rIndex, p))
         IN [cls |-> "acc", conf |-> TRUE, h |-> bh, hs |-> {bh}, sent |-> FALSE]
    ELSE IF orc[p] = "mem"
    THEN [cls |-> "acc", conf |-> FALSE, h |-> st.cH, hs |-> {st.wH, st.wH + 1}, sent |-> FALSE]
    ELSE LET s == Send(st, memo, p, orc)
         IN [cls |-> CASE s.v = "ok" -> "acc" [] s.v = "rej" -> "rej" [] s.v = "res" -> "res" [] OTHER -> "norpc",
             conf |-> FALSE, h |-> s.h, hs |-> {st.wH, st.wH + 1, s.h}, sent |-> s.sent]

MemoAdd(st, memo, tx, orc) ==
    IF MemoHas(memo, tx) \/ orc[tx] \notin {"ok", "rej", "res"} THEN memo
    ELSE memo \cup {[tx |-> tx, v |-> orc[tx], h |-> st.cH]}

-----------------------------------------------------------------------------
(* Public API.  Replies are records with a code:                           *)
(*  "ok" | "unavailable" | "auth" (authentication failure or not enough    *)
(*  slots: the same answer on the wire) | "expired" | "triggered" |        *)
(*  "notfound" | "maxslots".                                               *)
(***************************************************************************)

Reply(code) == [code |-> code]
Out(st, reply, sends) == [st |-> st, reply |-> reply, sends |-> sends, abort |-> "", hs |-> {}]

\* who: the registered user the request's signature recovers to, NoUser if it
\* recovers to no registered key (wrong message, other key, malformed, ...).
AuthFail(st, who) == who = NoUser \/ ~HasUser(st.gk, who)
Expired(st, u) == st.gkH >= UserOf(st.gk, u).expiry

RegisterF(st, u) ==
    IF ~st.reachable THEN Out(st, Reply("unavailable"), {})
    ELSE IF HasUser(st.gk, u)
    THEN LET r == UserOf(st.gk, u)
             ns == r.slots + SUB_S
             ne == MinOf(r.expiry + SUB_D, MAXU)
         IN IF ns > MAXU THEN Out(st, Reply("maxslots"), {})
            ELSE LET r2 == [r EXCEPT !.slots = ns, !.expiry = ne]
                     st2 == [st EXCEPT !.gk = (st.gk \ {r}) \cup {r2},
                                       \* UPDATE users ... WHERE user_id: touches the row if there is one
                                       !.users = {IF x.u = u THEN [x EXCEPT !.slots = ns, !.start = r.start, !.expiry = ne] ELSE x : x \in st.users}]
                 IN Out(st2, [code |-> "ok", slots |-> ns, start |-> r.start, expiry |-> ne], {})
    ELSE LET r == [u |-> u, slots |-> SUB_S, start |-> st.gkH, expiry |-> st.gkH + SUB_D]
             st2 == [st EXCEPT !.gk = st.gk \cup {r}, !.users = st.users \cup {r}]
         IN Out(st2, [code |-> "ok", slots |-> r.slots, start |-> r.start, expiry |-> r.expiry], {})

\* a = [l, blob = [key, pay, size], tsd, ver]
AddAppointmentF(st, who, a, orc) ==
    IF ~st.reachable THEN Out(st, Reply("unavailable"), {})
    ELSE IF AuthFail(st, who) THEN Out(st, Reply("auth"), {})
    ELSE IF Expired(st, who) THEN Out(st, [code |-> "expired", expiry |-> UserOf(st.gk, who).expiry], {})
    ELSE LET u == who
             k == <<u, a.l>>
             start == st.wH
         IN IF HasKey(st.trackers, k) THEN Out(st, Reply("triggered"), {})
            ELSE LET old == IF HasKey(st.appts, k) THEN Cost(RowOf(st.appts, k).size) ELSE 0
                     diff == Cost(a.blob.size) - old
                     ur == UserOf(st.gk, u)
                 IN IF diff > ur.slots THEN Out(st, Reply("auth"), {})
                    ELSE LET ns == ur.slots - diff
                             st1 == [st EXCEPT !.gk = SetSlots(st.gk, u, ns), !.users = SetSlots(st.users, u, ns)]
                             row == [u |-> u, l |-> a.l, key |-> a.blob.key, pay |-> a.blob.pay, size |-> a.blob.size,
                                     tsd |-> a.tsd, ver |-> a.ver, start |-> start]
                             okReply == [code |-> "ok", start |-> start, slots |-> ns, expiry |-> ur.expiry, ver |-> a.ver]
                         IN IF ~IdxHas(st.wCache, a.l)
                            THEN \* store_appointment: insert or update
                                 Out([st1 EXCEPT !.appts = {x \in st1.appts : Key(x) # k} \cup {row}], okReply, {})
                            ELSE \* store_triggered_appointment with dispute d = the cached transaction
                                 LET d == a.l
                                     p == Decrypt(a.blob, d)
                                 IN IF p = NoTx THEN Out(DropAppts(st1, {k}), okReply, {})   \* invalid blob: charged, nothing stored;
                                                                                              \* a version being replaced is dropped with it
                                    ELSE LET hb == HandleBreach(st1, st1.memo, p, orc)
                                             \* stored, or updated when it is already held (held without a tracker: its
                                             \* penalty was found already on chain when the dispute was first seen)
                                             st2 == [st1 EXCEPT !.appts = {x \in st1.appts : Key(x) # k} \cup {row},
                                                                !.memo = IF hb.sent THEN MemoAdd(st1, st1.memo, p, orc) ELSE st1.memo]
                                             snd == IF hb.sent THEN {p} ELSE {}
                                         IN CASE hb.cls = "acc" ->
                                                   [st |-> [st2 EXCEPT !.trackers = st2.trackers \cup
                                                               {[u |-> u, l |-> a.l, d |-> d, p |-> p, h |-> hb.h, conf |-> hb.conf]}],
                                                    reply |-> okReply, sends |-> snd, abort |-> "", hs |-> {<<k, hb.hs>>}]
                                              [] hb.cls = "rej" -> Out(DropAppts(st2, {k}), okReply, snd)
                                              [] hb.cls = "res" -> Out(st2, okReply, snd)
                                              [] OTHER -> [st |-> st2, reply |-> okReply, sends |-> snd, abort |-> "norpc", hs |-> {}]

GetAppointmentF(st, who, l) ==
    IF ~st.reachable THEN Reply("unavailable")
    ELSE IF AuthFail(st, who) THEN Reply("auth")
    ELSE IF Expired(st, who) THEN [code |-> "expired", expiry |-> UserOf(st.gk, who).expiry]
    ELSE LET k == <<who, l>>
         IN IF HasKey(st.trackers, k)
            THEN LET t == RowOf(st.trackers, k) IN [code |-> "ok", status |-> "responded", d |-> t.d, p |-> t.p]
            ELSE IF HasKey(st.appts, k)
            THEN LET x == RowOf(st.appts, k)
                 IN [code |-> "ok", status |-> "watched", l |-> l, key |-> x.key, pay |-> x.pay, size |-> x.size, tsd |-> x.tsd]
            ELSE Reply("notfound")

GetSubscriptionInfoF(st, who) ==
    IF ~st.reachable THEN Reply("unavailable")
    ELSE IF AuthFail(st, who) THEN Reply("auth")
    ELSE IF Expired(st, who) THEN [code |-> "expired", expiry |-> UserOf(st.gk, who).expiry]
    ELSE LET r == UserOf(st.gk, who)
         IN [code |-> "ok", slots |-> r.slots, expiry |-> r.expiry, locators |-> {x.l : x \in {y \in st.appts : y.u = who}}]

-----------------------------------------------------------------------------
(* Chain events.  chain::Listen is called on (gatekeeper, (watcher,        *)
(* responder)) in that order; each call is one action.                     *)
(* blk = [id, h, keys]: keys = ids of the transactions in the block.       *)
(***************************************************************************)

GkConnectF(st, h) ==
    LET outdated == {r.u : r \in {x \in st.gk : h >= x.expiry + SUB_G}}
        st1 == [st EXCEPT !.gk = {r \in st.gk : r.u \notin outdated}]
    IN [DropUsers(st1, outdated) EXCEPT !.gkH = h]

\* Watcher::filtered_block_connected
WConnectF(st, blk, orc) ==
    LET cache2 == IdxUpdate(st.wCache, blk, CACHE_N)
        breached == {a \in st.appts : a.l \in blk.keys}
        pen(a) == Decrypt(BlobOf(a), a.l)
        hb(a) == HandleBreach(st, st.memo, pen(a), orc)
        valid == {a \in breached : pen(a) # NoTx}
        invalid == {a \in breached : pen(a) = NoTx} \cup {a \in valid : hb(a).cls = "rej"}
        accepted == {a \in valid : hb(a).cls = "acc"}
        norpc == {a \in valid : hb(a).cls = "norpc"}
        \* a tracker that already exists is left as it is (duplicate insert tolerated)
        newT == {[u |-> a.u, l |-> a.l, d |-> a.l, p |-> pen(a), h |-> hb(a).h, conf |-> hb(a).conf] :
                    a \in {x \in accepted : ~HasKey(st.trackers, Key(x))}}
        sent == {pen(a) : a \in {x \in valid : hb(x).sent}}
        memo2 == st.memo \cup {[tx |-> p, v |-> orc[p], h |-> st.cH] : p \in {q \in sent : orc[q] \in {"ok", "rej", "res"}}}
        st1 == [st EXCEPT !.wCache = cache2, !.trackers = st.trackers \cup newT, !.memo = memo2, !.wH = blk.h]
    IN [st |-> DropAppts(st1, {Key(a) : a \in invalid}), reply |-> Reply("ok"), sends |-> sent,
        abort |-> IF norpc # {} THEN "norpc" ELSE "",
        hs |-> {<<Key(a), hb(a).hs>> : a \in {x \in accepted : ~HasKey(st.trackers, Key(x))}}]

\* Responder::filtered_block_connected
RConnectF(st, blk, orc) ==
    LET h == blk.h
        stA == [st EXCEPT !.cH = h, !.rIndex = IdxUpdate(st.rIndex, blk, IDX_N)]
        \* check_confirmations
        inblk(t) == t.p \in blk.keys
        T1 == {IF inblk(t) THEN [t EXCEPT !.h = h, !.conf = TRUE] ELSE t : t \in st.trackers}
        reorged1 == st.reorged \ {Key(t) : t \in {x \in st.trackers : inblk(x)}}
        completed == {t \in st.trackers : ~inblk(t) /\ Key(t) \notin st.reorged /\ t.conf /\ h >= t.h /\ h - t.h = IRR}
        \* delete_appointments(completed, refund = true)
        refund(u) == SumCost({a \in st.appts : a.u = u /\ \E t \in completed : Key(t) = Key(a)})
        users2(S) == {IF refund(r.u) > 0 THEN [r EXCEPT !.slots = r.slots + refund(r.u)] ELSE r : r \in S}
        ck == {Key(t) : t \in completed}
        stB == DropAppts([stA EXCEPT !.trackers = T1, !.gk = users2(stA.gk), !.users = users2(stA.users)], ck)
        \* handle_reorged_txs (only when the set is not empty); every class is a function of the transaction
        cls(tx) == Send(stB, st.memo, tx, orc)
        \* trackers deleted since they were flagged (owner purged, appointment dropped) are skipped
        RT == {t \in stB.trackers : Key(t) \in reorged1}
        dOk(t) == cls(t.d).v \in {"ok", "res"}
        rDrop == {t \in RT : ~dOk(t) \/ cls(t.p).v = "rej"}
        rKeep == RT \ rDrop
        T3 == {IF t \in rKeep THEN [t EXCEPT !.h = h, !.conf = FALSE] ELSE t : t \in stB.trackers}
        \* rebroadcast_stale_txs: unconfirmed for RETRY_N blocks or more
        stale == {t \in T3 : ~t.conf /\ h >= RETRY_N /\ t.h <= h - RETRY_N}
        sDrop == {t \in stale : cls(t.p).v = "rej"}
        \* cls = "res" (already on chain, in a block not processed yet): the tracker is left as it is
        sOk == {t \in stale : cls(t.p).v = "ok"}
        T4 == {IF t \in sOk THEN [t EXCEPT !.h = cls(t.p).h] ELSE t : t \in T3}
        asked == {t.d : t \in RT} \cup {t.p : t \in {x \in RT : dOk(x)}} \cup {t.p : t \in stale}
        sent == {tx \in asked : ~MemoHas(st.memo, tx)}
        norpc == \E tx \in asked : cls(tx).v = "norpc"
        drops == {Key(t) : t \in rDrop \cup sDrop}
        stC == DropAppts([stB EXCEPT !.trackers = T4, !.reorged = {}, !.memo = {}], drops)
    IN [st |-> stC, reply |-> Reply("ok"), sends |-> sent,
        abort |-> IF norpc THEN "norpc" ELSE "",
        hs |-> {<<Key(t), {h, cls(t.p).h}>> : t \in sOk} \cup {<<Key(t), {h}>> : t \in rKeep}]

GkDisconnectF(st, h) == [st EXCEPT !.gkH = h - 1]
WDisconnectF(st, blk) == [st EXCEPT !.wCache = IdxDisconnect(st.wCache, blk.id), !.wH = blk.h - 1]
RDisconnectF(st, blk) ==
    [st EXCEPT !.cH = blk.h,   \* sic
               !.rIndex = IdxDisconnect(st.rIndex, blk.id),
               !.reorged = st.reorged \cup {Key(t) : t \in {x \in st.trackers : x.conf /\ x.h = blk.h}}]

\* End of ChainMonitor::poll_best_tip
PollOkF(st, tipId) == [st EXCEPT !.lastKnown = tipId, !.reachable = TRUE]
PollCommonF(st) == [st EXCEPT !.reachable = TRUE]
PollTransientF(st) == [st EXCEPT !.reachable = FALSE]

\* Bootstrap (main.rs): volatile state rebuilt from the database and the last blocks of the node's chain
\* (newest IDX_N for the index, newest CACHE_N of those for the cache); tipH = height of the boot tip.
BootF(db, blocks, tipH) ==
    LET n == Len(blocks)
    IN [users |-> db.users, appts |-> db.appts, trackers |-> db.trackers,
        \* the first bootstrap persists the block it starts from
        lastKnown |-> IF db.lastKnown = 0 /\ n > 0 THEN blocks[n].id ELSE db.lastKnown,
        gk |-> db.users, gkH |-> tipH, wH |-> tipH, cH |-> tipH,
        wCache |-> IF n <= CACHE_N THEN blocks ELSE SubSeq(blocks, n - CACHE_N + 1, n),
        rIndex |-> blocks, reorged |-> {}, memo |-> {}, reachable |-> TRUE]

-----------------------------------------------------------------------------
(* The operator's view (private API behind teos-cli): read-only functions of the state. *)
(***************************************************************************)
WatcherAppts(st) == {a \in st.appts : ~HasKey(st.trackers, Key(a))}      \* held by the Watcher: not (yet) responded

CliViewF(st, asked) ==
    [n_users    |-> Cardinality(st.gk),
     n_appts    |-> Cardinality(WatcherAppts(st)),
     n_trackers |-> Cardinality(st.trackers),
     reachable  |-> st.reachable,
     users      |-> {r.u : r \in st.gk},
     per_user   |-> {IF HasUser(st.gk, u)
                     THEN <<u, "ok", UserOf(st.gk, u).slots, UserOf(st.gk, u).expiry, {a.l : a \in {x \in st.appts : x.u = u}}>>
                     ELSE <<u, "notfound", 0, 0, {}>> : u \in asked},
     appts      |-> {<<a.l, a.key, a.pay, a.size, a.tsd>> : a \in WatcherAppts(st)},
     trackers   |-> {<<t.d, t.p>> : t \in st.trackers}]

-----------------------------------------------------------------------------
(* Structural invariants of the durable state (foreign keys, C03/C07).     *)
(***************************************************************************)

NoDangling(st) ==
    /\ \A t \in st.trackers : HasKey(st.appts, Key(t))
    /\ \A a \in st.appts : HasUser(st.users, a.u)
UniqueKeys(st) ==
    /\ \A a, b \in st.appts : Key(a) = Key(b) => a = b
    /\ \A a, b \in st.trackers : Key(a) = Key(b) => a = b
    /\ \A a, b \in st.users : a.u = b.u => a = b
ThreeCopies(st) == st.gk = st.users
=============================================================================
