CONSTANTS
  DEVIATIONS = {"S16"}
SPECIFICATION Spec
POSTCONDITION Accepted
CHECK_DEADLOCK FALSE
