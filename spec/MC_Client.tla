------------------------------ MODULE MC_Client ------------------------------
(***************************************************************************)
(* State machine around Client.tla: the client of C05 / C13 / C14 in a     *)
(* bounded environment.  Configurations:                                   *)
(*   MC_ClientSafety.cfg  invariants (2 towers, 2 locators, <= 2           *)
(*                        concurrent notifications, <= 1 kill, every reply *)
(*                        class per request)                               *)
(*   MC_ClientLive.cfg    temporal property Delivered under fairness       *)
(* DEVIATIONS = {} : the intended design must satisfy everything (else the *)
(* specification is wrong).  With a confirmed deviation switched on TLC    *)
(* produces the counterexample (anti-vacuity; lib/clientlib.py expects it).*)
(* Budgets bound the environment; they live in the variable b.             *)
(***************************************************************************)
EXTENDS Client

CONSTANTS MaxNotify,     \* notifications per locator (2 = one duplicate)
          MaxConc,       \* notification handlers in flight
          MaxKill, MaxBad, MaxDown, MaxRetry, MaxAbandon, MaxReg,
          AddKinds,      \* reply classes the towers use for add_appointment (besides accept)
          RegKinds       \* for register (besides an extending accept): subset of {"same", "badsig", "garbage"}

VARIABLES c, b
vars == <<c, b>>

Reg0(st, t) == AddUpdateTower(st, t, 0, 10, 1, 10)

RECURSIVE RegAll(_, _)
RegAll(st, ts) == IF ts = {} THEN st ELSE LET t == CHOOSE x \in ts : TRUE IN RegAll(Reg0(st, t), ts \ {t})

Init ==
    /\ c = [InitClient EXCEPT !.st = RegAll(EmptyStore, Towers)]
    /\ b = [notif |-> [l \in Locators |-> 0], kill |-> 0, bad |-> 0, down |-> 0, retry |-> 0, abandon |-> 0, reg |-> 0]

\* ---- visible steps -------------------------------------------------------
DoNotifyCall ==
    \E l \in Locators :
       /\ c.alive /\ b.notif[l] < MaxNotify /\ Cardinality(c.nots) < MaxConc
       /\ \A n \in c.nots : n.l # l
       /\ c' \in NotifyCall(c, l, l)
       /\ b' = [b EXCEPT !.notif[l] = @ + 1]

DoNotifyRet == \E n \in c.nots : NotifyCanRet(c, n) /\ c' = NotifyRet(c, n) /\ UNCHANGED b

DoRegCall ==
    \E t \in Towers :
       /\ c.alive /\ b.reg < MaxReg /\ \A g \in c.regs : g.t # t
       /\ c' \in RegCall(c, t, t, 0)
       /\ b' = [b EXCEPT !.reg = @ + 1]

DoRegRet == \E g \in c.regs : g.pc \in {"ok", "err"} /\ c' = RegRet(c, g) /\ UNCHANGED b

\* a request reaches a tower that is up (the sender kinds use different sequence numbers: 1 handler, 2 registertower,
\* 3 retrier / appointment, 4 retrier / renewal)
DoSendAt(t) ==
    /\ c.up[t] /\ c.alive /\ UNCHANGED b
    /\ \/ \E n \in c.nots : NotifyCanSend(c, n, t) /\ c' = NotifySend(c, n, t, 1)
       \/ \E g \in c.regs : g.t = t /\ RegCanSend(c, g) /\ c' = RegSend(c, g, 2)
       \/ \E l \in Locators : RunCanSendAdd(c, t, l, 0) /\ c' = RunSendAdd(c, t, l, 3)
       \/ RunCanSendReg(c, t, 0) /\ c' = RunSendReg(c, t, 4)

DoSend == \E t \in Towers : DoSendAt(t)

\* what a tower may answer
SlotsNow(t) == IF t \in DbKnown(c.st) THEN DbTower(c.st, t).slots ELSE 0
ExpNow(t) == IF t \in MemKnown(c.st) THEN Mem(c.st, t).expiry ELSE 0
AddReplies(t) ==
    {[NoRep EXCEPT !.cls = "accept", !.slots = IF SlotsNow(t) > 0 THEN SlotsNow(t) - 1 ELSE 0]}
    \cup {[NoRep EXCEPT !.cls = k] : k \in AddKinds}
RegReplies(t) ==
    {[NoRep EXCEPT !.cls = "accept", !.slots = SlotsNow(t) + 1, !.start = 1, !.expiry = ExpNow(t) + 1]}
    \cup (IF "same" \in RegKinds THEN {[NoRep EXCEPT !.cls = "accept", !.slots = SlotsNow(t) + 1, !.start = 1, !.expiry = ExpNow(t)]} ELSE {})
    \cup {[NoRep EXCEPT !.cls = k] : k \in RegKinds \ {"same"}}

IsGood(t, k, r) == r.cls = "accept" /\ (k \in {1, 3} \/ r.expiry > ExpNow(t))

DoReply ==
    \E t \in Towers, k \in 1..4 :
       \E r \in (IF k \in {1, 3} THEN AddReplies(t) ELSE RegReplies(t)) :
          /\ (IsGood(t, k, r) \/ b.bad < MaxBad)
          /\ c' \in ReplySet(c, t, k, r)
          /\ c' # c
          /\ b' = IF IsGood(t, k, r) THEN b ELSE [b EXCEPT !.bad = @ + 1]

DoRetry == \E t \in Towers : /\ b.retry < MaxRetry
                             /\ \E p \in ManualRetry(c, t) : c' = p[1]
                             /\ b' = [b EXCEPT !.retry = @ + 1]

DoAbandon == \E t \in Towers : /\ b.abandon < MaxAbandon
                               /\ \E p \in Abandon(c, t) : c' = p[1]
                               /\ b' = [b EXCEPT !.abandon = @ + 1]

DoDown == \E t \in Towers : c.up[t] /\ b.down < MaxDown /\ c' = SetUp(c, t, FALSE) /\ b' = [b EXCEPT !.down = @ + 1]
DoUp == \E t \in Towers : ~c.up[t] /\ c' = SetUp(c, t, TRUE) /\ UNCHANGED b

DoKill == c.alive /\ b.kill < MaxKill /\ c' = Kill(c) /\ b' = [b EXCEPT !.kill = @ + 1]
DoRestart == ~c.alive /\ c' = Restart(c) /\ UNCHANGED b

\* ---- hidden steps --------------------------------------------------------
DoHidden == c' \in Hidden(c, Tm0) /\ UNCHANGED b

Next == DoNotifyCall \/ DoNotifyRet \/ DoRegCall \/ DoRegRet \/ DoSend \/ DoReply \/ DoRetry \/ DoAbandon
        \/ DoDown \/ DoUp \/ DoKill \/ DoRestart \/ DoHidden

Spec == Init /\ [][Next]_vars

\* fairness: the client's own steps, the network and the towers (which end up reachable and well-behaved: budgets)
LiveSpec == Spec /\ WF_vars(DoHidden) /\ WF_vars(DoSend) /\ WF_vars(DoReply) /\ WF_vars(DoUp) /\ WF_vars(DoRestart)
                 /\ WF_vars(DoNotifyRet) /\ WF_vars(DoRegRet)

-----------------------------------------------------------------------------
InvNeverLost == NeverLost(c)
InvExactlyOne == ExactlyOne(c)
InvDataForResend == DataForResend(c)
InvOneLoop == OneLoop(c)
InvNoFlood == NoFlood(c)
InvEndsUnreachable == EndsUnreachable(c)
InvMapSound == MapSound(c)
InvBadSig == BadSig(c)
InvMisbehaving == Misbehaving(c)
InvSurvives == Survives(c)
InvStore == WellFormed(c.st) /\ (c.alive => MemKnown(c.st) = DbKnown(c.st))

\* C13 ManualRetryGate: retrytower is accepted exactly in the documented states - the retrier of the tower idles, or there
\* is none and the tower is shown unreachable / with a subscription error - and then the retry manager is told
Gate(t) == /\ t \in MemKnown(c.st)
           /\ \/ c.inmap[t] = "idle"
              \/ c.inmap[t] = "none" /\ Mem(c.st, t).status \in {"unreachable", "subscription_error"}
InvManualRetryGate ==
    \A t \in Towers : \A p \in ManualRetry(c, t) :
       /\ (p[2] = "ok") = Gate(t)
       /\ (p[2] = "ok") => \E m \in p[1].chan : m.t = t /\ m.k \in {"none", "stale"}
       /\ (p[2] # "ok") => p[1] = c

\* C14 RegRecorded: every stored registration receipt came from an answer that verified (the other answers of this model
\* carry expiry 0) and strictly extended the subscription known at the time (no two receipts of a tower with one expiry)
InvRegRecorded ==
    /\ \A r \in c.st.db.regs : r.expiry > 0 /\ r.slots > 0
    /\ \A r1, r2 \in c.st.db.regs : (r1.t = r2.t /\ r1.expiry = r2.expiry) => r1 = r2

\* C13 Delivered: with towers that end up reachable and well-behaved, every tower that is neither abandoned nor
\* misbehaving (nor left with a subscription the tower refuses to extend) gets everything and is shown reachable
Settled(t) == \/ ~c.alive
              \/ t \notin MemKnown(c.st)
              \/ HasProof(c.st.db, t)
              \/ (PendOf(c.st.db, t) = {} /\ Mem(c.st, t).status = "reachable")
Delivered == \A t \in Towers : []<>Settled(t)
=============================================================================
