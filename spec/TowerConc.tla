------------------------------ MODULE TowerConc ------------------------------
(***************************************************************************)
(* Lock programs of the tower's operations (DESIGN.md Appendix E, updated  *)
(* for the code after the C10/C11 repairs): every operation is the         *)
(* sequence of mutex acquisitions and releases the code performs.          *)
(* Locks: U registered_users, D database, K locator cache, C carrier,      *)
(* I tx index, R reorged trackers.  TLC explores every interleaving of the *)
(* chosen operations; a state in which some operation is unfinished and    *)
(* none can take its next step is a circular wait (C11).                   *)
(*                                                                         *)
(* OldOrder = TRUE gives the lock programs of the code BEFORE the repairs  *)
(* (refund: D then U; rebroadcast: D then C; add_appointment taking K only *)
(* for the store): TLC then finds the deadlocks the schedule exploration   *)
(* found on the real threads (vacuity check of this model).                *)
(***************************************************************************)
EXTENDS Naturals, Sequences, FiniteSets

CONSTANTS Ops,        \* the operations running concurrently, e.g. {"add_trig", "block_complete"}
          OldOrder

A(l) == <<"acq", l>>
Rl(l) == <<"rel", l>>
\* X{ ... }: hold X around a program
Hold(l, p) == <<A(l)>> \o p \o <<Rl(l)>>
Seq2(a, b) == a \o b
D1 == Hold("D", <<>>)
Auth == Hold("U", <<>>) \o Hold("U", <<>>)               \* authenticate_user ; has_subscription_expired
Charge == Hold("U", D1 \o D1)                              \* add_update_appointment
Respond == Hold("C", Hold("I", D1))                        \* handle_breach (RPCs inside) ; add_tracker

Program(op) ==
    CASE op = "register" -> Hold("U", D1)
      [] op = "get" -> Auth \o D1
      [] op = "add_new" -> IF OldOrder THEN Auth \o D1 \o Charge \o Hold("K", D1)
                           ELSE Auth \o Hold("K", D1 \o Charge \o D1)
      [] op = "add_trig" -> IF OldOrder THEN Auth \o D1 \o Charge \o Hold("K", D1 \o Respond \o D1)
                            ELSE Auth \o Hold("K", D1 \o Charge \o D1 \o Respond \o D1)
      \* a block: gatekeeper, watcher (one breach), responder
      [] op = "block_breach" -> Auth \o D1                                        \* get_outdated_users ; remove ; batch delete
                                \o (IF OldOrder THEN Hold("K", <<>>) \o D1 \o D1 \o D1 \o Respond \o D1
                                    ELSE Hold("K", D1 \o D1 \o D1 \o Respond \o D1))
                                \o Hold("C", <<>>) \o Hold("I", <<>>) \o Hold("R", D1) \o Hold("R", <<>>)
                                \o (IF OldOrder THEN Hold("D", Hold("C", <<>>)) ELSE Hold("C", D1)) \o Hold("C", <<>>)
      \* a block completing a tracker (refund) and rebroadcasting a stale penalty
      [] op = "block_complete" -> Auth \o D1 \o (IF OldOrder THEN Hold("K", <<>>) \o D1 ELSE Hold("K", D1))
                                  \o Hold("C", <<>>) \o Hold("I", <<>>) \o Hold("R", D1)
                                  \o (IF OldOrder THEN Hold("D", Hold("U", <<>>)) ELSE Hold("U", D1))
                                  \o Hold("R", <<>>)
                                  \o (IF OldOrder THEN Hold("D", Hold("C", <<>>)) ELSE Hold("C", D1)) \o Hold("C", <<>>)
      \* first block after a reorg: handle_reorged_txs
      [] op = "block_reorged" -> Auth \o D1 \o (IF OldOrder THEN Hold("K", <<>>) \o D1 ELSE Hold("K", D1))
                                 \o Hold("C", <<>>) \o Hold("I", <<>>) \o Hold("R", D1) \o Hold("R", <<>>) \o Hold("R", <<>>) \o Hold("C", D1)
                                 \o (IF OldOrder THEN Hold("D", Hold("C", <<>>)) ELSE Hold("C", D1)) \o D1 \o Hold("C", <<>>)
      [] op = "disconnect" -> Hold("K", <<>>) \o Hold("C", <<>>) \o Hold("I", <<>>) \o Hold("R", D1)
      [] OTHER -> <<>>

VARIABLES pc, holder

vars == <<pc, holder>>
Locks == {"U", "D", "K", "C", "I", "R"}

Init == pc = [o \in Ops |-> 1] /\ holder = [l \in Locks |-> "none"]

Done(o) == pc[o] > Len(Program(o))

Step(o) ==
    /\ ~Done(o)
    /\ LET ins == Program(o)[pc[o]]
       IN IF ins[1] = "acq"
          THEN holder[ins[2]] = "none" /\ holder' = [holder EXCEPT ![ins[2]] = o]
          ELSE holder' = [holder EXCEPT ![ins[2]] = "none"]
    /\ pc' = [pc EXCEPT ![o] = @ + 1]

Finished == (\A o \in Ops : Done(o)) /\ UNCHANGED vars

Next == (\E o \in Ops : Step(o)) \/ Finished
Spec == Init /\ [][Next]_vars

\* no thread takes a lock it already holds; a lock is released by its holder
Sane == \A o \in Ops : ~Done(o) =>
           LET ins == Program(o)[pc[o]] IN (ins[1] = "acq" => holder[ins[2]] # o) /\ (ins[1] = "rel" => holder[ins[2]] = o)

\* the order in which locks nest, accumulated over the programs: acyclic iff no circular wait is possible at all
Nest(o) == {<<Program(o)[i][2], Program(o)[j][2]>> : i \in 1..Len(Program(o)), j \in 1..Len(Program(o))} \cap
           {<<a, b>> \in Locks \X Locks : a # b}
=============================================================================
