------------------------------ MODULE MC_Config ------------------------------
(***************************************************************************)
(* Enumeration of the abstract configuration space of C20 and emission of  *)
(* one CASE line (JSON) per enumerated pair of sources, carrying the       *)
(* expected observations computed by Config.tla.  harness/cfg_rig runs     *)
(* every case on the real code and compares.                               *)
(*                                                                         *)
(* A case is a pair (file, cli) of concrete sources.  Values are chosen so *)
(* that the source of every effective value can be told from the value:    *)
(* FileVal, CliVal and the documented defaults are pairwise different for  *)
(* every option, and different between options of the same type (a value   *)
(* wired to the wrong option is seen).                                     *)
(*                                                                         *)
(* Families (each enumerated exhaustively; the options outside a family    *)
(* are filled in from a CONTEXT, and every family is run in every context  *)
(* of the constant Contexts):                                              *)
(*   "group"    the options verification looks at: network (absent, the    *)
(*              four names, unknown names) in file x command line, port    *)
(*              present / absent in both, every subset of the three        *)
(*              credential fields in both (8 x 8 combinations)             *)
(*   "plain"    the seven value options: every subset in the file x every  *)
(*              subset on the command line (4^7)                           *)
(*   "switch"   the three switches and the two destructive one-shot        *)
(*              switches: absent / false / true in the file x absent /     *)
(*              given on the command line (6^5)                            *)
(*   "fileonly" the seven options only the file can set: every subset      *)
(*   "portdef"  an explicit port that happens to be the default port of    *)
(*              some network (it is still explicit), network and port in   *)
(*              either source                                              *)
(*   "samevalue" the command line gives a value option the very value      *)
(*              that is its documented default while the file says         *)
(*              something else (it is still "given"): every non-empty      *)
(*              subset of the seven                                        *)
(*   "teoscli"  the admin tool: its two settings, present / absent in the  *)
(*              file x on its command line                                 *)
(*   "bin"      cases for the real teosd binary (subset of "group" plus    *)
(*              the one-shot switches)                                     *)
(***************************************************************************)
EXTENDS Config, TLC, Json

CONSTANTS Families,     \* which families to enumerate
          Contexts,     \* subset of {"bare", "fileall", "cliall", "full"}
          UnknownF,     \* unknown network names used in the file
          UnknownC,     \* unknown network names used on the command line
          BinFull,      \* TRUE: full product for the "bin" family; FALSE: rotating selection
          Emit          \* TRUE: print META and CASE lines

VARIABLES fam, ctxv     \* labels of the case (ghost)

vars == <<prog, file, cli, stage, conf, fam, ctxv>>

-----------------------------------------------------------------------------
FileVal ==
    [api_bind |-> "10.1.0.1", api_port |-> 11001, rpc_bind |-> "127.0.1.2", rpc_port |-> 11002,
     btc_rpc_connect |-> "127.0.0.2", tor_control_port |-> 11003, onion_hidden_service_port |-> 11004,
     btc_rpc_port |-> 21001,
     btc_rpc_user |-> "file-user", btc_rpc_password |-> "file-pass", btc_rpc_cookie |-> "file.cookie",
     subscription_slots |-> 77001, subscription_duration |-> 77002, expiry_delta |-> 77,
     min_to_self_delay |-> 78, polling_delta |-> 79,
     internal_api_bind |-> "10.1.0.3", internal_api_port |-> 51001]

CliVal ==
    [api_bind |-> "10.2.0.1", api_port |-> 12001, rpc_bind |-> "127.0.1.3", rpc_port |-> 12002,
     btc_rpc_connect |-> "127.0.0.3", tor_control_port |-> 12003, onion_hidden_service_port |-> 12004,
     btc_rpc_port |-> 22001,
     btc_rpc_user |-> "cli-user", btc_rpc_password |-> "cli-pass", btc_rpc_cookie |-> "cli.cookie"]

SwitchOpts == FlagOpts \cup OneShotOpts
Absent == "-"       \* "the source does not mention the network"

ASSUME Absent \notin KnownNetworks \cup UnknownF \cup UnknownC
ASSUME (UnknownF \cup UnknownC) \cap (KnownNetworks \cup {"main", "test"}) = {}   \* bitcoind's short names: unspecified corner
ASSUME DOMAIN FileVal = AllOpts \ (SwitchOpts \cup {NetOpt})
ASSUME DOMAIN CliVal = CliOpts \ (SwitchOpts \cup {NetOpt})
\* distinguishable values
ASSUME \A o \in DOMAIN CliVal : CliVal[o] # FileVal[o]
ASSUME \A o \in DOMAIN FileVal \ {RpcPortOpt} : FileVal[o] # DocDefault[o]
ASSUME \A o \in DOMAIN CliVal \ {RpcPortOpt} : CliVal[o] # DocDefault[o]
ASSUME \A n \in KnownNetworks : NetDefaultPort[n] \notin {FileVal[RpcPortOpt], CliVal[RpcPortOpt]}
ASSUME Cardinality({FileVal[o] : o \in PortOpts \cup {RpcPortOpt}} \cup {CliVal[o] : o \in PortOpts \cup {RpcPortOpt}})
           = 2 * Cardinality(PortOpts \cup {RpcPortOpt})
ASSUME Cardinality({FileVal[o] : o \in StrOpts \cup CredOpts} \cup {CliVal[o] : o \in StrOpts \cup CredOpts})
           = 2 * Cardinality(StrOpts \cup CredOpts)

-----------------------------------------------------------------------------
EmptyFn == [o \in {} |-> TRUE]
Restrict(f, S) == [o \in S |-> f[o]]
Without(f, S) == [o \in (DOMAIN f) \ S |-> f[o]]
Join(f, g) == [o \in (DOMAIN f) \cup (DOMAIN g) |-> IF o \in DOMAIN g THEN g[o] ELSE f[o]]
AllTrue(S) == [o \in S |-> TRUE]

NetPart(n) == IF n = Absent THEN EmptyFn ELSE [o \in {NetOpt} |-> n]
PortPart(b, vals) == IF b THEN Restrict(vals, {RpcPortOpt}) ELSE EmptyFn

\* Contexts: what the sources say about the options OUTSIDE the family being enumerated.  Every context is an
\* acceptable configuration on its own (so that the post-verification comparison also runs).
FullFile == Join(Restrict(FileVal, PlainOpts \cup FileOnlyOpts \cup {RpcPortOpt, "btc_rpc_user", "btc_rpc_password"}),
                 Join(NetPart("regtest"), AllTrue(SwitchOpts)))
FullCli  == Join(Restrict(CliVal, PlainOpts \cup {RpcPortOpt, "btc_rpc_user", "btc_rpc_password"}), NetPart("signet"))

CtxFile(ctx) == IF ctx \in {"full", "fileall"} THEN FullFile ELSE EmptyFn
CtxCli(ctx) ==
    CASE ctx = "bare"    -> Restrict(CliVal, {"btc_rpc_user", "btc_rpc_password"})
      [] ctx = "fileall" -> EmptyFn
      [] ctx = "full"    -> FullCli
      [] ctx = "cliall"  -> Join(FullCli, AllTrue(SwitchOpts))

CaseFile(ctx, own, part) == Join(Without(CtxFile(ctx), own), part)
CaseCli(ctx, own, part)  == Join(Without(CtxCli(ctx), own), part)

NetF == {Absent} \cup KnownNetworks \cup UnknownF
NetC == {Absent} \cup KnownNetworks \cup UnknownC

GroupFilePart(n, p, creds) == Join(NetPart(n), Join(PortPart(p, FileVal), Restrict(FileVal, creds)))
GroupCliPart(n, p, creds)  == Join(NetPart(n), Join(PortPart(p, CliVal), Restrict(CliVal, creds)))

InitGroup ==
    /\ "group" \in Families
    /\ \E ctx \in Contexts, fn \in NetF, cn \in NetC, fp \in BOOLEAN, cp \in BOOLEAN,
          fc \in SUBSET CredOpts, cc \in SUBSET CredOpts :
            /\ fam = "group" /\ ctxv = ctx
            /\ InitWith("teosd", CaseFile(ctx, GroupOpts, GroupFilePart(fn, fp, fc)),
                        CaseCli(ctx, GroupOpts, GroupCliPart(cn, cp, cc)))

InitPlain ==
    /\ "plain" \in Families
    /\ \E ctx \in Contexts, fs \in SUBSET PlainOpts, cs \in SUBSET PlainOpts :
            /\ fam = "plain" /\ ctxv = ctx
            /\ InitWith("teosd", CaseFile(ctx, PlainOpts, Restrict(FileVal, fs)),
                        CaseCli(ctx, PlainOpts, Restrict(CliVal, cs)))

InitSwitch ==
    /\ "switch" \in Families
    /\ \E ctx \in Contexts, fs \in SUBSET SwitchOpts, cs \in SUBSET SwitchOpts :
         \E fv \in [fs -> BOOLEAN] :
            /\ fam = "switch" /\ ctxv = ctx
            /\ InitWith("teosd", CaseFile(ctx, SwitchOpts, fv), CaseCli(ctx, SwitchOpts, AllTrue(cs)))

InitFileOnly ==
    /\ "fileonly" \in Families
    /\ \E ctx \in Contexts, fs \in SUBSET FileOnlyOpts :
            /\ fam = "fileonly" /\ ctxv = ctx
            /\ InitWith("teosd", CaseFile(ctx, FileOnlyOpts, Restrict(FileVal, fs)), CaseCli(ctx, FileOnlyOpts, EmptyFn))

InitPortDef ==
    /\ "portdef" \in Families
    /\ \E ctx \in Contexts, n \in {Absent} \cup KnownNetworks, pn \in KnownNetworks, nf \in BOOLEAN, pf \in BOOLEAN :
         LET np == NetPart(n)
             pp == [o \in {RpcPortOpt} |-> NetDefaultPort[pn]]
             cr == Restrict(FileVal, {"btc_rpc_cookie"})
         IN /\ n = Absent => nf      \* (no duplicates)
            /\ fam = "portdef" /\ ctxv = ctx
            /\ InitWith("teosd", CaseFile(ctx, GroupOpts, Join(cr, Join(IF nf THEN np ELSE EmptyFn, IF pf THEN pp ELSE EmptyFn))),
                        CaseCli(ctx, GroupOpts, Join(IF nf THEN EmptyFn ELSE np, IF pf THEN EmptyFn ELSE pp)))

InitSameValue ==
    /\ "samevalue" \in Families
    /\ \E ctx \in Contexts, cs \in SUBSET PlainOpts :
            /\ cs # {}
            /\ fam = "samevalue" /\ ctxv = ctx
            /\ InitWith("teosd", CaseFile(ctx, PlainOpts, Restrict(FileVal, PlainOpts)),
                        CaseCli(ctx, PlainOpts, Restrict(DocDefault, cs)))

\* teos-cli: its two settings in every presence combination; the rest of the (shared) file comes from the context
\* and must make no difference; its command line has nothing else.
InitTeosCli ==
    /\ "teoscli" \in Families
    /\ \E ctx \in Contexts, fs \in SUBSET ToolOpts, cs \in SUBSET ToolOpts :
            /\ fam = "teoscli" /\ ctxv = ctx
            /\ InitWith("teos-cli", CaseFile(ctx, ToolOpts, Restrict(FileVal, fs)), Restrict(CliVal, cs))
    \/ /\ "teoscli" \in Families         \* ... and the documented default given explicitly over a file value
       /\ \E cs \in (SUBSET ToolOpts) \ {{}} :
            /\ fam = "teoscli" /\ ctxv = "bare"
            /\ InitWith("teos-cli", Restrict(FileVal, ToolOpts), Restrict(ToolDocDefault, cs))

\* Cases for the real binary.  Network pairs <<file, command line>>: nothing; file only; command line only; both
\* (command line wins); unknown in either; a known name on the command line repairing an unknown one in the
\* file and the converse.
UF == CHOOSE n \in UnknownF : TRUE
UC == CHOOSE n \in UnknownC : TRUE
BinNets == << <<Absent, Absent>>, <<"regtest", Absent>>, <<Absent, "signet">>, <<"testnet", "regtest">>,
              <<UF, Absent>>, <<Absent, UC>>, <<UF, "mainnet">>, <<"regtest", UC>> >>
U == "btc_rpc_user"
P == "btc_rpc_password"
K == "btc_rpc_cookie"
BinCredsSel == << <<{U, P}, {}>>, <<{}, {U, P}>>, <<{K}, {}>>, <<{}, {K}>>, <<{U}, {P}>>, <<{U, P}, {K}>>,
                  <<{}, {}>>, <<{U}, {}>>, <<{K}, {U, P}>>, <<{K}, {U}>>, <<{U, P, K}, {}>>, <<{P}, {U}>> >>
BinOneShots == <<"none", "file", "cli">>
BinCtxs == <<"bare", "full", "fileall">>
BinOwn == GroupOpts \cup OneShotOpts
OneShotFile(v) == IF v = "file" THEN AllTrue(OneShotOpts) ELSE EmptyFn
OneShotCli(v)  == IF v = "cli" THEN AllTrue({"overwrite_key"}) ELSE EmptyFn
Bools == <<FALSE, TRUE>>

InitBinCase(ctx, nets, fp, cp, fc, cc, os) ==
    /\ fam = "bin" /\ ctxv = ctx
    /\ InitWith("teosd", CaseFile(ctx, BinOwn, Join(GroupFilePart(nets[1], fp, fc), OneShotFile(os))),
                CaseCli(ctx, BinOwn, Join(GroupCliPart(nets[2], cp, cc), OneShotCli(os))))

InitBin ==
    /\ "bin" \in Families
    /\ IF BinFull
       THEN \E i \in 1..Len(BinNets), fp \in BOOLEAN, cp \in BOOLEAN, fc \in SUBSET CredOpts, cc \in SUBSET CredOpts,
               o \in 1..3, c \in 1..Len(BinCtxs) :
                 InitBinCase(BinCtxs[c], BinNets[i], fp, cp, fc, cc, BinOneShots[o])
       ELSE \E i \in 1..Len(BinNets), j \in 1..2, k \in 1..2, m \in 1..Len(BinCredsSel) :
                 InitBinCase(BinCtxs[((i + 2 * j + k + m) % Len(BinCtxs)) + 1], BinNets[i], Bools[j], Bools[k],
                             BinCredsSel[m][1], BinCredsSel[m][2], BinOneShots[((i + j + 2 * k + m) % 3) + 1])

Init == InitGroup \/ InitPlain \/ InitSwitch \/ InitFileOnly \/ InitPortDef \/ InitSameValue \/ InitTeosCli \/ InitBin

Next == StartupNext /\ UNCHANGED <<fam, ctxv>>

Spec == Init /\ [][Next]_vars

-----------------------------------------------------------------------------
CasesAreWellFormed == WellFormed(prog, file, cli)

Meta ==
    [opts |-> [o \in AllOpts |-> [kind |-> Kind(o), cli |-> IF o \in CliOpts THEN CliName[o] ELSE ""]],
     defaults |-> DocDefault,
     tool_opts |-> ToolOpts,
     tool_defaults |-> ToolDocDefault,
     tool_command |-> ToolCommand,
     known_networks |-> KnownNetworks,
     unknown_networks |-> UnknownF \cup UnknownC,
     net_default_port |-> NetDefaultPort,
     net_names |-> NetNames]

ASSUME Emit => PrintT(<<"META", ToJson(Meta)>>)

\* one line per case, when its start-up sequence has ended
EmitInv ==
    (Emit /\ Done) =>
        PrintT(<<"CASE", ToJson([fam |-> fam, ctx |-> ctxv, prog |-> prog, file |-> file, cli |-> cli,
                                 exp |-> Expect(prog, file, cli)])>>)
=============================================================================
