CONSTANTS
  Emit = FALSE
  Families = {"route", "size", "body", "fields", "ctype", "raw"}
SPECIFICATION Spec
INVARIANTS TypeOK TableTotal TableNever5xx TableNeverUnexpected TableJsonErrorBody TableOkOnlyIfValid TableDefectsRefused TableUnavailable EmitInv
CHECK_DEADLOCK FALSE
