CONSTANTS
  Towers = {"t1"}
  Locators = {"l1", "l2"}
  DEVIATIONS = {}
  MaxNotify = 1
  MaxConc = 2
  MaxKill = 1
  MaxBad = 2
  MaxDown = 1
  MaxRetry = 1
  MaxAbandon = 0
  MaxReg = 0
  AddKinds = {"sub_error", "reject", "garbage", "badsig", "malsig"}
  RegKinds = {"garbage"}
SPECIFICATION LiveSpec
PROPERTIES Delivered
CHECK_DEADLOCK FALSE
