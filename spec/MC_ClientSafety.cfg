CONSTANTS
  Towers = {"t1", "t2"}
  Locators = {"l1", "l2"}
  DEVIATIONS = {}
  MaxNotify = 1
  MaxConc = 2
  MaxKill = 1
  MaxBad = 1
  MaxDown = 1
  MaxRetry = 0
  MaxAbandon = 0
  MaxReg = 0
  AddKinds = {"sub_error", "reject", "garbage", "badsig", "malsig"}
  RegKinds = {"same", "badsig", "garbage"}
SPECIFICATION Spec
INVARIANTS InvNeverLost InvExactlyOne InvDataForResend InvOneLoop InvNoFlood InvEndsUnreachable InvMapSound InvManualRetryGate InvBadSig InvMisbehaving InvSurvives InvRegRecorded InvStore
CHECK_DEADLOCK FALSE
