------------------------------ MODULE ClientStore ------------------------------
(***************************************************************************)
(* Data layer of the CLN watchtower client plugin (watchtower-plugin:      *)
(* wt_client.rs, dbm.rs, lib.rs), property C18.                            *)
(*                                                                         *)
(* A store is a record st = [db, mem]:                                     *)
(*   db  - what is durable (the SQLite tables, as sets of rows)            *)
(*     towers : {[t, port, slots]}            one row per registered tower *)
(*     regs   : {[t, slots, start, expiry]}   registration receipts (all)  *)
(*     rcpts  : {[t, l, ok]}                  appointment receipts; ok =   *)
(*                                            signed by the tower's key    *)
(*     pend   : {[t, l]}   inv : {[t, l]}     references to bodies         *)
(*     bodies : {l}                           appointment bodies           *)
(*     proofs : {[t, l]}                      misbehaviour proofs          *)
(*   mem - the in-memory summaries (WTClient.towers), what listtowers      *)
(*         prints: {[t, port, slots, start, expiry, status, pending,       *)
(*         invalid]}                                                       *)
(*                                                                         *)
(* Every operation is an operator from a store to a store, so that         *)
(* Client.tla can re-use them.  They state the INTENDED design (what C18   *)
(* requires).  Where the code deviates the deviation is a separate, named  *)
(* operator (suffix S16) selected by the constant DEVIATIONS.              *)
(***************************************************************************)
EXTENDS Naturals, FiniteSets

CONSTANT DEVIATIONS      \* subset of {"S16"}

Statuses == {"reachable", "temporary_unreachable", "unreachable", "subscription_error", "misbehaving"}

EmptyStore ==
    [db  |-> [towers |-> {}, regs |-> {}, rcpts |-> {}, pend |-> {}, inv |-> {}, bodies |-> {}, proofs |-> {}],
     mem |-> {}]

Ref(t, l) == [t |-> t, l |-> l]

-----------------------------------------------------------------------------
(* Look-ups                                                                *)

DbKnown(st)  == {r.t : r \in st.db.towers}
MemKnown(st) == {m.t : m \in st.mem}
DbTower(st, t) == CHOOSE r \in st.db.towers : r.t = t
Mem(st, t)     == CHOOSE m \in st.mem : m.t = t

RegsOf(db, t) == {r \in db.regs : r.t = t}
PendOf(db, t) == {r.l : r \in {x \in db.pend : x.t = t}}
InvOf(db, t)  == {r.l : r \in {x \in db.inv : x.t = t}}
RcptsOf(db, t) == {r \in db.rcpts : r.t = t}
HasProof(db, t) == \E p \in db.proofs : p.t = t

\* a body is referenced by the pending and invalid rows (of any tower)
Referenced(db, l) == \E r \in db.pend \cup db.inv : r.l = l
RefBy(db, t, l)   == Ref(t, l) \in db.pend \cup db.inv

\* Some record about (t, l) exists: the plugin creates at most one per notification of l (a second one is a
\* duplicate insert: S15 / C05).
HasRecord(db, t, l) == Ref(t, l) \in db.pend \cup db.inv \/ \E r \in db.rcpts : r.t = t /\ r.l = l

\* the registration receipt that counts: the one expiring last
LastReg(db, t) == CHOOSE r \in RegsOf(db, t) : \A q \in RegsOf(db, t) : q.expiry <= r.expiry

-----------------------------------------------------------------------------
(* Reload (restart): the summaries are rebuilt from the durable state.     *)
(* "pending data implies temporarily unreachable, a stored proof implies   *)
(* misbehaving".                                                           *)

DerivedStatus(db, t) ==
    IF HasProof(db, t) THEN "misbehaving"
    ELSE IF PendOf(db, t) # {} THEN "temporary_unreachable"
    ELSE "reachable"

SummaryFromDb(db, t) ==
    LET tw == CHOOSE r \in db.towers : r.t = t
        rg == LastReg(db, t)
    IN [t |-> t, port |-> tw.port, slots |-> tw.slots, start |-> rg.start, expiry |-> rg.expiry,
        status |-> DerivedStatus(db, t), pending |-> PendOf(db, t), invalid |-> InvOf(db, t)]

Reload(st) == [st EXCEPT !.mem = {SummaryFromDb(st.db, t) : t \in {x \in DbKnown(st) : RegsOf(st.db, x) # {}}}]

\* What gettowerinfo adds to the summary (read from disk on demand): receipts and the proof.
TowerInfoFromDb(db, t) == [summary |-> SummaryFromDb(db, t), rcpts |-> RcptsOf(db, t),
                           proof |-> {p \in db.proofs : p.t = t}]

\* The messages a restart sends to the retry manager: the pending set of every temporarily unreachable tower.
StaleOnReload(st) == {[t |-> m.t, pending |-> m.pending] : m \in {x \in Reload(st).mem : x.status = "temporary_unreachable"}}

-----------------------------------------------------------------------------
(* Operations                                                              *)

UpdMem(st, t, F(_)) == [st EXCEPT !.mem = {IF m.t = t THEN F(m) ELSE m : m \in @}]

SetStatus(st, t, s) == UpdMem(st, t, LAMBDA m : [m EXCEPT !.status = s])

\* register / renew.  A renewal is accepted only if BOTH the expiry and the slots strictly grow with respect to what is
\* known (expiry: the summary; slots: the towers row - the same numbers by MemEqDisk).
RegAccepted(st, t, slots, expiry) ==
    t \notin MemKnown(st) \/ (expiry > Mem(st, t).expiry /\ slots > DbTower(st, t).slots)

\* the answers the property allows ("ok" | which requirement failed; when both fail either may be named)
RegResults(st, t, slots, expiry) ==
    IF RegAccepted(st, t, slots, expiry) THEN {"ok"}
    ELSE (IF expiry <= Mem(st, t).expiry THEN {"expiry"} ELSE {})
         \cup (IF slots <= DbTower(st, t).slots THEN {"slots"} ELSE {})

AddUpdateTower(st, t, port, slots, start, expiry) ==
    IF ~RegAccepted(st, t, slots, expiry) THEN st
    ELSE LET db2 == [st.db EXCEPT !.towers = {r \in @ : r.t # t} \cup {[t |-> t, port |-> port, slots |-> slots]},
                                  !.regs = @ \cup {[t |-> t, slots |-> slots, start |-> start, expiry |-> expiry]}]
             mem2 == IF t \in MemKnown(st)
                     THEN {IF m.t = t THEN [m EXCEPT !.port = port, !.slots = slots, !.start = start, !.expiry = expiry]
                                      ELSE m : m \in st.mem}
                     ELSE st.mem \cup {[t |-> t, port |-> port, slots |-> slots, start |-> start, expiry |-> expiry,
                                        status |-> "reachable", pending |-> {}, invalid |-> {}]}
         IN [db |-> db2, mem |-> mem2]

\* Every other mutator does nothing for a tower that is not (any more) known: an answer may arrive after the tower was
\* abandoned.
AddReceipt(st, t, l, slots) ==
    IF t \notin MemKnown(st) THEN st
    ELSE LET db2 == [st.db EXCEPT !.rcpts = @ \cup {[t |-> t, l |-> l, ok |-> TRUE]},
                                  !.towers = {IF r.t = t THEN [r EXCEPT !.slots = slots] ELSE r : r \in @}]
         IN UpdMem([st EXCEPT !.db = db2], t, LAMBDA m : [m EXCEPT !.slots = slots])

AddPending(st, t, l) ==
    IF t \notin MemKnown(st) THEN st
    ELSE LET db2 == [st.db EXCEPT !.bodies = @ \cup {l}, !.pend = @ \cup {Ref(t, l)}]
         IN UpdMem([st EXCEPT !.db = db2], t, LAMBDA m : [m EXCEPT !.pending = @ \cup {l}])

AddInvalid(st, t, l) ==
    IF t \notin MemKnown(st) THEN st
    ELSE LET db2 == [st.db EXCEPT !.bodies = @ \cup {l}, !.inv = @ \cup {Ref(t, l)}]
         IN UpdMem([st EXCEPT !.db = db2], t, LAMBDA m : [m EXCEPT !.invalid = @ \cup {l}])

\* The body goes with the last reference to it (of any tower, pending or invalid) and not before.
RemovePending(st, t, l) ==
    IF t \notin MemKnown(st) THEN st
    ELSE LET db1 == [st.db EXCEPT !.pend = @ \ {Ref(t, l)}]
             db2 == [db1 EXCEPT !.bodies = IF Referenced(db1, l) THEN @ ELSE @ \ {l}]
         IN UpdMem([st EXCEPT !.db = db2], t, LAMBDA m : [m EXCEPT !.pending = @ \ {l}])

\* The tower answered with a receipt signed by another key: the receipt is kept as the proof.
FlagMisbehaving(st, t, l) ==
    IF t \notin MemKnown(st) THEN st
    ELSE LET db2 == [st.db EXCEPT !.rcpts = @ \cup {[t |-> t, l |-> l, ok |-> FALSE]}, !.proofs = @ \cup {Ref(t, l)}]
         IN SetStatus([st EXCEPT !.db = db2], t, "misbehaving")

\* abandon: all and only the records of t go; a body goes iff t held the last reference to it.
DropTowerRows(db, t) ==
    [db EXCEPT !.towers = {r \in @ : r.t # t}, !.regs = {r \in @ : r.t # t}, !.rcpts = {r \in @ : r.t # t},
               !.pend = {r \in @ : r.t # t}, !.inv = {r \in @ : r.t # t}, !.proofs = {r \in @ : r.t # t}]

RemoveTowerIntended(st, t) ==
    IF t \notin MemKnown(st) THEN st
    ELSE LET db1 == DropTowerRows(st.db, t)
             db2 == [db1 EXCEPT !.bodies = {l \in @ : ~RefBy(st.db, t, l) \/ Referenced(db1, l)}]
         IN [db |-> db2, mem |-> {m \in st.mem : m.t # t}]

\* Deviation S16 (dbm.rs::remove_tower_record): DELETE FROM towers cascades to every table that references the tower but
\* nothing cascades from the pending / invalid references to the appointments table: bodies are never removed here.
RemoveTowerS16(st, t) ==
    IF t \notin MemKnown(st) THEN st
    ELSE [db |-> DropTowerRows(st.db, t), mem |-> {m \in st.mem : m.t # t}]

\* the successors a conforming implementation may show for abandon(t)
RemoveTowerSuccessors(st, t) ==
    {RemoveTowerIntended(st, t)} \cup (IF "S16" \in DEVIATIONS THEN {RemoveTowerS16(st, t)} ELSE {})

-----------------------------------------------------------------------------
(* The flows of the plugin that are made of several store calls under one  *)
(* lock (main.rs::on_commitment_revocation, retrier.rs::Retrier::run).     *)

\* The retrier of t has delivered everything: the tower is reachable again.
RetrierDone(st, t) ==
    IF t \in MemKnown(st) /\ Mem(st, t).pending = {} /\ Mem(st, t).status \in {"temporary_unreachable", "subscription_error"}
    THEN SetStatus(st, t, "reachable") ELSE st

\* A new appointment could not be delivered.  why = "conn" (no connection) | "sub" (subscription error) for a tower that
\* was reachable; "keep" for a tower that already was not.
FreshPending(st, t, l, why) ==
    AddPending(IF why = "conn" THEN SetStatus(st, t, "temporary_unreachable")
               ELSE IF why = "sub" THEN SetStatus(st, t, "subscription_error") ELSE st, t, l)

PendingToAccepted(st, t, l, slots) == RetrierDone(RemovePending(AddReceipt(st, t, l, slots), t, l), t)
\* the invalid reference is added first, so the body never looks unreferenced in between
PendingToInvalid(st, t, l) == RetrierDone(RemovePending(AddInvalid(st, t, l), t, l), t)

-----------------------------------------------------------------------------
(* The calls of the plugin as labelled operations: a record op with a kind *)
(* op.k and its arguments (the same records MC_ClientStore prints, the rig *)
(* executes and Trace_ClientStore reads).  OpEnabled says when main.rs /   *)
(* retrier.rs can make the call, OpIntended what C18 requires of it,       *)
(* OpSuccs what a conforming implementation may show (DEVIATIONS).         *)
(*  register(t, port, slots, start, expiry)  RPC or renewal by the retrier *)
(*  receipt / invalid / misbehaving(t, l)    answer to a NEW appointment:  *)
(*          the tower was reachable, no record about (t, l) exists yet     *)
(*  pending(t, l, why)   new appointment for a tower that cannot be        *)
(*          reached (why = conn | sub: it was reachable until now) or      *)
(*          already could not (why = keep)                                 *)
(*  p2a / p2i / p2m(t, l)  the retrier delivered a pending appointment:    *)
(*          accepted / rejected / answered with a bad signature; done =    *)
(*          it was the last one, the retrier flags the tower reachable     *)
(*  giveup(t) / retry(t)   retrier exhausted / started again               *)
(*  abandon(t)             known towers only (main.rs checks)              *)
(*  ghost(t, l, call)      an answer for a tower abandoned meanwhile       *)
(*  reload                 restart                                         *)
(* Never enabled: a second record for one (tower, locator) (a duplicate    *)
(* notification: S15, property C05), remove_pending on its own or for      *)
(* something that is not pending, answers for a misbehaving tower.         *)

StatusIn(st, t) == Mem(st, t).status
FreshOk(st, t, l) == t \in MemKnown(st) /\ StatusIn(st, t) = "reachable" /\ ~HasRecord(st.db, t, l)
Retrying(st, t, l) == /\ t \in MemKnown(st) /\ Ref(t, l) \in st.db.pend
                      /\ StatusIn(st, t) \in {"temporary_unreachable", "subscription_error"}
NoReceipt(st, t, l) == \A r \in st.db.rcpts : ~(r.t = t /\ r.l = l)
\* l is the last appointment the retrier of t has to deliver
LastPending(st, t, l) == Mem(st, t).pending \ {l} = {}
GhostCalls == {"receipt", "pending", "invalid", "misbehaving", "remove_pending"}

OpEnabled(st, op) ==
    CASE op.k = "register" -> TRUE
      [] op.k \in {"receipt", "invalid", "misbehaving"} -> FreshOk(st, op.t, op.l)
      [] op.k = "pending" -> /\ op.t \in MemKnown(st) /\ ~HasRecord(st.db, op.t, op.l)
                             /\ StatusIn(st, op.t) # "misbehaving"
                             /\ op.why \in (IF StatusIn(st, op.t) = "reachable" THEN {"conn", "sub"} ELSE {"keep"})
      [] op.k = "p2a" -> Retrying(st, op.t, op.l) /\ NoReceipt(st, op.t, op.l) /\ op.done = LastPending(st, op.t, op.l)
      [] op.k = "p2i" -> /\ Retrying(st, op.t, op.l) /\ Ref(op.t, op.l) \notin st.db.inv
                         /\ op.done = LastPending(st, op.t, op.l)
      [] op.k = "p2m" -> Retrying(st, op.t, op.l) /\ NoReceipt(st, op.t, op.l)
      [] op.k = "giveup" -> /\ op.t \in MemKnown(st)
                            /\ StatusIn(st, op.t) \in {"temporary_unreachable", "subscription_error"}
                            /\ Mem(st, op.t).pending # {}
      [] op.k = "retry" -> op.t \in MemKnown(st) /\ StatusIn(st, op.t) = "unreachable"
      [] op.k = "abandon" -> op.t \in MemKnown(st)
      [] op.k = "ghost" -> op.t \notin MemKnown(st) /\ op.call \in GhostCalls
      [] op.k = "reload" -> TRUE
      [] OTHER -> FALSE

OpIntended(st, op) ==
    CASE op.k = "register" -> AddUpdateTower(st, op.t, op.port, op.slots, op.start, op.expiry)
      [] op.k = "receipt" -> AddReceipt(st, op.t, op.l, op.slots)
      [] op.k = "invalid" -> AddInvalid(st, op.t, op.l)
      [] op.k \in {"misbehaving", "p2m"} -> FlagMisbehaving(st, op.t, op.l)
      [] op.k = "pending" -> FreshPending(st, op.t, op.l, op.why)
      [] op.k = "p2a" -> PendingToAccepted(st, op.t, op.l, op.slots)
      [] op.k = "p2i" -> PendingToInvalid(st, op.t, op.l)
      [] op.k = "giveup" -> SetStatus(st, op.t, "unreachable")
      [] op.k = "retry" -> SetStatus(st, op.t, "temporary_unreachable")
      [] op.k = "abandon" -> RemoveTowerIntended(st, op.t)
      [] op.k = "ghost" -> (CASE op.call = "receipt" -> AddReceipt(st, op.t, op.l, 1)
                              [] op.call = "pending" -> AddPending(st, op.t, op.l)
                              [] op.call = "invalid" -> AddInvalid(st, op.t, op.l)
                              [] op.call = "misbehaving" -> FlagMisbehaving(st, op.t, op.l)
                              [] OTHER -> RemovePending(st, op.t, op.l))
      [] op.k = "reload" -> Reload(st)

OpSuccs(st, op) == IF op.k = "abandon" THEN RemoveTowerSuccessors(st, op.t) ELSE {OpIntended(st, op)}

\* C18 talks about the registration receipt that counts (reported, reloaded) and about abandon removing all of them;
\* whether superseded receipts of a tower that is still known are kept is left open: conformance compares stores modulo
\* those rows.
RegsView(db) == {r \in db.regs : r.t \notin {x.t : x \in db.towers} \/ \A q \in RegsOf(db, r.t) : q.expiry <= r.expiry}
Norm(st) == [st EXCEPT !.db.regs = RegsView(st.db)]

\* what the call may answer ({} = it answers nothing that C18 talks about)
OpResults(st, op) ==
    CASE op.k = "register" -> RegResults(st, op.t, op.slots, op.expiry)
      [] op.k = "abandon" -> {"ok"}
      [] OTHER -> {}

-----------------------------------------------------------------------------
(* The property C18 as predicates on a store.                              *)

WellFormed(st) ==
    /\ \A r, q \in st.db.towers : r.t = q.t => r = q
    /\ \A m, n \in st.mem : m.t = n.t => m = n
    /\ \A m \in st.mem : m.status \in Statuses
    /\ \A t \in DbKnown(st) : RegsOf(st.db, t) # {}
    /\ \A r \in st.db.regs : r.t \in DbKnown(st)
    /\ \A r \in st.db.rcpts : r.t \in DbKnown(st)
    /\ \A r \in st.db.pend \cup st.db.inv : r.t \in DbKnown(st)
    /\ \A p \in st.db.proofs : [t |-> p.t, l |-> p.l, ok |-> FALSE] \in st.db.rcpts
    /\ \A r \in st.db.pend \cup st.db.inv : r.l \in st.db.bodies

NoStatus(m) == [t |-> m.t, port |-> m.port, slots |-> m.slots, start |-> m.start, expiry |-> m.expiry,
                pending |-> m.pending, invalid |-> m.invalid]

\* what is reported (the summaries) is the projection of what is persisted; the status is not persisted, but a tower is
\* reported misbehaving exactly when its proof is stored and never reachable while data is pending for it.
MemEqDisk(st) ==
    /\ {NoStatus(m) : m \in st.mem} = {NoStatus(m) : m \in Reload(st).mem}
    /\ \A m \in st.mem : (m.status = "misbehaving") <=> HasProof(st.db, m.t)
    /\ \A m \in st.mem : m.pending # {} => m.status # "reachable"

ReloadFixpoint(st) ==
    LET r == Reload(st)
    IN /\ r.db = st.db
       /\ Reload(r) = r
       /\ MemEqDisk(r)
       /\ \A m \in r.mem :
             /\ HasProof(r.db, m.t) => m.status = "misbehaving"
             /\ (~HasProof(r.db, m.t) /\ m.pending # {}) => m.status = "temporary_unreachable"
             /\ (~HasProof(r.db, m.t) /\ m.pending = {}) => m.status = "reachable"

\* abandoning any known tower now would delete all and only its records (s2 ranges over what DEVIATIONS allows)
AbandonExactFor(st, t, s2) ==
    /\ t \notin DbKnown(s2) /\ t \notin MemKnown(s2)
    /\ \A r \in s2.db.regs : r.t # t
    /\ \A r \in s2.db.rcpts : r.t # t
    /\ \A r \in s2.db.pend \cup s2.db.inv \cup s2.db.proofs : r.t # t
    /\ s2.db.towers = {r \in st.db.towers : r.t # t}
    /\ s2.db.regs = {r \in st.db.regs : r.t # t}
    /\ s2.db.rcpts = {r \in st.db.rcpts : r.t # t}
    /\ s2.db.pend = {r \in st.db.pend : r.t # t}
    /\ s2.db.inv = {r \in st.db.inv : r.t # t}
    /\ s2.db.proofs = {r \in st.db.proofs : r.t # t}
    /\ s2.mem = {m \in st.mem : m.t # t}
    \* bodies: those t alone referenced are gone, every other one stays
    /\ s2.db.bodies = {l \in st.db.bodies : \E r \in st.db.pend \cup st.db.inv : r.l = l /\ r.t # t}
                      \cup {l \in st.db.bodies : ~Referenced(st.db, l)}

AbandonExact(st) == \A t \in MemKnown(st) : \A s2 \in RemoveTowerSuccessors(st, t) : AbandonExactFor(st, t, s2)

\* a body exists iff some tower references it as pending or invalid
SharedBodies(st) == st.db.bodies = {r.l : r \in st.db.pend \cup st.db.inv}
=============================================================================
