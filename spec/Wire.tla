-------------------------------- MODULE Wire --------------------------------
(***************************************************************************)
(* C16 - "Client and tower agree on every byte of the wire format".        *)
(*                                                                         *)
(* The wire format of the public API as a table: for every message, its    *)
(* fields, the JSON key of each field and how the field's value is written *)
(* (Messages); the classes of values each kind of field ranges over; how a *)
(* gRPC failure of the tower appears on the wire (ErrorMap) and which      *)
(* failures the tower emits (TowerErrors); the byte strings that get signed*)
(* (Layouts) with the argument why they determine their fields.            *)
(*                                                                         *)
(* Obligations (evaluated by lib/c16.py on what harness/api_rig records):  *)
(*   RequestRoundTrip  every field value the client was given is the value *)
(*                     the tower's router hands to the internal API        *)
(*   ReplyRoundTrip    every field value the tower produced is the value   *)
(*                     the client's response code returns                  *)
(*   WireForm          the JSON text between them has exactly the keys of  *)
(*                     the table and every value in the table's encoding   *)
(*                     (hex, byte-reversed hex for transaction ids, status *)
(*                     names, plain numbers / strings)                     *)
(*   ErrorForm         a failure is {"error": message, "error_code": code} *)
(*                     with the status / code of ErrorMap                  *)
(*   LayoutForm        to_vec of a signed structure is the concatenation   *)
(*                     described by Layouts (field positions and total     *)
(*                     length)                                            *)
(* Integers of 2^31 and above are named, not written (TLC integers are      *)
(* 32-bit); lib/c16.py maps the names to numbers.                           *)
(***************************************************************************)
EXTENDS Integers, Sequences, FiniteSets, TLC

-----------------------------------------------------------------------------
(* Field descriptors.  enc:                                                 *)
(*   hex           lower/upper-case hexadecimal of the bytes                *)
(*   hex_reversed  hexadecimal of the bytes in reverse order (txids)        *)
(*   number        JSON number (u32)                                        *)
(*   string        JSON string                                              *)
(*   status_name   "not_found" | "being_watched" | "dispute_responded"     *)
(*   hex_list      JSON array of hex strings                                *)
(*   object        nested message `of`                                      *)
(* width: number of bytes of a fixed-width field, 0 = variable              *)
Fd(name, key, enc, width, of) == [name |-> name, key |-> key, enc |-> enc, width |-> width, of |-> of]
F(name, enc, width) == Fd(name, name, enc, width, "")

Messages ==
    [RegisterRequest |-> <<F("user_id", "hex", 33)>>,
     RegisterResponse |-> <<F("user_id", "hex", 33), F("available_slots", "number", 4), F("subscription_start", "number", 4),
                            F("subscription_expiry", "number", 4), F("subscription_signature", "string", 0)>>,
     Appointment |-> <<F("locator", "hex", 16), F("encrypted_blob", "hex", 0), F("to_self_delay", "number", 4)>>,
     Tracker |-> <<F("dispute_txid", "hex_reversed", 32), F("penalty_txid", "hex_reversed", 32), F("penalty_rawtx", "hex", 0)>>,
     AddAppointmentRequest |-> <<Fd("appointment", "appointment", "object", 0, "Appointment"), F("signature", "string", 0)>>,
     AddAppointmentResponse |-> <<F("locator", "hex", 16), F("start_block", "number", 4), F("signature", "string", 0),
                                  F("available_slots", "number", 4), F("subscription_expiry", "number", 4)>>,
     GetAppointmentRequest |-> <<F("locator", "hex", 16), F("signature", "string", 0)>>,
     \* the nested object is an Appointment or a Tracker (told apart by its keys), under the key "appointment" either way
     GetAppointmentResponse |-> <<Fd("appointment_data", "appointment", "object", 0, "Appointment|Tracker"),
                                  F("status", "status_name", 4)>>,
     GetSubscriptionInfoRequest |-> <<F("signature", "string", 0)>>,
     GetSubscriptionInfoResponse |-> <<F("available_slots", "number", 4), F("subscription_expiry", "number", 4),
                                       F("locators", "hex_list", 0)>>,
     ApiError |-> <<F("error", "string", 0), F("error_code", "number", 1)>>]

StatusNumber == [not_found |-> 0, being_watched |-> 1, dispute_responded |-> 2]

Endpoints == {"register", "add_appointment", "get_appointment", "get_subscription_info"}
RequestOf == [register |-> "RegisterRequest", add_appointment |-> "AddAppointmentRequest",
              get_appointment |-> "GetAppointmentRequest", get_subscription_info |-> "GetSubscriptionInfoRequest"]
ReplyOf == [register |-> "RegisterResponse", add_appointment |-> "AddAppointmentResponse",
            get_appointment |-> "GetAppointmentResponse", get_subscription_info |-> "GetSubscriptionInfoResponse"]
(* the tower's limit on the size of a request body *)
Limit == [register |-> 87, add_appointment |-> 2048, get_appointment |-> 178, get_subscription_info |-> 127]

-----------------------------------------------------------------------------
(* Value classes                                                            *)
U32Classes == {"zero", "one", "i32max", "i32max_plus1", "u32max", "random"}     \* 0, 1, 2^31-1, 2^31, 2^32-1
FixedClasses == {"zeros", "ones", "ascending", "random"}                        \* ascending: 00 01 02 .. (order visible)
KeyClasses == {"key"}                                                           \* a valid compressed public key
VarClasses == {"len0", "len1", "len2", "mid", "max"}     \* max: fills the request up to the size limit / large in a reply
StrClasses == {"empty", "zbase32", "quotes", "unicode", "control", "long"}
StatusClasses == DOMAIN StatusNumber
ListClasses == {"none", "one", "two", "many"}

ClassesOf(fd) ==
    CASE fd.enc = "number" -> U32Classes
      [] fd.enc = "string" -> StrClasses
      [] fd.enc = "status_name" -> StatusClasses
      [] fd.enc = "hex_list" -> ListClasses
      [] fd.enc \in {"hex", "hex_reversed"} /\ fd.width = 33 -> KeyClasses
      [] fd.enc \in {"hex", "hex_reversed"} /\ fd.width = 0 -> VarClasses
      [] fd.enc \in {"hex", "hex_reversed"} -> FixedClasses
      [] OTHER -> {"-"}

DefaultClass(fd) ==
    CASE fd.enc = "number" -> "random"
      [] fd.enc = "string" -> "zbase32"
      [] fd.enc = "status_name" -> "being_watched"
      [] fd.enc = "hex_list" -> "two"
      [] fd.enc \in {"hex", "hex_reversed"} /\ fd.width = 33 -> "key"
      [] fd.enc \in {"hex", "hex_reversed"} /\ fd.width = 0 -> "mid"
      [] fd.enc \in {"hex", "hex_reversed"} -> "random"
      [] OTHER -> "-"

(* The leaf fields of a message, nested objects flattened (variant = which nested message of a choice). *)
RECURSIVE Leaves(_, _)
Leaves(msg, variant) ==
    LET fs == Messages[msg]
        one(fd) == IF fd.enc = "object"
                   THEN Leaves(IF fd.of = "Appointment|Tracker" THEN variant ELSE fd.of, variant)
                   ELSE <<fd>>
        RECURSIVE cat(_)
        cat(i) == IF i > Len(fs) THEN <<>> ELSE one(fs[i]) \o cat(i + 1)
    IN cat(1)

LeafNames(msg, variant) == {Leaves(msg, variant)[i].name : i \in DOMAIN Leaves(msg, variant)}
LeafByName(msg, variant, n) == LET l == Leaves(msg, variant) IN l[CHOOSE i \in DOMAIN l : l[i].name = n]

(* Class assignments of a message: every leaf gets a class; at most `depth` leaves differ from their default. *)
Ext(f, n, c) == [m \in DOMAIN f \cup {n} |-> IF m = n THEN c ELSE f[m]]
RECURSIVE Product(_, _)
Product(leaves, i) ==
    IF i = 0 THEN {[n \in {} |-> ""]}
    ELSE {Ext(f, leaves[i].name, c) : f \in Product(leaves, i - 1), c \in ClassesOf(leaves[i])}

Assignments(msg, variant, depth) ==
    LET leaves == Leaves(msg, variant)
    IN {a \in Product(leaves, Len(leaves)) :
            Cardinality({i \in DOMAIN leaves : a[leaves[i].name] # DefaultClass(leaves[i])}) <= depth}

(* The API refuses a request whose signature is the empty string, or whose encrypted blob has no bytes (since the repair of *)
(* F-C07-2; a client never emits one: the blob carries at least the 16-byte authentication tag), with error code 2 instead *)
(* of passing it on.                                                                                                        *)
RefusedWhenEmpty == {"signature", "encrypted_blob"}
EMPTY_FIELD == 2
Refused(a) == \E n \in DOMAIN a : n \in RefusedWhenEmpty /\ a[n] \in {"empty", "len0"}

DefaultAssignment(msg, variant) ==
    [n \in LeafNames(msg, variant) |-> DefaultClass(LeafByName(msg, variant, n))]

-----------------------------------------------------------------------------
(* Failures: how a gRPC status of the internal API appears on the wire      *)
ErrorMap == [InvalidArgument |-> <<400, 5>>, NotFound |-> <<404, 36>>, AlreadyExists |-> <<400, 35>>,
             ResourceExhausted |-> <<400, 65>>, Unauthenticated |-> <<401, 7>>, Unavailable |-> <<503, 32>>]

(* the failures the tower emits (teos/src/api/internal.rs); {x} is a u32 *)
TowerErrors ==
    [register |-> {<<"Unavailable", "Service currently unavailable">>,
                   <<"InvalidArgument", "Provided public key does not match expected format (33-byte compressed key)">>,
                   <<"ResourceExhausted", "Subscription maximum slots count reached">>},
     add_appointment |-> {<<"Unavailable", "Service currently unavailable">>,
                          <<"Unauthenticated", "Invalid signature or user does not have enough slots available">>,
                          <<"Unauthenticated", "Your subscription expired at {x}">>,
                          <<"AlreadyExists", "The provided appointment has already been triggered">>},
     get_appointment |-> {<<"Unavailable", "Service currently unavailable">>,
                          <<"NotFound", "Appointment not found">>,
                          <<"Unauthenticated", "User cannot be authenticated">>,
                          <<"Unauthenticated", "Your subscription expired at {x}">>},
     get_subscription_info |-> {<<"Unavailable", "Service currently unavailable">>,
                                <<"Unauthenticated", "User not found. Have you registered?">>,
                                <<"Unauthenticated", "Your subscription expired at {x}">>}]

-----------------------------------------------------------------------------
(* Signed byte strings.  w = 0: variable width; numbers are 4 bytes big-endian; strings are their UTF-8 bytes. *)
L(f, w, enc) == [f |-> f, w |-> w, enc |-> enc]
Layouts ==
    [appointment |-> <<L("locator", 16, "bytes"), L("encrypted_blob", 0, "bytes"), L("to_self_delay", 4, "u32be")>>,
     registration_receipt |-> <<L("user_id", 33, "bytes"), L("available_slots", 4, "u32be"),
                                L("subscription_start", 4, "u32be"), L("subscription_expiry", 4, "u32be")>>,
     appointment_receipt |-> <<L("user_signature", 0, "utf8"), L("start_block", 4, "u32be")>>]

VarFields(l) == {i \in DOMAIN l : l[i].w = 0}
AtMostOneVariable(l) == Cardinality(VarFields(l)) <= 1

RECURSIVE SumW(_, _)
SumW(l, i) == IF i = 0 THEN 0 ELSE l[i].w + SumW(l, i - 1)
FixedLen(l) == SumW(l, Len(l))
(* offset of field i when the variable field (if any) has varlen bytes, and the total length *)
RECURSIVE Offset(_, _, _)
Offset(l, i, varlen) == IF i = 1 THEN 0 ELSE Offset(l, i - 1, varlen) + (IF l[i - 1].w = 0 THEN varlen ELSE l[i - 1].w)
TotalLen(l, varlen) == FixedLen(l) + (IF VarFields(l) = {} THEN 0 ELSE varlen)

(* Why at most one variable field makes the concatenation injective: checked by enumeration on scaled-down widths *)
(* (every fixed width replaced by sw, two-letter alphabet, variable field up to 2 letters).                       *)
SeqsUpTo(S, n) == UNION {[1..k -> S] : k \in 0..n}
ScaledValues(l, sw) == {v \in [DOMAIN l -> SeqsUpTo({0, 1}, 2)] : \A i \in DOMAIN l : l[i].w # 0 => Len(v[i]) = sw[i]}
RECURSIVE Concat(_, _)
Concat(v, i) == IF i = 0 THEN <<>> ELSE Concat(v, i - 1) \o v[i]
ToVec(l, v) == Concat(v, Len(l))
Injective(l, sw) == \A v1, v2 \in ScaledValues(l, sw) : ToVec(l, v1) = ToVec(l, v2) => v1 = v2
Scale(l) == [i \in DOMAIN l |-> IF l[i].w = 0 THEN 0 ELSE IF l[i].w >= 16 THEN 2 ELSE 1]

LayoutsDetermineFields == \A n \in DOMAIN Layouts : AtMostOneVariable(Layouts[n]) /\ Injective(Layouts[n], Scale(Layouts[n]))
(* anti-vacuity: with two variable fields the same bytes have two readings *)
TwoVariableFieldsAreAmbiguous ==
    LET bad == <<L("a", 0, "bytes"), L("b", 0, "bytes")>> IN ~AtMostOneVariable(bad) /\ ~Injective(bad, <<0, 0>>)

-----------------------------------------------------------------------------
(* The encodings, on byte strings written as sequences of 0..255            *)
HexDigits(b) == <<b \div 16, b % 16>>
RECURSIVE Hex(_)
Hex(bs) == IF bs = <<>> THEN <<>> ELSE HexDigits(Head(bs)) \o Hex(Tail(bs))
UnHex(ds) == [i \in 1..(Len(ds) \div 2) |-> ds[2 * i - 1] * 16 + ds[2 * i]]
Rev(s) == [i \in 1..Len(s) |-> s[Len(s) + 1 - i]]
EncHex(bs) == Hex(bs)
DecHex(ds) == UnHex(ds)
EncHexReversed(bs) == Hex(Rev(bs))
DecHexReversed(ds) == Rev(UnHex(ds))

SampleBytes == {0, 1, 15, 16, 127, 128, 255}
SampleStrings == {<<>>} \cup {<<a>> : a \in SampleBytes} \cup {<<a, b>> : a, b \in SampleBytes}
                 \cup {<<a, b, c>> : a, b, c \in {0, 1, 255}}
EncodingsRoundTrip ==
    \A bs \in SampleStrings : /\ DecHex(EncHex(bs)) = bs
                              /\ DecHexReversed(EncHexReversed(bs)) = bs
                              /\ Len(EncHex(bs)) = 2 * Len(bs)
(* a transaction id is written in the other byte order than plain hex: the two encodings differ unless the bytes are a palindrome *)
ByteOrderIsObservable == \A bs \in SampleStrings : (Rev(bs) # bs) => EncHexReversed(bs) # EncHex(bs)

(* Locators.  A transaction id is DISPLAYED (bitcoind, CLN's commitment_revocation hook) in the reverse of the   *)
(* order it is hashed in; the locator of a transaction is the first LocatorLen bytes of its id in hash order,   *)
(* and is itself written as plain hex everywhere.  The client derives it from the displayed id, the tower from  *)
(* the transaction: both must obtain LocatorOfDisplayed.                                                        *)
LocatorLen == 16
Prefix(s, n) == [i \in 1..n |-> s[i]]
LocatorOfHashOrder(txid, n) == Prefix(txid, n)
LocatorOfDisplayed(digits, n) == Prefix(DecHexReversed(digits), n)
LocatorRule ==
    \A a, b, c \in {0, 1, 255} :
        LET txid == <<a, b, c>> IN LocatorOfDisplayed(EncHexReversed(txid), 2) = LocatorOfHashOrder(txid, 2)
(* the displayed form starts with the LAST bytes: reading the locator off the front of the displayed string is wrong *)
LocatorIsNotDisplayPrefix ==
    \E txid \in {<<a, b, c>> : a, b, c \in {0, 1, 255}} : Prefix(DecHex(EncHexReversed(txid)), 2) # LocatorOfHashOrder(txid, 2)

-----------------------------------------------------------------------------
(* Table sanity *)
TableWellFormed ==
    /\ \A ep \in Endpoints : RequestOf[ep] \in DOMAIN Messages /\ ReplyOf[ep] \in DOMAIN Messages
    /\ \A m \in DOMAIN Messages : \A i, j \in DOMAIN Messages[m] : i # j => Messages[m][i].key # Messages[m][j].key
    \* an Appointment and a Tracker are told apart by their keys
    /\ LeafNames("Appointment", "") \cap LeafNames("Tracker", "") = {}
    \* a failure object cannot be mistaken for a reply: no reply has the keys of ApiError
    /\ \A ep \in Endpoints : {Messages[ReplyOf[ep]][i].key : i \in DOMAIN Messages[ReplyOf[ep]]} \cap {"error", "error_code"} = {}
    /\ \A ep \in Endpoints : \A e \in TowerErrors[ep] : e[1] \in DOMAIN ErrorMap
=============================================================================
