CONSTANTS
  SelfProbe = TRUE
  MaxBlocks = 2
SPECIFICATION Spec
INVARIANTS TypeOK NoDrop
PROPERTIES RecoversStrong
CHECK_DEADLOCK TRUE
