----------------------------- MODULE Trace_Tower -----------------------------
(***************************************************************************)
(* Trace validator for the tower (DESIGN.md section 4.2).  Input: an       *)
(* ndjson trace recorded by harness/tower_rig from the REAL Watcher /      *)
(* Responder / Gatekeeper / Carrier / ChainMonitor / InternalAPI: one      *)
(* event per specification action, carrying arguments, the node's RPC log  *)
(* for that action, the reply and the projected abstract state afterwards. *)
(*                                                                         *)
(* For every event the validator                                           *)
(*   (A) evaluates the property monitors of TowerProps.tla on              *)
(*       (state before, event, logged state after, ghost history);         *)
(*   (B) computes the successor the specification (Tower.tla) allows from  *)
(*       the state before under the logged inputs and compares it,         *)
(*       component by component, with the logged state; each disagreement  *)
(*       is attributed to the property that owns the component;            *)
(*   then continues from the LOGGED state (caches / index from the model), *)
(*   so one disagreement does not hide the rest of the trace.              *)
(* Tags are <<line, "Cxx", what>>.  The last event ("end") prints them.    *)
(***************************************************************************)
EXTENDS TowerProps, TLC, Json, IOUtils, SequencesExt

CONSTANT MAXTX    \* transaction ids are 0..MAXTX

Rec == ndJsonDeserialize(IOEnv.TRACE)

VARIABLES st,     \* tower state (logged projection + model-maintained wCache / rIndex)
          g,      \* ghost history (see TowerProps)
          l,      \* next line
          tags,
          alive   \* FALSE after a logged abort until the next Boot

vars == <<st, g, l, tags, alive>>

ToSetOf(s) == {s[i] : i \in 1..Len(s)}

UsersOf(rows) == {[u |-> r[1], slots |-> r[2], start |-> r[3], expiry |-> r[4]] : r \in ToSetOf(rows)}
ApptsOf(rows) == {[u |-> r[1], l |-> r[2], key |-> r[3], pay |-> r[4], size |-> r[5], tsd |-> r[6], ver |-> r[7], start |-> r[8]] : r \in ToSetOf(rows)}
TrackersOf(rows) == {[u |-> r[1], l |-> r[2], d |-> r[3], p |-> r[4], h |-> r[5], conf |-> (r[6] = 1)] : r \in ToSetOf(rows)}
MemoRows(rows) == {[tx |-> r[1], v |-> r[2], h |-> r[3]] : r \in ToSetOf(rows)}
PairsOf(rows) == {<<r[1], r[2]>> : r \in ToSetOf(rows)}
BlkOf(b) == [id |-> b.id, h |-> b.h, keys |-> ToSetOf(b.keys)]
BlocksOf(bs) == [i \in 1..Len(bs) |-> BlkOf(bs[i])]

\* the logged projection as a tower state; caches come from the model
Logged(p, wc, ri) ==
    [users |-> UsersOf(p.users), gk |-> UsersOf(p.gk), appts |-> ApptsOf(p.appts), trackers |-> TrackersOf(p.trackers),
     lastKnown |-> p.lastKnown, gkH |-> p.gkH, wH |-> p.wH, cH |-> p.cH, wCache |-> wc, rIndex |-> ri,
     reorged |-> PairsOf(p.reorged), memo |-> MemoRows(p.memo), reachable |-> p.reachable]

\* While a tower thread may be blocked inside the code under test the memory snapshot hooks cannot be used (they take the
\* same locks): such events are marked frozen and carry the durable state and the reachability flag only; the volatile
\* components are then the ones the specification computes (x).
LogOr(e, x, wc, ri) ==
    IF e.frozen
    THEN [x EXCEPT !.users = UsersOf(e.post.users), !.appts = ApptsOf(e.post.appts), !.trackers = TrackersOf(e.post.trackers),
                   !.lastKnown = e.post.lastKnown, !.reachable = e.post.reachable, !.wCache = wc, !.rIndex = ri]
    ELSE Logged(e.post, wc, ri)

\* node verdicts of this action: rpc = <<m, tx, v>>*, m \in {"send","get"}, v \in {"ok","rej","res","err"} / {"mem","no","err"}
OrcOf(rpc) ==
    [tx \in 0..MAXTX |->
        IF \E i \in 1..Len(rpc) : rpc[i][1] = "send" /\ rpc[i][2] = tx /\ rpc[i][3] # "err"
        THEN rpc[CHOOSE i \in 1..Len(rpc) : rpc[i][1] = "send" /\ rpc[i][2] = tx /\ rpc[i][3] # "err"][3]
        ELSE IF \E i \in 1..Len(rpc) : rpc[i][1] = "get" /\ rpc[i][2] = tx /\ rpc[i][3] = "mem" THEN "mem"
        ELSE "none"]
\* a node RPC that was answered means the Carrier found (or made, by its own probe) the flag up
Answered(rpc) == \E i \in 1..Len(rpc) : rpc[i][3] # "err"
WithFlag(x, rpc) == IF Answered(rpc) THEN [x EXCEPT !.st.reachable = TRUE] ELSE x
SendsOf(rpc) == {rpc[i][2] : i \in {j \in 1..Len(rpc) : rpc[j][1] = "send" /\ rpc[j][3] # "err"}}

Ev == Rec[l]
T(prop, what) == {<<l, prop, what>>}
Lift(S) == {<<l, s[1], s[2]>> : s \in S}

\* an add_appointment answered with another code than the specification allows: owned by the properties the two codes belong to
ReplyCodeTags(expCode, logCode) ==
    IF expCode = logCode THEN {}
    ELSE (IF "triggered" \in {expCode, logCode} THEN T("C06", "conf.reply") \cup T("C01", "conf.reply") ELSE {})
         \cup (IF "expired" \in {expCode, logCode} THEN T("C09", "conf.reply") \cup T("C06", "conf.reply") ELSE {})
         \cup (IF "unavailable" \in {expCode, logCode} THEN T("C12", "conf.reply") ELSE {})
         \cup (IF {expCode, logCode} = {"ok", "auth"} THEN T("C06", "conf.reply") \cup T("C07", "conf.reply") ELSE {})
         \cup (IF {expCode, logCode} \cap {"triggered", "expired", "unavailable"} = {} /\ {expCode, logCode} # {"ok", "auth"} THEN T("C07", "conf.reply") ELSE {})

GrantedOfRaw(gr, u) == IF \E x \in gr : x[1] = u THEN (CHOOSE x \in gr : x[1] = u)[2] ELSE 0

\* after a step that was reported for holding more than was granted, the ghost is raised to what is held, so that the same
\* excess is reported once and not at every later step
Resync(gr, log) ==
    {<<r.u, IF r.slots + SumCost({a \in log.appts : a.u = r.u}) > GrantedOfRaw(gr, r.u)
            THEN r.slots + SumCost({a \in log.appts : a.u = r.u}) ELSE GrantedOfRaw(gr, r.u)>> : r \in log.users}

\* C07 (state form): nobody holds more than was granted.  gr = set of <<user, slots granted by registrations>>.
GrantedOf(gr, u) == IF \E x \in gr : x[1] = u THEN (CHOOSE x \in gr : x[1] = u)[2] ELSE 0
ConservationTags(gr, log) ==
    IF \E r \in log.users : r.slots + SumCost({a \in log.appts : a.u = r.u}) > GrantedOf(gr, r.u)
    THEN T("C07", "conservation") ELSE {}

-----------------------------------------------------------------------------
(* Conformance: expected (specification) vs logged, per component.         *)

TrackersMatch(expT, hs, logT) ==
    /\ {Key(t) : t \in expT} = {Key(t) : t \in logT}
    /\ \A e \in expT : \E t \in logT :
          /\ Key(t) = Key(e) /\ t.d = e.d /\ t.p = e.p /\ t.conf = e.conf
          /\ (t.h = e.h \/ \E pr \in hs : pr[1] = Key(e) /\ t.h \in pr[2])

\* pU, pA, pT, pS: the properties owning users / appointments / trackers / submissions in this action
Conf(exp, log, sends, pU, pA, pT, pSmiss, pSextra) ==
    (IF exp.st.users # log.users THEN T(pU, "conf.users") ELSE {})
    \cup (IF exp.st.gk # log.gk THEN T(pU, "conf.users_memory") ELSE {})
    \cup (IF exp.st.appts # log.appts THEN T(pA, "conf.appointments") ELSE {})
    \cup (IF ~TrackersMatch(exp.st.trackers, exp.hs, log.trackers) THEN T(pT, "conf.trackers") ELSE {})
    \cup (IF exp.sends \ sends # {} THEN T(pSmiss, "conf.missing_submission") ELSE {})
    \cup (IF sends \ exp.sends # {} THEN T(pSextra, "conf.extra_submission") ELSE {})
    \cup (IF exp.st.gkH # log.gkH THEN T("C09", "conf.height") ELSE {})
    \cup (IF exp.st.wH # log.wH THEN T("C08", "conf.height") ELSE {})
    \cup (IF exp.st.reorged # log.reorged THEN T("C04", "conf.reorged") ELSE {})
    \cup (IF {<<m.tx, m.v>> : m \in exp.st.memo} # {<<m.tx, m.v>> : m \in log.memo} THEN T("SPEC", "conf.memo") ELSE {})
    \cup (IF exp.st.reachable # log.reachable THEN T("C12", "conf.reachable") ELSE {})
    \cup (IF exp.st.lastKnown # log.lastKnown /\ ~("spv" \in DOMAIN Ev /\ log.lastKnown = Ev.spv) THEN T("C03", "conf.last_known") ELSE {})

\* logged look-up observations against the model caches (C19 inside the tower)
CacheTags(p, wc, ri) == IF Ev.frozen THEN {} ELSE
    (IF {r[1] : r \in ToSetOf(p.cache)} \cap (1..MAXTX) # IdxKeys(wc) \cap (1..MAXTX) THEN T("C19", "tower.cache") ELSE {})
    \cup (IF {<<r[1], r[2], r[3]>> : r \in ToSetOf(p.index)} #
             {<<k, IdxGet(ri, k), IdxHeight(ri, IdxGet(ri, k))>> : k \in IdxKeys(ri)} THEN T("C19", "tower.index") ELSE {})

\* abort handling: returns <<tags, compare?>>
AbortTags(expAbort, logAbort, prop) ==
    IF logAbort = "crash" THEN {}    \* a simulated crash (C03), judged by CrashTags
    ELSE IF logAbort # ""
    THEN T("C11", "abort:" \o logAbort)    \* the specification has no aborting step: every panic of the code is a C11 matter
    ELSE IF expAbort = "norpc" THEN T(prop, "conf.node_not_asked") ELSE {}

\* C03: the durable state a crash leaves behind lies between the state before the interrupted action and the state the
\* completed action would have produced (row by row: nothing both states hold is lost, nothing neither state holds
\* appears), has no dangling rows and grants no slots.  ek: the key of the request in flight (its own rows may be in a
\* transient state: stored, not yet dropped), <<0, 0>> if none.
ProjT(S) == {IF t.conf THEN t ELSE [t EXCEPT !.h = 0] : t \in S}
Between(P, X, L) == (P \cap X) \subseteq L /\ L \subseteq (P \cup X)
NotKey(S, ek) == {r \in S : Key(r) # ek}
CrashTags(logAbort, pre, x, log, ek, gr) ==
    IF logAbort # "crash" THEN {}
    ELSE (IF ~Between(pre.users, x.users, log.users) THEN T("C03", "crash.users") ELSE {})
         \cup (IF ~Between(NotKey(pre.appts, ek), NotKey(x.appts, ek), NotKey(log.appts, ek)) THEN T("C03", "crash.appointments") ELSE {})
         \cup (IF ~Between(ProjT(NotKey(pre.trackers, ek)), ProjT(NotKey(x.trackers, ek)), ProjT(NotKey(log.trackers, ek)))
               THEN T("C03", "crash.trackers") ELSE {})
         \cup (IF \E a \in log.appts : Key(a) = ek /\ a.u # ek[1] THEN T("C03", "crash.appointments") ELSE {})
         \cup (IF ~NoDangling(log) THEN T("C03", "crash.dangling") ELSE {})
         \cup (IF log.lastKnown \notin {pre.lastKnown, x.lastKnown} THEN T("C03", "crash.last_known") ELSE {})
         \cup (IF \E r \in log.users : r.slots + SumCost({a \in log.appts : a.u = r.u}) > GrantedOf(gr, r.u)
               THEN T("C03", "crash.grants_slots") ELSE {})

\* compare the post-state only when neither side aborted
Comparable(expAbort, logAbort) == logAbort = "" /\ expAbort \in {"", "norpc"}

-----------------------------------------------------------------------------
Init == st = [dead |-> TRUE] /\ g = [seen |-> {}, nodeHas |-> {}, chain |-> {}, lastAcc |-> {}, tower_id |-> "", granted |-> {}, flagged |-> FALSE, fresh |-> {}] /\ l = 1 /\ tags = {} /\ alive = FALSE

\* Boot: volatile state rebuilt from the database rows and the node's last blocks (inputs).
StepBoot ==
    /\ Ev.act = "Boot"
    /\ LET blocks == BlocksOf(Ev.blocks)
           n == Len(blocks)
           wc == IF n <= CACHE_N THEN blocks ELSE SubSeq(blocks, n - CACHE_N + 1, n)
           log == Logged(Ev.post, wc, blocks)
           allkeys == UNION {blocks[i].keys : i \in 1..n}
       IN /\ st' = log
          /\ g' = [g EXCEPT !.seen = @ \cup allkeys, !.nodeHas = @ \cup allkeys, !.chain = {blocks[i] : i \in 1..n},
                            !.granted = IF "dead" \in DOMAIN st THEN Resync(@, log) ELSE @, !.fresh = {},
                            !.tower_id = IF @ = "" THEN Ev.tower_id ELSE @]
          /\ tags' = tags
                \cup (IF Ev.abort = "" THEN Lift(C07_Copies(log)) ELSE {})
                \cup (IF ~NoDangling(log) THEN T("C03", "dangling") ELSE {})
                \cup (IF Ev.abort = "" /\ (log.gkH # Ev.tipH \/ log.wH # Ev.tipH) THEN T("C03", "boot.height") ELSE {})
                \cup (IF Ev.abort = "" /\ (log.reorged # {} \/ log.memo # {}) THEN T("C03", "boot.volatile") ELSE {})
                \cup (IF Ev.abort \notin {"", "crash"} THEN T("C03", "boot.abort:" \o Ev.abort) ELSE {})
                \cup (IF "dead" \notin DOMAIN st /\ \E r \in log.users : r.slots + SumCost({a \in log.appts : a.u = r.u}) > GrantedOf(g.granted, r.u)
                      THEN T("C03", "boot.grants_slots") ELSE {})
                \cup (IF "dead" \notin DOMAIN st /\ (st.users # log.users \/ st.appts # log.appts \/ st.trackers # log.trackers
                                                   \/ (st.lastKnown # log.lastKnown /\ st.lastKnown # 0))
                      THEN T("C03", "restart.changed_durable_state") ELSE {})
                \cup (IF g.tower_id # "" /\ Ev.abort = "" /\ Ev.tower_id # g.tower_id THEN T("C03", "restart.tower_id") ELSE {})
                \cup (IF Ev.abort = "" THEN CacheTags(Ev.post, wc, blocks) ELSE {})
          /\ alive' = (Ev.abort = "")

StepRegister ==
    /\ Ev.act = "Register"
    /\ LET exp == RegisterF(st, Ev.u)
           log == LogOr(Ev, exp.st, st.wCache, st.rIndex)
           E == [act |-> "Register", who |-> Ev.u, reply |-> Ev.reply, sends |-> {}, orc |-> OrcOf(<<>>)]
           durable == HasUser(log.users, Ev.u) /\ (~HasUser(st.users, Ev.u) \/ UserOf(log.users, Ev.u) # UserOf(st.users, Ev.u))
           gr2 == IF (Ev.abort = "" /\ Ev.reply.code = "ok") \/ (Ev.abort = "crash" /\ durable)
                  THEN {x \in g.granted : x[1] # Ev.u} \cup {<<Ev.u, (IF HasUser(st.users, Ev.u) THEN GrantedOf(g.granted, Ev.u) ELSE 0) + SUB_S>>}
                  ELSE g.granted
       IN /\ st' = log
          /\ g' = [g EXCEPT !.granted = Resync(gr2, log)]
          /\ tags' = tags
                \cup ConservationTags(gr2, log)
                \cup AbortTags(exp.abort, Ev.abort, "C07")
                \cup CrashTags(Ev.abort, st, exp.st, log, <<0, 0>>, gr2)
                \cup (IF Comparable(exp.abort, Ev.abort)
                      THEN Conf([exp EXCEPT !.st.users = log.users, !.st.gk = log.gk], log, {}, "C07", "C06", "C06", "C02", "C02")
                           \cup (IF {<<r.u, r.slots>> : r \in exp.st.users} # {<<r.u, r.slots>> : r \in log.users} THEN T("C07", "conf.users") ELSE {})
                           \cup (IF {<<r.u, r.slots>> : r \in exp.st.gk} # {<<r.u, r.slots>> : r \in log.gk} THEN T("C07", "conf.users_memory") ELSE {})
                           \cup (IF {<<r.u, r.start, r.expiry>> : r \in exp.st.users} # {<<r.u, r.start, r.expiry>> : r \in log.users} THEN T("C09", "conf.users") ELSE {})
                           \cup (IF {<<r.u, r.start, r.expiry>> : r \in exp.st.gk} # {<<r.u, r.start, r.expiry>> : r \in log.gk} THEN T("C09", "conf.users_memory") ELSE {})
                           \cup (IF exp.reply.code # Ev.reply.code THEN T("C07", "conf.reply") ELSE {})
                           \cup (IF st.reachable THEN Lift(C07_Register(st, E, log) \cup C08_Register(st, E, log) \cup C09_Register(st, E, log)) ELSE {})
                           \cup Lift(C07_Copies(log))
                           \cup (IF Others(st.users, Ev.u) # Others(log.users, Ev.u) \/ st.appts # log.appts \/ st.trackers # log.trackers
                                 THEN T("C06", "isolation") ELSE {})
                      ELSE {})
          /\ alive' = (alive /\ Ev.abort = "")

StepAdd ==
    /\ Ev.act = "Add"
    /\ LET a == [l |-> Ev.l, blob |-> [key |-> Ev.key, pay |-> Ev.pay, size |-> Ev.size], tsd |-> Ev.tsd, ver |-> Ev.ver]
           orc == OrcOf(Ev.rpc)
           sends == SendsOf(Ev.rpc)
           exp == WithFlag(AddAppointmentF(st, Ev.who, a, orc), Ev.rpc)
           log == LogOr(Ev, exp.st, st.wCache, st.rIndex)
           E == [act |-> "Add", who |-> Ev.who, a |-> a, reply |-> Ev.reply, sends |-> sends, orc |-> orc]
           g2 == [g EXCEPT !.granted = Resync(@, log), !.fresh = @ \cup {tx \in 0..MAXTX : orc[tx] \in {"ok", "rej", "res"}},
                           !.flagged = IF \E i \in 1..Len(Ev.rpc) : Ev.rpc[i][3] = "err" THEN FALSE ELSE @,
                           !.nodeHas = @ \cup {tx \in 0..MAXTX : orc[tx] \in {"ok", "mem", "res"}},
                           !.lastAcc = IF Ev.abort = "" /\ Ev.reply.code = "ok" /\ HasKey(log.appts, <<Ev.who, Ev.l>>)
                                          /\ RowOf(log.appts, <<Ev.who, Ev.l>>).ver = Ev.ver
                                       THEN {x \in @ : x.k # <<Ev.who, Ev.l>>} \cup
                                            {[k |-> <<Ev.who, Ev.l>>, key |-> Ev.key, pay |-> Ev.pay, size |-> Ev.size, tsd |-> Ev.tsd]}
                                       ELSE @]
       IN /\ st' = log
          /\ g' = g2
          /\ tags' = tags
                \cup (IF (\E i \in 1..Len(Ev.rpc) : Ev.rpc[i][3] = "err") /\ ~g.flagged THEN T("C12", "outage_not_flagged") ELSE {})
                \cup ConservationTags(g.granted, log)
                \cup AbortTags(exp.abort, Ev.abort, "C01")
                \cup CrashTags(Ev.abort, st, exp.st, log, <<Ev.who, Ev.l>>, g.granted)
                \cup (IF Comparable(exp.abort, Ev.abort)
                      THEN Conf(exp, log, sends, "C07", "C01", "C01", "C01", "C02")
                           \cup ReplyCodeTags(exp.reply.code, Ev.reply.code)
                           \cup Lift(C06_Request(st, E, log) \cup C07_Add(st, E, log) \cup C07_Copies(log))
                           \cup (IF st.reachable THEN Lift(C01_Add(st, E, log, g) \cup C08_Add(st, E, log, g)) ELSE {})
                           \cup Lift(C02_Sends(st, E, log, g) \cup C02_Status(st, E, log, g2))
                      ELSE {})
          /\ alive' = (alive /\ Ev.abort = "")

StepGet ==
    /\ Ev.act = "Get"
    /\ LET exp == GetAppointmentF(st, Ev.who, Ev.l)
           log == LogOr(Ev, st, st.wCache, st.rIndex)
           E == [act |-> "Get", who |-> Ev.who, l |-> Ev.l, reply |-> Ev.reply, sends |-> {}, orc |-> OrcOf(<<>>)]
           same == IF exp.code # Ev.reply.code THEN FALSE
                   ELSE IF exp.code # "ok" THEN (exp.code # "expired" \/ exp.expiry = Ev.reply.expiry)
                   ELSE IF exp.status # Ev.reply.status THEN FALSE
                   ELSE IF exp.status = "responded" THEN exp.d = Ev.reply.d /\ exp.p = Ev.reply.p
                   ELSE exp.key = Ev.reply.key /\ exp.pay = Ev.reply.pay /\ exp.size = Ev.reply.size /\ exp.tsd = Ev.reply.tsd
       IN /\ st' = log
          /\ g' = g
          /\ tags' = tags
                \cup (IF Ev.abort # "" THEN T("C11", "abort:" \o Ev.abort) ELSE
                      (IF ~same THEN T(IF exp.code \in {"auth", "expired"} \/ Ev.reply.code \in {"auth", "expired"} THEN "C06" ELSE "C08", "conf.reply") ELSE {})
                      \cup (IF ~SameState(st, log) THEN T("C06", "read_changed_state") ELSE {})
                      \cup Lift(C06_Request(st, E, log))
                      \cup (IF st.reachable THEN Lift(C01_Get(st, E) \cup C08_Get(st, E, g)) ELSE {}))
          /\ alive' = (alive /\ Ev.abort = "")

StepSub ==
    /\ Ev.act = "Sub"
    /\ LET exp == GetSubscriptionInfoF(st, Ev.who)
           log == LogOr(Ev, st, st.wCache, st.rIndex)
           rep == IF Ev.reply.code = "ok" THEN [Ev.reply EXCEPT !.locators = ToSetOf(@)] ELSE Ev.reply
           E == [act |-> "Sub", who |-> Ev.who, reply |-> rep, sends |-> {}, orc |-> OrcOf(<<>>)]
           same == IF exp.code # rep.code THEN FALSE
                   ELSE IF exp.code = "expired" THEN exp.expiry = rep.expiry
                   ELSE IF exp.code # "ok" THEN TRUE
                   ELSE exp.slots = rep.slots /\ exp.expiry = rep.expiry /\ exp.locators = rep.locators
       IN /\ st' = log
          /\ g' = g
          /\ tags' = tags
                \cup (IF Ev.abort # "" THEN T("C11", "abort:" \o Ev.abort) ELSE
                      (IF ~same THEN T("C06", "conf.reply") ELSE {})
                      \cup (IF ~SameState(st, log) THEN T("C06", "read_changed_state") ELSE {})
                      \cup Lift(C06_Request(st, E, log))
                      \cup (IF st.reachable THEN Lift(C06_Sub(st, E)) ELSE {}))
          /\ alive' = (alive /\ Ev.abort = "")

StepGkConnect ==
    /\ Ev.act = "GkConnect"
    /\ LET blk == BlkOf(Ev.blk)
           exp == Out(GkConnectF(st, blk.h), Reply("ok"), {})
           log == LogOr(Ev, exp.st, st.wCache, st.rIndex)
           E == [act |-> "GkConnect", blk |-> blk]
       IN /\ st' = log
          /\ g' = [g EXCEPT !.granted = {x \in @ : HasUser(log.users, x[1])}]
          /\ tags' = tags
                \cup AbortTags("", Ev.abort, "C09")
                \cup CrashTags(Ev.abort, st, exp.st, log, <<0, 0>>, g.granted)
                \cup (IF Ev.abort = "" THEN Conf(exp, log, SendsOf(Ev.rpc), "C09", "C09", "C09", "C02", "C02")
                                            \cup Lift(C09_GkConnect(st, E, log) \cup C07_Copies(log) \cup C07_Frozen(st, log)) ELSE {})
          /\ alive' = (alive /\ Ev.abort = "")

StepWConnect ==
    /\ Ev.act = "WConnect"
    /\ LET blk == BlkOf(Ev.blk)
           orc == OrcOf(Ev.rpc)
           sends == SendsOf(Ev.rpc)
           exp == WithFlag(WConnectF(st, blk, orc), Ev.rpc)
           log == LogOr(Ev, exp.st, exp.st.wCache, st.rIndex)
           E == [act |-> "WConnect", blk |-> blk, reply |-> Reply("ok"), sends |-> sends, orc |-> orc]
           g2 == [g EXCEPT !.fresh = @ \cup {tx \in 0..MAXTX : orc[tx] \in {"ok", "rej", "res"}}, !.seen = @ \cup blk.keys,
                           !.nodeHas = @ \cup blk.keys \cup {tx \in 0..MAXTX : orc[tx] \in {"ok", "mem", "res"}},
                           !.chain = {b \in @ : b.h < blk.h} \cup {blk}]
       IN /\ st' = log
          /\ g' = g2
          /\ tags' = tags
                \cup AbortTags(exp.abort, Ev.abort, "C01")
                \cup CrashTags(Ev.abort, st, exp.st, log, <<0, 0>>, g.granted)
                \cup (IF Comparable(exp.abort, Ev.abort)
                      THEN Conf(exp, log, sends, "C07", "C01", "C01", "C01", "C02")
                           \cup Lift(C01_WConnect(st, E, log, g) \cup C06_WConnect(st, E, log, g) \cup C02_Sends(st, E, log, g) \cup C02_Status(st, E, log, g2)
                                     \cup C07_Frozen(st, log) \cup C07_Copies(log))
                           \cup CacheTags(Ev.post, exp.st.wCache, st.rIndex)
                      ELSE {})
          /\ alive' = (alive /\ Ev.abort = "")

StepRConnect ==
    /\ Ev.act = "RConnect"
    /\ LET blk == BlkOf(Ev.blk)
           orc == OrcOf(Ev.rpc)
           sends == SendsOf(Ev.rpc)
           exp == WithFlag(RConnectF(st, blk, orc), Ev.rpc)
           log == LogOr(Ev, exp.st, st.wCache, exp.st.rIndex)
           E == [act |-> "RConnect", blk |-> blk, reply |-> Reply("ok"), sends |-> sends, orc |-> orc]
           g2 == [g EXCEPT !.fresh = {}, !.seen = @ \cup blk.keys,
                           !.nodeHas = @ \cup blk.keys \cup {tx \in 0..MAXTX : orc[tx] \in {"ok", "mem", "res"}},
                           !.chain = {b \in @ : b.h < blk.h} \cup {blk}]
       IN /\ st' = log
          /\ g' = g2
          /\ tags' = tags
                \cup ConservationTags(g.granted, log)
                \cup AbortTags(exp.abort, Ev.abort, "C04")
                \cup CrashTags(Ev.abort, st, exp.st, log, <<0, 0>>, g.granted)
                \cup (IF Comparable(exp.abort, Ev.abort)
                      THEN Conf(exp, log, sends, "C07", "C04", "C04", "C04", "C02")
                           \cup Lift(C04_RConnect(st, E, log, [g2 EXCEPT !.fresh = g.fresh]) \cup C02_Sends(st, E, log, g) \cup C07_Copies(log))
                           \cup CacheTags(Ev.post, st.wCache, exp.st.rIndex)
                      ELSE {})
          /\ alive' = (alive /\ Ev.abort = "")

StepDisc ==
    /\ Ev.act \in {"GkDisc", "WDisc", "RDisc"}
    /\ LET blk == BlkOf(Ev.blk)
           es == CASE Ev.act = "GkDisc" -> GkDisconnectF(st, blk.h)
                   [] Ev.act = "WDisc" -> WDisconnectF(st, blk)
                   [] OTHER -> RDisconnectF(st, blk)
           exp == Out(es, Reply("ok"), {})
           log == LogOr(Ev, es, es.wCache, es.rIndex)
           E == [act |-> Ev.act, blk |-> blk]
       IN /\ st' = log
          /\ g' = IF Ev.act = "GkDisc" THEN [g EXCEPT !.chain = {b \in @ : b.h < blk.h}] ELSE g
          /\ tags' = tags
                \cup AbortTags("", Ev.abort, "C04")
                \cup CrashTags(Ev.abort, st, exp.st, log, <<0, 0>>, g.granted)
                \cup (IF Ev.abort = "" THEN Conf(exp, log, SendsOf(Ev.rpc), "C07", "C04", "C04", "C02", "C02")
                                            \cup Lift(C07_Frozen(st, log))
                                            \cup (IF Ev.act = "GkDisc" THEN Lift(C09_Disc(st, E, log)) ELSE {})
                                            \cup CacheTags(Ev.post, es.wCache, es.rIndex) ELSE {})
          /\ alive' = (alive /\ Ev.abort = "")

\* End of a poll.  res: "ok" (better tip: persisted), "common", "transient", "persistent".
StepPollEnd ==
    /\ Ev.act = "PollEnd"
    /\ LET es == CASE Ev.propagated -> st      \* a listener aborted: the poll never reached its end
                   [] Ev.res = "ok" -> PollOkF(st, Ev.tip)
                   [] Ev.res \in {"common", "worse"} -> PollCommonF(st)    \* same or worse tip: nothing to process, bitcoind is there
                   [] Ev.res = "transient" -> PollTransientF(st)
                   [] OTHER -> st
           exp == Out(es, Reply("ok"), {})
           log == LogOr(Ev, es, st.wCache, st.rIndex)
       IN /\ st' = log
          /\ g' = g
          /\ tags' = tags
                \cup AbortTags("", Ev.abort, "C12")
                \cup CrashTags(Ev.abort, st, exp.st, log, <<0, 0>>, g.granted)
                \cup (IF Ev.abort = "" THEN Conf(exp, log, {}, "C07", "C03", "C03", "C02", "C02")
                                            \cup (IF Ev.synced THEN Lift(C04_Synced(log, g)) ELSE {}) ELSE {})
          /\ alive' = (alive /\ Ev.abort = "")

\* Liveness probe after an abort, crash marker, free-form notes: no state change expected.
StepNote ==
    /\ Ev.act \in {"Crash", "Note", "Probe"}
    /\ UNCHANGED <<st, tags>>
    /\ g' = g
    /\ alive' = (alive /\ Ev.act # "Crash")

\* The operator's view (teos-cli): everything it reports is a function of the state.  What it says about a user's slots and
\* expiry is one more copy of the balance "on the wire" (C07); the rest are notes (tag owner CLI: no listed property).
StepCli ==
    /\ Ev.act = "Cli"
    /\ LET exp == CliViewF(st, ToSetOf(Ev.asked))
           r == Ev.reply
           pu == {<<x[1], x[2], x[3], x[4], ToSetOf(x[5])>> : x \in ToSetOf(r.per_user)}
       IN tags' = tags
            \cup (IF Ev.abort # "" THEN T("C11", "abort:" \o Ev.abort)
                  ELSE IF r.code # "ok" THEN T("CLI", "refused")
                  ELSE (IF {<<x[1], x[2], x[3], x[4]>> : x \in pu} # {<<x[1], x[2], x[3], x[4]>> : x \in exp.per_user} THEN T("C07", "cli.reported") ELSE {})
                       \cup (IF pu # exp.per_user THEN T("CLI", "user_appointments") ELSE {})
                       \cup (IF r.n_users # exp.n_users \/ ToSetOf(r.users) # exp.users THEN T("CLI", "users") ELSE {})
                       \cup (IF r.n_appts # exp.n_appts \/ Len(r.appts) # exp.n_appts
                                 \/ {<<x[1], x[2], x[3], x[4], x[5]>> : x \in ToSetOf(r.appts)} # exp.appts THEN T("CLI", "appointments") ELSE {})
                       \cup (IF r.n_trackers # exp.n_trackers \/ Len(r.trackers) # exp.n_trackers
                                 \/ {<<x[1], x[2]>> : x \in ToSetOf(r.trackers)} # exp.trackers THEN T("CLI", "trackers") ELSE {})
                       \cup (IF r.reachable # exp.reachable THEN T("C12", "cli.reachable") ELSE {}))
    /\ UNCHANGED <<st, g>>
    /\ alive' = (alive /\ Ev.abort = "")

\* C03: after a crash in the middle of chain processing, restart and catch-up, the durable state equals the one of the
\* uninterrupted run of the same history (heights of unconfirmed trackers aside).
StepRefFinal ==
    /\ Ev.act = "RefFinal"
    /\ LET m == Ev.mine
           r == Ev.reference
       IN tags' = tags
            \cup (IF UsersOf(m.users) # UsersOf(r.users) THEN T("C03", "catchup.users") ELSE {})
            \cup (IF ApptsOf(m.appts) # ApptsOf(r.appts) THEN T("C03", "catchup.appointments") ELSE {})
            \cup (IF ProjT(TrackersOf(m.trackers)) # ProjT(TrackersOf(r.trackers)) THEN T("C03", "catchup.trackers") ELSE {})
            \cup (IF m.lastKnownH # r.lastKnownH THEN T("C03", "catchup.last_known") ELSE {})
    /\ UNCHANGED <<st, g, alive>>

\* C12: the reachability flag changed under an in-flight call (the Carrier noticed the outage)
StepFlag ==
    /\ Ev.act = "Flag"
    /\ st' = [st EXCEPT !.reachable = Ev.reachable]
    /\ g' = IF ~Ev.reachable THEN [g EXCEPT !.flagged = TRUE] ELSE g
    /\ UNCHANGED <<tags, alive>>

\* C12: a tower thread is still blocked although the node is reachable again and a poll was attempted
StepHung ==
    /\ Ev.act = "Hung"
    /\ tags' = tags \cup T(IF "prop" \in DOMAIN Ev THEN Ev.prop ELSE "C12", "hung:" \o Ev.op)
    /\ UNCHANGED <<st, g, alive>>

\* the code under test took the whole process down (stack overflow, abort): nothing answers any more
StepDied ==
    /\ Ev.act = "Died"
    /\ tags' = tags \cup T("C11", "process_died")
    /\ UNCHANGED <<st, g, alive>>

-----------------------------------------------------------------------------
(* C10 / C11: a scheduled concurrent run of 2-3 operations on real threads (harness/src/conc.rs).  The event carries *)
(* every operation with its reply, the chain events the poll delivered, all node RPCs and the state afterwards.       *)
(* Linearizable: some sequential order of the operations, executed by Tower.tla's action operators from the state     *)
(* before, produces exactly these replies and this state.                                                             *)

\* start / expiry of an add_appointment reply are read when the handler starts (atomics / early reads: DESIGN.md C10
\* "Assumes"): they are compared leniently (any value current during the run), everything else exactly.
ConcReplyOk(exp, got, lenient) ==
    /\ exp.code = got.code
    /\ (exp.code = "ok" /\ "slots" \in DOMAIN exp /\ "slots" \in DOMAIN got) => exp.slots = got.slots
    /\ (~lenient /\ exp.code = "ok" /\ "start" \in DOMAIN exp /\ "start" \in DOMAIN got) => exp.start = got.start
    /\ (~lenient /\ exp.code \in {"ok", "expired"} /\ "expiry" \in DOMAIN exp /\ "expiry" \in DOMAIN got) => exp.expiry = got.expiry
    /\ (exp.code = "ok" /\ "status" \in DOMAIN exp) =>
          /\ "status" \in DOMAIN got /\ exp.status = got.status
          /\ (exp.status = "responded" => exp.d = got.d /\ exp.p = got.p)
          /\ (exp.status = "watched" => exp.key = got.key /\ exp.pay = got.pay /\ exp.size = got.size /\ exp.tsd = got.tsd)

\* The chain events a poll delivered, as the sequence of critical sections the code executes them in: one step per
\* listener call (gatekeeper, watcher, responder) per block, then the end of the poll.  Requests served concurrently can
\* be ordered anywhere between these steps.
ChainSteps(ch) == [i \in 1..(3 * Len(ch)) |-> <<ch[((i - 1) \div 3) + 1][1], CASE (i - 1) % 3 = 0 -> "Gk" [] (i - 1) % 3 = 1 -> "W" [] OTHER -> "R",
                                                 BlkOf(ch[((i - 1) \div 3) + 1][2])>>]

\* one critical section of a chain event: resulting state and the transactions it submits to the node
ChainStepX(s, step, orc) ==
    LET blk == step[3]
        plain(x) == [st |-> x, sends |-> {}]
    IN CASE step[1] = "disc" /\ step[2] = "Gk" -> plain(GkDisconnectF(s, blk.h))
         [] step[1] = "disc" /\ step[2] = "W" -> plain(WDisconnectF(s, blk))
         [] step[1] = "disc" /\ step[2] = "R" -> plain(RDisconnectF(s, blk))
         [] step[1] = "conn" /\ step[2] = "Gk" -> plain(GkConnectF(s, blk.h))
         [] step[1] = "conn" /\ step[2] = "W" -> LET x == WConnectF(s, blk, orc) IN [st |-> x.st, sends |-> x.sends]
         [] OTHER -> LET x == RConnectF(s, blk, orc) IN [st |-> x.st, sends |-> x.sends]
ApplyChainStep(s, step, orc) == ChainStepX(s, step, orc).st

RECURSIVE ApplySteps(_, _, _, _)
ApplySteps(s, steps, i, orc) == IF i > Len(steps) THEN s ELSE ApplySteps(ApplyChainStep(s, steps[i], orc), steps, i + 1, orc)
ApplyChain(s, ch, i, orc) == ApplySteps(s, ChainSteps(ch), i, orc)

ApplyApi(s, o, orc, subLenient) ==
    CASE o.op = "register" -> LET x == RegisterF(s, o.u) IN [st |-> x.st, ok |-> ConcReplyOk(x.reply, o.reply, FALSE), sends |-> {}]
      [] o.op = "add" -> LET a == [l |-> o.l, blob |-> [key |-> o.key, pay |-> o.pay, size |-> o.size], tsd |-> o.tsd, ver |-> o.ver]
                             x == AddAppointmentF(s, o.who, a, orc)
                             \* the stored start block is the one the reply states
                             fix(t) == IF o.reply.code = "ok" /\ x.reply.code = "ok"
                                       THEN {IF Key(r) = <<o.who, o.l>> /\ r.ver = o.ver THEN [r EXCEPT !.start = o.reply.start] ELSE r : r \in t} ELSE t
                         IN [st |-> [x.st EXCEPT !.appts = fix(@)], ok |-> ConcReplyOk(x.reply, o.reply, TRUE) /\ x.abort = "", sends |-> x.sends]
      [] o.op = "get" -> [st |-> s, ok |-> ConcReplyOk(GetAppointmentF(s, o.who, o.l), o.reply, FALSE), sends |-> {}]
      [] o.op = "sub" -> LET x == GetSubscriptionInfoF(s, o.who)
                         IN [st |-> s, ok |-> IF subLenient THEN x.code = o.reply.code
                                         ELSE ConcReplyOk(x, o.reply, FALSE) /\ (x.code = "ok" => x.locators = ToSetOf(o.reply.locators)), sends |-> {}]
      [] OTHER -> [st |-> s, ok |-> FALSE, sends |-> {}]

\* merged order: item k of the merged sequence is either chain step (k counts) or an API op; represented by a function
\* pos : api ops -> 0..nsteps (the op runs after that many chain steps) and a permutation f breaking ties.
RECURSIVE RunMerged(_, _, _, _, _, _, _, _, _, _)
RunMerged(s, apis, f, pos, steps, done, i, orc, sent, subLenient) ==
    \* done = number of chain steps applied; i = index into the permuted api list; sent = transactions submitted so far
    IF i > Len(apis)
    THEN LET RECURSIVE Rest(_, _, _)
             Rest(x, k, sn) == IF k > Len(steps) THEN [st |-> x, ok |-> TRUE, sends |-> sn]
                               ELSE LET y == ChainStepX(x, steps[k], orc) IN Rest(y.st, k + 1, sn \cup y.sends)
         IN Rest(s, done + 1, sent)
    ELSE IF pos[f[i]] > done
    THEN LET y == ChainStepX(s, steps[done + 1], orc) IN RunMerged(y.st, apis, f, pos, steps, done + 1, i, orc, sent \cup y.sends, subLenient)
    ELSE LET r == ApplyApi(s, apis[f[i]], orc, subLenient)
         IN IF ~r.ok THEN [st |-> s, ok |-> FALSE, sends |-> sent] ELSE RunMerged(r.st, apis, f, pos, steps, done, i + 1, orc, sent \cup r.sends, subLenient)

ConcStateOk(x, log) ==
    /\ x.users = log.users /\ x.gk = log.gk /\ x.appts = log.appts
    /\ ProjT(x.trackers) = ProjT(log.trackers)

LinearizableX(s, ops, orc, ch, tip, log, sentObserved, subLenient) ==
    LET apiIdx == {i \in 1..Len(ops) : ops[i].op # "poll"}
        apis == [k \in 1..Cardinality(apiIdx) |-> ops[CHOOSE i \in apiIdx : Cardinality({j \in apiIdx : j < i}) = k - 1]]
        polled == \E i \in 1..Len(ops) : ops[i].op = "poll"
        steps == IF polled THEN ChainSteps(ch) ELSE <<>>
        n == Len(apis)
        \* real-time order: an operation invoked after `lo` listener calls had returned is linearized after them, one that
        \* returned before call number hi + 1 started is linearized before it
        lo(k) == IF "lo" \in DOMAIN apis[k] THEN apis[k].lo ELSE 0
        hi(k) == IF "hi" \in DOMAIN apis[k] /\ apis[k].hi <= Len(steps) THEN apis[k].hi ELSE Len(steps)
    IN \E f \in Permutations(1..n) : \E pos \in [1..n -> 0..Len(steps)] :
          /\ \A i \in 1..(n - 1) : pos[f[i]] <= pos[f[i + 1]]
          /\ \A k \in 1..n : lo(k) <= pos[k] /\ pos[k] <= hi(k)
          \* an operation that returned before another one was invoked comes first
          /\ \A i, j \in 1..n : (i < j /\ "ret" \in DOMAIN apis[f[j]] /\ "inv" \in DOMAIN apis[f[i]]) => ~(apis[f[j]].ret < apis[f[i]].inv)
          /\ LET r == RunMerged(s, apis, f, pos, steps, 0, 1, orc, {}, subLenient)
                 fin == IF polled THEN (IF Len(ch) = 0 THEN PollCommonF(r.st) ELSE PollOkF(r.st, tip)) ELSE r.st
             IN r.ok /\ ConcStateOk(fin, log) /\ r.sends = sentObserved

Linearizable(s, ops, orc, ch, tip, log, sentObserved) == LinearizableX(s, ops, orc, ch, tip, log, sentObserved, FALSE)
\* the same, not judging WHAT a get_subscription_info answered (only that it answered): used to tell the known read of an
\* intermediate state (F-C10-3: new balance with the old list) from every other failure
LinearizableButSub(s, ops, orc, ch, tip, log, sentObserved) == LinearizableX(s, ops, orc, ch, tip, log, sentObserved, TRUE)

StepConc ==
    /\ Ev.act = "Conc"
    /\ LET orc == OrcOf(Ev.rpc)
           \* caches and index after the chain events of the run (the same whatever the order)
           after == ApplyChain(st, Ev.chain, 1, orc)
           log == LogOr(Ev, after, after.wCache, after.rIndex)
           blocked == Ev.deadlock \/ Ev.timeout
           aborted == Len(Ev.aborts) > 0
           regs(u) == Cardinality({i \in 1..Len(Ev.ops) : Ev.ops[i].op = "register" /\ Ev.ops[i].u = u /\ Ev.ops[i].reply.code = "ok"})
           regUsers == {Ev.ops[i].u : i \in {j \in 1..Len(Ev.ops) : Ev.ops[j].op = "register"}}
           grC == {x \in g.granted : x[1] \notin regUsers}
                  \cup {<<u, (IF HasUser(st.users, u) THEN GrantedOf(g.granted, u) ELSE 0) + regs(u) * SUB_S>> : u \in regUsers}
       IN /\ st' = log
          /\ g' = [g EXCEPT !.granted = Resync({x \in grC : HasUser(log.users, x[1])}, log), !.fresh = {},
                            !.seen = @ \cup UNION {ToSetOf(Ev.chain[i][2].keys) : i \in 1..Len(Ev.chain)},
                            !.nodeHas = @ \cup {tx \in 0..MAXTX : orc[tx] \in {"ok", "mem", "res"}}
                                          \cup UNION {ToSetOf(Ev.chain[i][2].keys) : i \in 1..Len(Ev.chain)},
                            !.chain = LET conn == {BlkOf(Ev.chain[i][2]) : i \in {j \in 1..Len(Ev.chain) : Ev.chain[j][1] = "conn"}}
                                          disc == {Ev.chain[i][2].h : i \in {j \in 1..Len(Ev.chain) : Ev.chain[j][1] = "disc"}}
                                      IN {b \in @ : b.h \notin disc /\ \A c \in conn : c.h # b.h} \cup conn]
          /\ tags' = tags
                \cup (IF Ev.deadlock THEN T("C11", "deadlock") ELSE {})
                \cup (IF Ev.timeout /\ ~Ev.deadlock THEN T("C11", "hung:conc") ELSE {})
                \cup {<<l, "C11", "abort:" \o Ev.aborts[i][2]>> : i \in 1..Len(Ev.aborts)}
                \cup (IF ~blocked /\ ~aborted /\ ~Linearizable(st, Ev.ops, orc, Ev.chain, Ev.tip, log, SendsOf(Ev.rpc))
                      THEN T("C10", IF LinearizableButSub(st, Ev.ops, orc, Ev.chain, Ev.tip, log, SendsOf(Ev.rpc))
                                    THEN "not_linearizable.subscription_info_only" ELSE "not_linearizable")
                      ELSE {})
                \cup (IF ~blocked /\ ~aborted THEN ConservationTags(grC, log) \cup Lift(C07_Copies(log)) ELSE {})
                \cup (IF ~blocked /\ ~NoDangling(log) THEN T("C10", "orphan_record") ELSE {})
          /\ alive' = (alive /\ ~blocked /\ ~aborted)

\* End-to-end tier (real teosd binary): the chain events one poll delivered are observed as a whole (the durable state is read
\* from the SQLite file once last_known_block has moved; memory is not observable: frozen).  chain = <<"disc"|"conn", blk>>*.
StepChain ==
    /\ Ev.act = "Chain"
    /\ LET orc == OrcOf(Ev.rpc)
           after == ApplyChain(st, Ev.chain, 1, orc)
           exp == WithFlag(Out(IF Len(Ev.chain) = 0 THEN PollCommonF(after) ELSE PollOkF(after, Ev.tip), Reply("ok"), {}), Ev.rpc)
           log == LogOr(Ev, exp.st, exp.st.wCache, exp.st.rIndex)
           keys == UNION {ToSetOf(Ev.chain[i][2].keys) : i \in 1..Len(Ev.chain)}
       IN /\ st' = log
          /\ g' = [g EXCEPT !.fresh = {}, !.seen = @ \cup keys,
                            !.nodeHas = @ \cup keys \cup {tx \in 0..MAXTX : orc[tx] \in {"ok", "mem", "res"}},
                            !.granted = {x \in @ : HasUser(log.users, x[1])},
                            !.chain = LET conn == {BlkOf(Ev.chain[i][2]) : i \in {j \in 1..Len(Ev.chain) : Ev.chain[j][1] = "conn"}}
                                          disc == {Ev.chain[i][2].h : i \in {j \in 1..Len(Ev.chain) : Ev.chain[j][1] = "disc"}}
                                      IN {b \in @ : b.h \notin disc /\ \A c \in conn : c.h # b.h} \cup conn]
          /\ tags' = tags
                \cup AbortTags("", Ev.abort, "C11")
                \cup (IF Ev.abort = ""
                      THEN (IF exp.st.users # log.users THEN T("C07", "e2e.users") \cup T("C09", "e2e.users") ELSE {})
                           \cup (IF exp.st.appts # log.appts THEN T("C01", "e2e.appointments") \cup T("C02", "e2e.appointments") ELSE {})
                           \cup (IF ProjT(exp.st.trackers) # ProjT(log.trackers) THEN T("C01", "e2e.trackers") \cup T("C04", "e2e.trackers") \cup T("C02", "e2e.trackers") ELSE {})
                           \cup (IF exp.st.lastKnown # log.lastKnown THEN T("C03", "e2e.last_known") ELSE {})
                           \cup ConservationTags(g.granted, log)
                           \cup (IF ~NoDangling(log) THEN T("C03", "dangling") ELSE {})
                      ELSE {})
          /\ alive' = (alive /\ Ev.abort = "")

\* the rig went back to a checkpoint (database file and node state) to try another schedule
StepRestore ==
    /\ Ev.act = "Restore"
    /\ st' = [dead |-> TRUE]
    /\ alive' = FALSE
    /\ UNCHANGED <<g, tags>>

StepInit ==
    /\ Ev.act = "Init"
    /\ st' = [dead |-> TRUE]
    /\ g' = [seen |-> {}, nodeHas |-> {}, chain |-> {}, lastAcc |-> {}, tower_id |-> "", granted |-> {}, flagged |-> FALSE, fresh |-> {}]
    /\ alive' = FALSE
    /\ UNCHANGED tags

StepEnd ==
    /\ Ev.act = "end"
    /\ PrintT(<<"TRACE-END", l, ToJson(tags)>>)
    /\ UNCHANGED <<st, g, tags, alive>>

Next ==
    /\ l <= Len(Rec)
    /\ l' = l + 1
    /\ \/ StepInit \/ StepBoot \/ StepRegister \/ StepAdd \/ StepGet \/ StepSub
       \/ StepGkConnect \/ StepWConnect \/ StepRConnect \/ StepDisc \/ StepPollEnd \/ StepNote \/ StepCli \/ StepRefFinal \/ StepFlag \/ StepHung \/ StepDied \/ StepConc \/ StepRestore \/ StepChain \/ StepEnd

Spec == Init /\ [][Next]_vars
=============================================================================
