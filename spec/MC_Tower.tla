------------------------------ MODULE MC_Tower ------------------------------
(***************************************************************************)
(* Design-level model checking of the tower specification: the environment *)
(* (users, the chain, the Bitcoin node's verdicts) is fully                *)
(* nondeterministic; every step taken by Tower.tla's action operators is   *)
(* judged by the property monitors of TowerProps.tla (the same monitors    *)
(* Trace_Tower.tla evaluates on implementation traces), and structural     *)
(* invariants are checked in every state.                                  *)
(*                                                                         *)
(* Node verdicts are FREE: for every transaction the tower may ask about   *)
(* in a step the node may answer accept / reject / already-in-chain /      *)
(* in-mempool, whatever the chain looks like ("free verdict mode" of       *)
(* DESIGN.md Appendix C) - a superset of what a real node does.            *)
(*                                                                         *)
(* Each maximal behaviour can be emitted as a REPLAY line (abstract        *)
(* script) for execution on the real code (spec -> implementation).        *)
(***************************************************************************)
EXTENDS TowerProps, TLC, Json, SequencesExt

CONSTANTS Users,        \* e.g. {1, 2}
          Disputes,     \* dispute transaction ids, e.g. {10, 20}
          Variants,     \* penalty variants per dispute, e.g. {1, 2}: penalty d+v; variant 2 is a two-slot blob
          Garbled,      \* sizes of undecryptable blobs offered, e.g. {1, 3}
          H0,           \* boot height
          MaxBlocks, MaxOps, MaxDisc,
          Acts,         \* subset of {"Register","Add","Get","Sub","Mine","Disconnect","BadSig","Restart"}
          Emit

VARIABLES st, g, chain, nblocks, nops, ndisc, nver, nextId, viol, hist

vars == <<st, g, chain, nblocks, nops, ndisc, nver, nextId, viol, hist>>

Penalties == {d + v : d \in Disputes, v \in Variants}
TxU == Disputes \cup Penalties
MAXTX == 10 + CHOOSE m \in TxU : \A x \in TxU : x <= m

SizeOf(p) == IF p % 10 = 2 THEN SLOT_SIZE + 1 ELSE 1
ValidBlobs(l) == {[key |-> l, pay |-> l + v, size |-> SizeOf(l + v)] : v \in Variants}
WrongKeyBlobs(l) == {[key |-> d, pay |-> d + 1, size |-> 1] : d \in Disputes \ {l}}
GarbledBlobs == {[key |-> -1, pay |-> 0, size |-> s] : s \in Garbled}
Blobs(l) == ValidBlobs(l) \cup WrongKeyBlobs(l) \cup GarbledBlobs

NoneOrc == [tx \in 0..MAXTX |-> "none"]
\* every assignment of verdicts to the relevant transactions
Orcs(rel, vs) == {[tx \in 0..MAXTX |-> IF tx \in rel THEN f[tx] ELSE "none"] : f \in [rel -> vs]}
V4 == {"ok", "rej", "res", "mem"}
V3 == {"ok", "rej", "res"}

InitBlocks == [i \in 1..IDX_N |-> [id |-> i, h |-> H0 - IDX_N + i, keys |-> {}]]
EmptyDb == [users |-> {}, appts |-> {}, trackers |-> {}, lastKnown |-> 0]

Init ==
    /\ st = BootF(EmptyDb, InitBlocks, H0)
    /\ g = [seen |-> {}, nodeHas |-> {}, chain |-> {InitBlocks[i] : i \in 1..IDX_N}, lastAcc |-> {},
            granted |-> [u \in Users |-> 0], fresh |-> {}]
    /\ chain = InitBlocks
    /\ nblocks = 0 /\ nops = 0 /\ ndisc = 0 /\ nver = 1 /\ nextId = IDX_N + 1
    /\ viol = {} /\ hist = <<>>

Tags(act, S) == {<<act, s[1], s[2]>> : s \in S}
AbortTag(act, x) == IF x.abort # "" THEN {<<act, "SPEC", "abort:" \o x.abort>>} ELSE {}

-----------------------------------------------------------------------------
DoRegister(u) ==
    /\ "Register" \in Acts /\ nops < MaxOps
    /\ LET x == RegisterF(st, u)
           rep == IF x.reply.code = "ok" THEN [code |-> "ok", slots |-> x.reply.slots, start |-> x.reply.start,
                                               expiry |-> x.reply.expiry, sig_ok |-> TRUE] ELSE x.reply
           E == [act |-> "Register", who |-> u, reply |-> rep, sends |-> {}, orc |-> NoneOrc]
       IN /\ st' = x.st
          /\ g' = [g EXCEPT !.granted[u] = IF rep.code = "ok" THEN @ + SUB_S ELSE @]
          /\ viol' = viol \cup Tags("Register", C07_Register(st, E, x.st) \cup C08_Register(st, E, x.st) \cup C09_Register(st, E, x.st)
                                                \cup C07_Copies(x.st))
          /\ hist' = Append(hist, [op |-> "register", u |-> u, code |-> rep.code])
    /\ nops' = nops + 1
    /\ UNCHANGED <<chain, nblocks, ndisc, nver, nextId>>

\* who = the user the signature recovers to (NoUser: a bad signature of any class)
DoAdd(who, l, blob, orc) ==
    /\ nops < MaxOps
    /\ LET a == [l |-> l, blob |-> blob, tsd |-> nver, ver |-> nver]
           x == AddAppointmentF(st, who, a, orc)
           rep == IF x.reply.code = "ok" THEN [code |-> "ok", start |-> x.reply.start, slots |-> x.reply.slots,
                                               expiry |-> x.reply.expiry, ver |-> x.reply.ver, sig_ok |-> TRUE] ELSE x.reply
           E == [act |-> "Add", who |-> who, a |-> a, reply |-> rep, sends |-> x.sends, orc |-> orc]
           k == <<who, l>>
           g2 == [g EXCEPT !.fresh = @ \cup {tx \in TxU : orc[tx] \in {"ok", "rej", "res"}},
                           !.nodeHas = @ \cup {tx \in TxU : orc[tx] \in {"ok", "mem", "res"}},
                           !.lastAcc = IF rep.code = "ok" /\ HasKey(x.st.appts, k) /\ RowOf(x.st.appts, k).ver = a.ver
                                       THEN {y \in @ : y.k # k} \cup {[k |-> k, key |-> blob.key, pay |-> blob.pay, size |-> blob.size, tsd |-> a.tsd]}
                                       ELSE @]
       IN /\ st' = x.st
          /\ g' = g2
          /\ viol' = viol \cup AbortTag("Add", x)
                          \cup Tags("Add", C06_Request(st, E, x.st) \cup C07_Add(st, E, x.st) \cup C07_Copies(x.st)
                                          \cup C01_Add(st, E, x.st, g) \cup C08_Add(st, E, x.st, g)
                                          \cup C02_Sends(st, E, x.st, g) \cup C02_Status(st, E, x.st, g2))
          /\ hist' = Append(hist, [op |-> "add", who |-> who, l |-> l, blob |-> blob, ver |-> a.ver, code |-> rep.code,
                                   orc |-> {<<tx, orc[tx]>> : tx \in {t \in TxU : orc[t] # "none"}}])
    /\ nops' = nops + 1 /\ nver' = nver + 1
    /\ UNCHANGED <<chain, nblocks, ndisc, nextId>>

AddAny ==
    /\ "Add" \in Acts
    /\ \E u \in Users, l \in Disputes : \E blob \in Blobs(l) :
          LET p == Decrypt(blob, l)
              rel == IF p # NoTx /\ IdxHas(st.wCache, l) THEN {p} ELSE {}
          IN \E orc \in Orcs(rel, V4) : DoAdd(u, l, blob, orc)

\* a request whose signature does not recover to any registered key
BadSigAdd ==
    /\ "BadSig" \in Acts
    /\ \E l \in Disputes : \E blob \in ValidBlobs(l) : DoAdd(NoUser, l, blob, NoneOrc)

DoGet(who, l) ==
    /\ "Get" \in Acts /\ nops < MaxOps
    /\ LET rep0 == GetAppointmentF(st, who, l)
           rep == IF rep0.code = "ok" /\ rep0.status = "watched" THEN
                      [code |-> "ok", status |-> "watched", key |-> rep0.key, pay |-> rep0.pay, size |-> rep0.size,
                       tsd |-> rep0.tsd, bytes_ok |-> TRUE]
                  ELSE rep0
           E == [act |-> "Get", who |-> who, l |-> l, reply |-> rep, sends |-> {}, orc |-> NoneOrc]
       IN /\ viol' = viol \cup Tags("Get", C06_Request(st, E, st) \cup C01_Get(st, E) \cup C08_Get(st, E, g))
          /\ hist' = Append(hist, [op |-> "get", who |-> who, l |-> l, code |-> rep.code])
    /\ nops' = nops + 1
    /\ UNCHANGED <<st, g, chain, nblocks, ndisc, nver, nextId>>

DoSub(who) ==
    /\ "Sub" \in Acts /\ nops < MaxOps
    /\ LET rep == GetSubscriptionInfoF(st, who)
           E == [act |-> "Sub", who |-> who, reply |-> rep, sends |-> {}, orc |-> NoneOrc]
       IN /\ viol' = viol \cup Tags("Sub", C06_Request(st, E, st) \cup C06_Sub(st, E))
          /\ hist' = Append(hist, [op |-> "sub", who |-> who, code |-> rep.code])
    /\ nops' = nops + 1
    /\ UNCHANGED <<st, g, chain, nblocks, ndisc, nver, nextId>>

-----------------------------------------------------------------------------
(* A new block: gatekeeper, watcher, responder, in that order, judged one by one. *)

OnChain == UNION {chain[i].keys : i \in 1..Len(chain)}
TipH == chain[Len(chain)].h

ConnectWith(blk, orcW, orcR) ==
    LET s0 == st
        Eg == [act |-> "GkConnect", blk |-> blk]
        s1 == GkConnectF(s0, blk.h)
        tg == Tags("GkConnect", C09_GkConnect(s0, Eg, s1) \cup C07_Copies(s1) \cup C07_Frozen(s0, s1))
        gPurged == [g EXCEPT !.granted = [u \in Users |-> IF HasUser(s1.users, u) THEN @[u] ELSE 0]]
        xw == WConnectF(s1, blk, orcW)
        Ew == [act |-> "WConnect", blk |-> blk, reply |-> Reply("ok"), sends |-> xw.sends, orc |-> orcW]
        g1 == [gPurged EXCEPT !.fresh = @ \cup {tx \in TxU : orcW[tx] \in {"ok", "rej", "res"}}, !.seen = @ \cup blk.keys,
                              !.nodeHas = @ \cup blk.keys \cup {tx \in TxU : orcW[tx] \in {"ok", "mem", "res"}},
                              !.chain = {b \in @ : b.h < blk.h} \cup {blk}]
        tw == Tags("WConnect", C01_WConnect(s1, Ew, xw.st, gPurged) \cup C06_WConnect(s1, Ew, xw.st, gPurged) \cup C02_Sends(s1, Ew, xw.st, gPurged) \cup C02_Status(s1, Ew, xw.st, g1)
                               \cup C07_Frozen(s1, xw.st) \cup C07_Copies(xw.st))
              \cup AbortTag("WConnect", xw)
        xr == RConnectF(xw.st, blk, orcR)
        Er == [act |-> "RConnect", blk |-> blk, reply |-> Reply("ok"), sends |-> xr.sends, orc |-> orcR]
        g2 == [g1 EXCEPT !.fresh = {}, !.nodeHas = @ \cup {tx \in TxU : orcR[tx] \in {"ok", "mem", "res"}}]
        tr == Tags("RConnect", C04_RConnect(xw.st, Er, xr.st, g1) \cup C02_Sends(xw.st, Er, xr.st, g1) \cup C07_Copies(xr.st))
              \cup AbortTag("RConnect", xr)
    IN /\ st' = [xr.st EXCEPT !.lastKnown = blk.id]
       /\ g' = g2
       /\ viol' = viol \cup tg \cup tw \cup tr \cup Tags("Synced", C04_Synced(xr.st, g2))
       /\ hist' = Append(hist, [op |-> "mine", keys |-> blk.keys, h |-> blk.h,
                                orc |-> {<<tx, orcW[tx]>> : tx \in {t \in TxU : orcW[t] # "none"}}
                                        \cup {<<tx, orcR[tx]>> : tx \in {t \in TxU : orcR[t] # "none"}}])

Mine ==
    /\ "Mine" \in Acts /\ nblocks < MaxBlocks
    /\ \E keys \in SUBSET (TxU \ OnChain) :
          /\ Cardinality(keys) <= 2
          /\ LET blk == [id |-> nextId, h |-> TipH + 1, keys |-> keys]
                 s1 == GkConnectF(st, blk.h)
                 relW == {Decrypt(BlobOf(a), a.l) : a \in {x \in s1.appts : x.l \in keys}} \ {NoTx}
             IN \E orcW \in Orcs(relW, V4) :
                   LET sw == WConnectF(s1, blk, orcW).st
                       relR == {t.d : t \in {x \in sw.trackers : Key(x) \in sw.reorged}}
                               \cup {t.p : t \in {x \in sw.trackers : Key(x) \in sw.reorged \/ (~x.conf /\ x.h <= blk.h - RETRY_N)}}
                       relR2 == {tx \in relR : ~MemoHas(sw.memo, tx)}
                   IN \E orcR \in Orcs(relR2, V3) :
                         /\ ConnectWith(blk, orcW, orcR)
                         /\ chain' = Append(chain, blk)
    /\ nblocks' = nblocks + 1 /\ nextId' = nextId + 1
    /\ UNCHANGED <<nops, ndisc, nver>>

\* The tip is disconnected (the replacement blocks come with later Mine steps; requests may arrive in between,
\* which is what a poll whose replacement blocks cannot be downloaded looks like).
Disconnect ==
    /\ "Disconnect" \in Acts /\ ndisc < MaxDisc
    /\ Len(chain) > 1 /\ st.rIndex # <<>>
    /\ LET blk == chain[Len(chain)]
           s1 == GkDisconnectF(st, blk.h)
           s2 == WDisconnectF(s1, blk)
           s3 == RDisconnectF(s2, blk)
           E == [act |-> "GkDisc", blk |-> blk]
       IN /\ st' = s3
          /\ g' = [g EXCEPT !.chain = {b \in @ : b.h < blk.h}]
          /\ viol' = viol \cup Tags("Disc", C09_Disc(st, E, s1) \cup C07_Frozen(st, s3))
          /\ chain' = SubSeq(chain, 1, Len(chain) - 1)
          /\ hist' = Append(hist, [op |-> "disconnect", h |-> blk.h])
    /\ ndisc' = ndisc + 1
    /\ UNCHANGED <<nblocks, nops, nver, nextId>>

\* C03 at the design level: the tower process is killed between two actions and restarted on its data directory.  The
\* bootstrap (Tower.tla's BootF = teos/src/main.rs) rebuilds everything volatile from the durable state and the node's
\* blocks: the users map, the heights, the Watcher's cache (last CACHE_N blocks), the Responder's index (last IDX_N blocks);
\* the reorged flags, the Carrier's memo are gone.  Every monitor and invariant keeps being evaluated afterwards: the
\* restarted tower must answer what follows exactly as specified.  Restarts are taken when the durable last known block is
\* the node's tip (a restart after a poll that recorded the tip without delivering the blocks is known finding F-C03-2).
Restart ==
    /\ "Restart" \in Acts /\ ndisc = 0
    /\ st.lastKnown = chain[Len(chain)].id \/ st.lastKnown = 0
    /\ LET n == Len(chain)
           blocks == SubSeq(chain, IF n > IDX_N THEN n - IDX_N + 1 ELSE 1, n)
           db == [users |-> st.users, appts |-> st.appts, trackers |-> st.trackers, lastKnown |-> st.lastKnown]
       IN /\ st' = BootF(db, blocks, chain[n].h)
          /\ g' = [g EXCEPT !.fresh = {}]
          /\ viol' = viol \cup Tags("Boot", C07_Copies(BootF(db, blocks, chain[n].h)))
                          \cup (IF st.reorged # {} THEN {<<"Boot", "C03", "reorged_flags_lost">>} ELSE {})
          /\ hist' = Append(hist, [op |-> "restart"])
    /\ nops' = nops + 1
    /\ UNCHANGED <<chain, nblocks, ndisc, nver, nextId>>

Next ==
    \/ Restart
    \/ \E u \in Users : DoRegister(u)
    \/ AddAny
    \/ BadSigAdd
    \/ \E u \in Users, l \in Disputes : DoGet(u, l)
    \/ \E u \in Users : DoSub(u)
    \/ Mine
    \/ Disconnect

Spec == Init /\ [][Next]_vars

-----------------------------------------------------------------------------
(* Invariants *)

NoViolation == viol = {}

Structure ==
    /\ NoDangling(st) /\ UniqueKeys(st) /\ ThreeCopies(st)
    /\ IdxWF(st.wCache, CACHE_N) /\ IdxWF(st.rIndex, IDX_N)
    /\ \A r \in st.users : r.slots >= 0

\* C07: nobody holds more than was granted (granted = slots + occupied + forfeited, forfeited >= 0)
Conservation ==
    \A r \in st.users : r.slots + SumCost({a \in st.appts : a.u = r.u}) <= g.granted[r.u]

\* C02: a tracker exists only for a penalty the node has, decrypted from the appointment of a present owner
TrackersJustified ==
    \A t \in st.trackers :
        /\ t.p \in g.nodeHas
        /\ t.d \in g.seen
        /\ \E a \in st.appts : Key(a) = Key(t) /\ Decrypt(BlobOf(a), t.d) = t.p

\* C01 (state form): no decryptable appointment of a dispute the tower has just processed is left unanswered,
\* unless the node said the penalty is already on chain: checked per step by C01_WConnect / C01_Add.

\* C04: reorged flags only point to existing or vanished trackers, never to unconfirmed ones that were re-submitted
ReorgedSane == \A k \in st.reorged : ~HasKey(st.trackers, k) \/ RowOf(st.trackers, k).conf

EmitInv == (Emit /\ (nops = MaxOps /\ nblocks = MaxBlocks)) => PrintT(<<"REPLAY", ToJson(hist)>>)

\* state constraint: bound the exploration
Bound == nops <= MaxOps /\ nblocks <= MaxBlocks /\ ndisc <= MaxDisc

View == <<st, g, chain, nblocks, nops, ndisc, viol>>
=============================================================================
