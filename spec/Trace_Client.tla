----------------------------- MODULE Trace_Client -----------------------------
(***************************************************************************)
(* Trace validator for the CLN client plugin (C05, C13, C14).  Input: the  *)
(* ndjson traces harness/client_rig records while it drives the REAL       *)
(* watchtower-client binary against scripted fake towers (several          *)
(* scenarios may be concatenated; each starts with a "start" line, the     *)
(* file ends with an "eof" line).                                          *)
(*                                                                         *)
(* The rig sees the client from outside: calls and answers on the plugin   *)
(* protocol, requests reaching the towers and their answers, the SQLite    *)
(* rows, what listtowers prints, panic messages.  What the client does     *)
(* between two such events is hidden.  The validator therefore carries the *)
(* SET bel of states of Client.tla that are compatible with everything     *)
(* logged so far: an event first closes bel under the hidden steps, then   *)
(* applies the visible action it names (same operators as model checking)  *)
(* resp. keeps the states that project to the logged observation.          *)
(*   (A) monitors: the predicates of Client.tla (NeverLost, ExactlyOne,    *)
(*       DataForResend, OneLoop, EndsUnreachable, BadSig, Misbehaving,     *)
(*       Survives) are evaluated on bel after every event - a property is  *)
(*       reported when NO compatible state satisfies it; timing            *)
(*       obligations (NoFlood, Delivered, EndsUnreachable) are evaluated   *)
(*       on the towers' timestamped log;                                   *)
(*   (B) allowed successor: an event no compatible state allows is         *)
(*       reported with the component that disagrees and the validation     *)
(*       continues from the logged observation.                            *)
(* Deviation branches (DEVIATIONS) are allowed but their use is reported   *)
(* ("dev:Sxx") as soon as every compatible state needed one.               *)
(* Tags: <<line, property, what, scenario>>; printed by the "eof" event.   *)
(***************************************************************************)
EXTENDS Client, Integers, Json, IOUtils

CONSTANTS MINB,      \* minimal back-off between two attempts of a retrier (ms), with slack
          SLACK,     \* slack of the bounded-time obligations (ms)
          PROC,      \* an answer that has arrived is acted upon within this time (ms): nothing but computation and a
                     \* database write lies in between
          CAP        \* more compatible states than this: the scenario is too ambiguous to be judged, the validator says
                     \* so (tag VALIDATOR) and skips to the next scenario

Rec == ndJsonDeserialize(IOEnv.TRACE)

VARIABLES bel, ln, tags, mon
vars == <<bel, ln, tags, mon>>

SetOf(s) == {s[i] : i \in 1..Len(s)}

\* call by value: v is evaluated once (TLC re-evaluates LET definitions at every use inside an action)
Let1(v, F(_)) == CHOOSE x \in {F(y) : y \in {v}} : TRUE

-----------------------------------------------------------------------------
(* closure under the hidden steps                                          *)

RECURSIVE Close(_, _, _)
Close(done, frontier, tm) ==
    IF frontier = {} THEN done
    ELSE LET done2 == done \cup frontier
             next == UNION {Hidden(s, tm) : s \in frontier}
         IN Close(done2, next \ done2, tm)

\* the hidden steps between the previous event (time prev) and this one (time now) under configuration cfg
TmOf(cfg, prev, now) ==
    [minb |-> MINB, prev |-> prev, now |-> now, wake |-> 1000 * cfg.auto_retry, tick |-> 900]

-----------------------------------------------------------------------------
(* projections                                                             *)

ObsDb(o) ==
    [towers |-> {[t |-> r.t, port |-> r.addr, slots |-> r.slots] : r \in SetOf(o.towers)},
     regs |-> {[t |-> r.t, slots |-> r.slots, start |-> r.start, expiry |-> r.expiry] : r \in SetOf(o.regs)},
     rcpts |-> {[t |-> r.t, l |-> r.l, ok |-> r.ok] : r \in SetOf(o.rcpts)},
     pend |-> {Ref(r.t, r.l) : r \in SetOf(o.pend)},
     inv |-> {Ref(r.t, r.l) : r \in SetOf(o.inv)},
     bodies |-> SetOf(o.bodies),
     proofs |-> {Ref(r.t, r.l) : r \in SetOf(o.proofs)}]

ObsMem(m) == {[t |-> x.t, port |-> x.addr, slots |-> x.slots, start |-> x.start, expiry |-> x.expiry, status |-> x.status,
               pending |-> SetOf(x.pending), invalid |-> SetOf(x.invalid)] : x \in SetOf(m)}

DbFields == {"towers", "regs", "rcpts", "pend", "inv", "bodies", "proofs"}


\* without the slot counts
NoSlots(mem) == {[t |-> x.t, status |-> x.status, start |-> x.start, expiry |-> x.expiry, pending |-> x.pending,
                  invalid |-> x.invalid] : x \in mem}
\* without the statuses
Plain(mem) == {[t |-> x.t, slots |-> x.slots, start |-> x.start, expiry |-> x.expiry, pending |-> x.pending,
                invalid |-> x.invalid] : x \in mem}

-----------------------------------------------------------------------------
Ev == Rec[ln]
T(prop, what) == {<<ln, prop, what, mon.name>>}

PropOfDev(d) == CASE d = "S12" -> "C05" [] d = "S13" -> "C13" [] d = "S14" -> "C14" [] d = "S15" -> "C05"
                  [] d = "S18" -> "C14" [] d = "S19" -> "C13" [] d = "S20" -> "C13" [] d = "S21" -> "C05" [] d = "S22" -> "C14" [] OTHER -> "C18"

Mon0 == [name |-> "-", cfg |-> [max_retry |-> 3, auto_retry |-> 2, max_interval |-> 1],
         devs |-> {}, flagged |-> {}, skip |-> FALSE,
         since |-> [t \in Towers |-> 0],            \* last time something disturbed the delivery to t
         bad |-> [t \in Towers |-> {}],             \* why t does not count as well-behaved now
         downAt |-> [t \in Towers |-> -1],          \* t is down since (and the client had data for it since tuAt)
         tuAt |-> [t \in Towers |-> -1],
         sawUnr |-> [t \in Towers |-> FALSE],
         lastTs |-> 0,
         lastcls |-> [t \in Towers |-> "none"],    \* class of the last answer of t
         lastObs |-> [db |-> [towers |-> <<>>, regs |-> <<>>, rcpts |-> <<>>, pend |-> <<>>, inv |-> <<>>, bodies |-> <<>>,
                              proofs |-> <<>>], mem |-> <<>>, memok |-> FALSE, ts |-> 0]]

Init == bel = {} /\ ln = 1 /\ tags = {} /\ mon = Mon0

\* bounded-time obligations derived from the configuration (ms)
DeliverBound(cfg) == 1500 * cfg.max_interval + 1000 * (cfg.auto_retry + 2) + 2000 + SLACK
GiveUpMin(cfg) == IF 1000 * cfg.max_retry - 1500 * cfg.max_interval - 600 > 0
                  THEN 1000 * cfg.max_retry - 1500 * cfg.max_interval - 600 ELSE 0
GiveUpBound(cfg) == 1000 * (cfg.auto_retry + 2) + 1000 * cfg.max_retry + 1500 * cfg.max_interval + 1000 + SLACK

Touch(m, ts, ts2) == [m EXCEPT !.since = [t \in Towers |-> IF t \in ts THEN ts2 ELSE @[t]],
                               !.tuAt = [t \in Towers |-> IF t \in ts THEN -1 ELSE @[t]],
                               !.sawUnr = [t \in Towers |-> IF t \in ts THEN FALSE ELSE @[t]]]

-----------------------------------------------------------------------------
(* One event: R(e) = [bel, tags, mon] before the common monitors           *)

Res(b, tg, m) == [bel |-> b, tags |-> tg, mon |-> m]

RepOf(e, k) == [cls |-> k, slots |-> e.slots, start |-> e.start, expiry |-> e.expiry, ts |-> e.ts]

TaskIds(s) == {n.id : n \in s.nots} \cup {g.id : g \in s.regs}

DropTask(s, id) == [s EXCEPT !.nots = {n \in @ : n.id # id}, !.regs = {g \in @ : g.id # id}]

\* why could nobody have sent this request?
\* requests nobody could have sent right after an answer of the tower that cannot be understood: the client spins on it
SpinTags(e) ==
    IF e.t \in Towers /\ mon.lastcls[e.t] \in {"garbage", "malsig"} THEN T("C14", "Survives.spins_on_an_answer") ELSE {}

ReqTags(C, e) ==
    IF C # {} /\ \A s \in C : HasProof(s.st.db, e.t) THEN T("C14", "BadSig.request_to_misbehaving_tower")
    ELSE IF C # {} /\ \A s \in C : s.rt[e.t].s = "running" /\ s.rt[e.t].pc \in {"wait", "regwait", "got", "reggot", "got2"}
         THEN T("C13", "OneLoop.second_request_in_flight")
    ELSE IF C # {} /\ \A s \in C : s.rt[e.t].s = "running" /\ s.rt[e.t].pc = "fail"
         THEN T("C13", "NoFlood.request_before_backoff")
    ELSE T("C13", "conf.unexpected_request")

ObsFail1(C, e, odb) ==
    \* which tables disagree with every compatible state?
    LET bad == {f \in DbFields : \A s \in C : s.st.db[f] # odb[f]}
        tg == IF bad = {} THEN T("C05", "conf.db")
              \* only the slot count of a tower differs: the data layer's business (C18)
              ELSE IF bad = {"towers"} /\ \E s \in C : {r.t : r \in s.st.db.towers} = {r.t : r \in odb.towers}
                   THEN T("C18", "conf.db.towers_row")
              ELSE UNION {T(IF f \in {"proofs", "regs", "towers"} THEN "C14" ELSE "C05", "conf.db." \o f) : f \in bad}
        F == {[s EXCEPT !.st.db = odb, !.st.mem = IF ~e.memok THEN @ ELSE ObsMem(e.mem)] : s \in C}
    IN [bel |-> F, tags |-> tg]

ObsFail2(C2, e, omem) ==
    LET tg == IF ~e.memok THEN T("C14", "Survives.listtowers_not_answered")
              ELSE IF \A s \in C2 : ~(s.alive /\ ~s.poisoned) THEN T("C14", "conf.mem.answered_unexpectedly")
              \* only the slot counts differ: what is reported is not what is stored - the data layer's business (C18)
              ELSE IF \E s \in C2 : NoSlots(s.st.mem) = NoSlots(omem) THEN T("C18", "conf.mem.slots")
              ELSE IF \E s \in C2 : Plain(s.st.mem) = Plain(omem) THEN T("C13", "conf.mem.status")
              ELSE T("C05", "conf.mem")
        F == {[s EXCEPT !.st.mem = IF ~e.memok THEN @ ELSE omem, !.poisoned = (~e.memok /\ s.alive)] : s \in C2}
    IN [bel |-> F, tags |-> tg]

ObsStep(C, e, tm) ==
    Let1(ObsDb(e.db), LAMBDA odb :
    Let1({s \in C : s.st.db = odb}, LAMBDA B1 :
      IF B1 = {} THEN ObsFail1(C, e, odb)
      ELSE Let1(Close({}, B1, tm), LAMBDA C2 :
           Let1(ObsMem(e.mem), LAMBDA omem :
           Let1({s \in C2 : IF ~e.memok THEN (~s.alive \/ s.poisoned) ELSE (s.alive /\ ~s.poisoned /\ s.st.mem = omem)}, LAMBDA B2 :
             IF B2 = {} THEN ObsFail2(C2, e, omem) ELSE [bel |-> B2, tags |-> {}])))))

\* timing obligations evaluated on an observation (m = monitor state after the bookkeeping of this event)
MemOf(e, t) == {x \in SetOf(e.mem) : x.t = t}
TimingTags(e, m) ==
    UNION {
      LET me == MemOf(e, t) IN
      \* C13 Delivered: t reachable and well-behaved, nothing disturbed for longer than the bound: all delivered
      (IF m.bad[t] = {} /\ m.downAt[t] < 0 /\ e.ts - m.since[t] > DeliverBound(m.cfg) /\ "Delivered" \notin m.flagged
          /\ \E x \in me : x.status # "misbehaving" /\ ~(x.status = "reachable" /\ x.pending = <<>>)
       THEN T("C13", "Delivered.not_within_bound") ELSE {})
      \cup
      \* C13 EndsUnreachable: t down and the client has data for it for longer than the bound: shown unreachable meanwhile
      (IF m.downAt[t] >= 0 /\ m.tuAt[t] >= 0 /\ e.ts - m.tuAt[t] > GiveUpBound(m.cfg) /\ ~m.sawUnr[t]
          /\ "EndsUnreachable" \notin m.flagged
       THEN T("C13", "EndsUnreachable.not_within_bound") ELSE {})
      \cup
      \* ... and not before the retry strategy can be exhausted (it backs off and tries again first)
      (IF m.downAt[t] >= 0 /\ m.tuAt[t] >= 0 /\ ~mon.sawUnr[t] /\ (\E x \in me : x.status = "unreachable")
          /\ e.ts - m.tuAt[t] < GiveUpMin(m.cfg) /\ "GaveUpEarly" \notin m.flagged
       THEN T("C13", "EndsUnreachable.gave_up_early") ELSE {})
      : t \in Towers}

ObsMon(e, m) ==
    [m EXCEPT !.tuAt = [t \in Towers |-> IF m.downAt[t] >= 0 /\ @[t] < 0
                                           /\ \E x \in MemOf(e, t) : x.status = "temporary_unreachable" /\ x.pending # <<>>
                                        THEN e.ts ELSE @[t]],
              !.sawUnr = [t \in Towers |-> @[t] \/ \E x \in MemOf(e, t) : x.status = "unreachable"]]

\* states in which the call e answers had already taken effect (with that answer) / has not yet
Early(C, e) == {[s EXCEPT !.rpc = @ \ {<<e.id, e.res>>}] : s \in {x \in C : <<e.id, e.res>> \in x.rpc}}
Late(C, e) == {x \in C : \A r \in x.rpc : r[1] # e.id}

R(e, C) ==
    CASE e.ev = "start" -> Res({}, {}, [Mon0 EXCEPT !.name = e.name])
      [] e.ev = "boot" ->
           Res(IF e.n = 1 THEN {InitClient} ELSE {Restart(s) : s \in bel}, {},
               Touch([mon EXCEPT !.cfg = e.cfg], Towers, e.ts))
      [] e.ev = "call" ->
           (CASE e.m = "notify" -> Res(UNION {NotifyCall(s, e.id, e.l) : s \in C}, {}, Touch(mon, Towers, e.ts))
              [] e.m = "registertower" -> Res(UNION {RegCall(s, e.id, e.t, e.port) : s \in C}, {}, Touch(mon, {e.t}, e.ts))
              \* retrytower / abandontower take effect at some moment between the call and its answer: possibly at once
              [] e.m \in {"retrytower", "abandontower"} ->
                   Res(C \cup {[p[1] EXCEPT !.rpc = @ \cup {<<e.id, p[2]>>}] :
                                 p \in UNION {IF e.m = "retrytower" THEN ManualRetry(s, e.t) ELSE Abandon(s, e.t) : s \in C}},
                       {}, Touch(mon, {e.t} \cap Towers, e.ts))
              [] OTHER -> Res(C, {}, Touch(mon, {e.t} \cap Towers, e.ts)))
      [] e.ev = "ret" /\ C # {} /\ \A s \in C : ~s.alive ->
           \* an answer given just before a SIGKILL may be read (and logged) by the rig after it
           Res(C, {}, mon)
      [] e.ev = "ret" ->
           (CASE e.m = "notify" ->
                   Let1(UNION {{NotifyRet(s, n) : n \in {x \in s.nots : x.id = e.id /\ NotifyCanRet(s, x)}} : s \in C}, LAMBDA B :
                      IF B # {} THEN Res(B, {}, Touch(mon, Towers, e.ts))
                      ELSE Res({DropTask(s, e.id) : s \in C}, T("C05", "conf.hook_answered_early"), mon))
              [] e.m = "registertower" ->
                   LET want == IF e.res = "ok" THEN "ok" ELSE "err" IN
                   Let1(UNION {{RegRet(s, g) : g \in {x \in s.regs : x.id = e.id /\ RegCanRet(s, x, want)}} : s \in C}, LAMBDA B :
                      IF B # {} THEN Res(B, {}, Touch(mon, {e.t}, e.ts))
                      ELSE Res({DropTask(s, e.id) : s \in C}, T("C14", "RegRecorded.answer_" \o want), mon))
              [] e.m = "retrytower" ->
                   Let1(Early(C, e) \cup {p[1] : p \in {q \in UNION {ManualRetry(s, e.t) : s \in Late(C, e)} : q[2] = e.res}}, LAMBDA B :
                      \* (an accepted retry starts over what a refused renewal had stopped: delivery is owed again)
                      IF B # {} THEN Res(B, {}, [Touch(mon, {e.t}, e.ts) EXCEPT !.bad[e.t] = IF e.res = "ok" THEN @ \ {"renew"} ELSE @])
                      ELSE Res(C, T("C13", "ManualRetryGate.answer_" \o e.res), mon))
              [] e.m = "abandontower" ->
                   Let1(Early(C, e) \cup {p[1] : p \in {q \in UNION {Abandon(s, e.t) : s \in Late(C, e)} : q[2] = e.res}}, LAMBDA B :
                      IF B # {} THEN Res(B, {}, Touch(mon, {e.t}, e.ts))
                      ELSE Res(C, T("C05", "conf.abandon_answer_" \o e.res), mon))
              [] OTHER -> Res(C, {}, mon))
      [] e.ev = "noret" ->
           \* no answer: the task is gone (it aborted), or the process is
           Let1(    IF e.m \in {"notify", "registertower"}
                    THEN {s \in C : e.id \notin TaskIds(s)}
                         \* (the rig stopped waiting while a tower was still holding the task's request: no verdict)
                         \cup (IF e.why = "timeout"
                               THEN {s \in C : \E n \in s.nots : n.id = e.id /\ n.pc = "wait"}
                                    \cup {s \in C : \E g \in s.regs : g.id = e.id /\ g.pc = "wait"}
                               ELSE {})
                    ELSE {s \in C : ~s.alive \/ s.poisoned}, LAMBDA B :
              IF B # {} THEN Res(B, {}, mon)
              ELSE Res({DropTask(s, e.id) : s \in C},
                       T(IF e.m = "notify" THEN "C05" ELSE "C14", "Survives.no_answer_to_" \o e.m), mon))
      [] e.ev = "req" /\ C # {} /\ \A s \in C : ~s.alive ->
           \* sent just before a SIGKILL, read (and logged) by the tower after it; the answer goes nowhere
           Res(C, {}, mon)
      [] e.ev = "req" ->
           Let1(UNION {SendSet(s, e.t, e.ep, e.l, e.seq, e.ts) : s \in C}, LAMBDA B :
              IF B # {} THEN Res(B, {}, mon) ELSE Res(C, ReqTags(C, e) \cup SpinTags(e), mon))
      [] e.ev = "rep" ->
           LET good == e.cls = <<"accept">> /\ (e.ep = "add" \/ \A s \in C : RegAccepted(s.st, e.t, e.slots, e.expiry))
               \* a renewal the tower answered with something the client cannot accept: no delivery is owed until a
               \* renewal succeeds ("once the subscription has been renewed")
               m1 == IF e.ep = "reg" THEN [mon EXCEPT !.bad[e.t] = IF good THEN @ \ {"renew"} ELSE @ \cup {"renew"}] ELSE mon
           IN Res(UNION {UNION {ReplySet(s, e.t, e.seq, RepOf(e, k)) : k \in SetOf(e.cls)} : s \in C}, {},
                  [(IF good THEN m1 ELSE Touch(m1, {e.t}, e.ts)) EXCEPT !.lastcls[e.t] = e.cls[1]])
      [] e.ev = "env" ->
           Res({SetUp(s, e.t, e.up) : s \in C}, {},
               [Touch(mon, {e.t}, e.ts) EXCEPT !.downAt[e.t] = IF e.up THEN -1 ELSE e.ts])
      [] e.ev = "mode" ->
           \* what the tower is set to answer from now on
           \* (cls = what it answers by default on endpoint ep, queued = one-off answers still queued for ep)
           Res(bel, {}, [Touch(mon, {e.t}, e.ts) EXCEPT !.bad[e.t] = (@ \ {e.ep, "q" \o e.ep})
                                                                       \cup (IF e.cls = <<"accept">> THEN {} ELSE {e.ep})
                                                                       \cup (IF e.queued > 0 THEN {"q" \o e.ep} ELSE {})])
      [] e.ev = "kill" -> Res({Kill(s) : s \in C}, {}, Touch(mon, Towers, e.ts))
      [] e.ev \in {"obs", "same"} ->
           \* "same": the state was read again and is what the last observation showed
           Let1(IF e.ev = "obs" THEN e ELSE [mon.lastObs EXCEPT !.ts = e.ts], LAMBDA eo :
           Let1(ObsStep(C, eo, TmOf(mon.cfg, e.ts, e.ts)), LAMBDA o :
           Let1([ObsMon(eo, mon) EXCEPT !.lastObs = [db |-> eo.db, mem |-> eo.mem, memok |-> eo.memok, ts |-> eo.ts]], LAMBDA m2 :
           Let1(TimingTags(eo, m2)
                \* C18 MemEqDisk, on the observation itself (rows and summaries are read consistently by the rig): what
                \* listtowers lists as pending / invalid for a tower is what is stored
                \cup (IF eo.memok /\ "MemEqDisk.sets" \notin mon.flagged
                         /\ \E x \in SetOf(eo.mem) :
                               \/ SetOf(x.pending) # {r.l : r \in {y \in SetOf(eo.db.pend) : y.t = x.t}}
                               \/ SetOf(x.invalid) # {r.l : r \in {y \in SetOf(eo.db.inv) : y.t = x.t}}
                      THEN T("C18", "MemEqDisk.pending_invalid_sets") ELSE {})
                \cup (IF eo.memok /\ "MemEqDisk.addr" \notin mon.flagged
                         /\ \E x \in SetOf(eo.mem) : \E r \in SetOf(eo.db.towers) : r.t = x.t /\ (r.addr # x.addr \/ r.slots # x.slots)
                      THEN T("C18", "MemEqDisk.address_or_slots") ELSE {})
                \* C14 RegRecorded, on the rows themselves: every stored registration receipt verifies under its tower id
                \cup (IF "RegRecorded" \notin mon.flagged /\ \E r \in SetOf(eo.db.regs) : ~r.ok
                      THEN T("C14", "RegRecorded.unverifiable_receipt_stored") ELSE {}), LAMBDA tt :
              Res(o.bel, o.tags \cup tt,
                  [m2 EXCEPT !.flagged = @ \cup {x[3] : x \in {y \in tt : y[3] = "Delivered.not_within_bound"}}
                                           \cup (IF \E y \in tt : y[3] = "Delivered.not_within_bound" THEN {"Delivered"} ELSE {})
                                           \cup (IF \E y \in tt : y[3] = "EndsUnreachable.not_within_bound" THEN {"EndsUnreachable"} ELSE {})
                                           \cup (IF \E y \in tt : y[3] = "RegRecorded.unverifiable_receipt_stored" THEN {"RegRecorded"} ELSE {})
                                           \cup (IF \E y \in tt : y[3] = "EndsUnreachable.gave_up_early" THEN {"GaveUpEarly"} ELSE {})
                                           \cup (IF \E y \in tt : y[3] = "MemEqDisk.pending_invalid_sets" THEN {"MemEqDisk.sets"} ELSE {})
                                           \cup (IF \E y \in tt : y[3] = "MemEqDisk.address_or_slots" THEN {"MemEqDisk.addr"} ELSE {})])))))
      [] e.ev = "probe" ->
           Let1({s \in C : e.answered = (s.alive /\ ~s.poisoned)}, LAMBDA B :
              IF B # {} THEN Res(B, {}, mon) ELSE Res(C, T("C14", "Survives.probe_not_answered"), mon))
      \* a panic of the code under test is data; "poisoned:" = lock().unwrap() on the mutex an earlier panic poisoned
      [] e.ev = "abort" -> Res(bel, T("ABORT", IF e.poison THEN "poisoned:" \o e.site ELSE e.site \o " " \o e.msg), mon)
      [] e.ev = "end" -> Res(bel, IF e.inconclusive # <<>> THEN T("INCONCLUSIVE", e.inconclusive[1]) ELSE {}, mon)
      [] OTHER -> Res(bel, {}, mon)

\* common part: deviations that became unavoidable, property monitors on the compatible states
Monitors == <<
    <<"C05", "NeverLost">>, <<"C05", "ExactlyOne">>, <<"C05", "DataForResend">>,
    <<"C13", "OneLoop">>, <<"C13", "EndsUnreachable">>,
    <<"C14", "BadSig">>, <<"C14", "Misbehaving">>, <<"C14", "Survives">>,
    \* what is reported is what is stored (C18, for the flows only the binary has): misbehaving <=> proof on disk
    <<"C18", "MemEqDisk.misbehaving">> >>

Holds(name, s) ==
    CASE name = "NeverLost" -> NeverLost(s) [] name = "ExactlyOne" -> ExactlyOne(s) [] name = "DataForResend" -> DataForResend(s)
      [] name = "OneLoop" -> OneLoop(s) [] name = "EndsUnreachable" -> EndsUnreachable(s)
      [] name = "BadSig" -> BadSig(s) [] name = "Misbehaving" -> Misbehaving(s) [] name = "Survives" -> Survives(s)
      [] name = "MemEqDisk.misbehaving" -> Misbehaving(s)

\* answers (their classes) a task of s has been sitting on since before now - PROC
StaleReps(s, now) ==
    IF ~s.alive \/ s.poisoned THEN {}
    ELSE {n.rep.cls : n \in {x \in s.nots : x.pc = "got" /\ now - x.rep.ts > PROC}}
         \cup {g.rep.cls : g \in {x \in s.regs : x.pc = "got" /\ now - x.rep.ts > PROC}}
         \cup {s.rt[t].rep.cls : t \in {x \in Towers : /\ s.rt[x].s = "running"
                                                        /\ s.rt[x].pc \in {"got", "reggot", "got2", "end_sub", "end_misb"}
                                                        /\ s.rt[x].rep.cls # "none" /\ now - s.rt[x].rep.ts > PROC}}

NeedsClosure(e) == e.ev \notin {"start", "boot", "mode", "abort", "end", "waited", "note", "skipped", "other_req"}

Step ==
    \E C \in {IF NeedsClosure(Ev) /\ ~mon.skip THEN Close({}, bel, TmOf(mon.cfg, mon.lastTs, Ev.ts)) ELSE bel} :
    \E r \in {IF mon.skip /\ Ev.ev # "start" THEN Res({}, {}, mon)
              ELSE IF Cardinality(C) > CAP THEN Res({}, T("VALIDATOR", "too many compatible states"), [mon EXCEPT !.skip = TRUE])
              ELSE R(Ev, C)} :
    \E B0 \in {r.bel} :
    \E stale \in {IF B0 # {} /\ "Stale" \notin r.mon.flagged /\ \A s \in B0 : StaleReps(s, Ev.ts) # {}
                  THEN UNION {StaleReps(s, Ev.ts) : s \in B0} ELSE {}} :
    \E B \in {IF stale # {} \/ "Stale" \in r.mon.flagged THEN B0 ELSE {s \in B0 : StaleReps(s, Ev.ts) = {}}} :
    \E newdev \in {IF B = {} THEN {} ELSE {d \in UNION {s.dev : s \in B} : \A s \in B : d \in s.dev} \ r.mon.devs} :
    \E viol \in {IF B = {} THEN {}
                 ELSE {i \in 1..Len(Monitors) : Monitors[i][2] \notin r.mon.flagged /\ \A s \in B : ~Holds(Monitors[i][2], s)}} :
       /\ bel' = B
       /\ tags' = tags \cup r.tags
                   \cup UNION {T(PropOfDev(d), "dev:" \o d) : d \in newdev \ {"S16"}}
                   \cup UNION {T(Monitors[i][1], Monitors[i][2]) : i \in viol}
                   \cup (IF stale \cap {"badsig", "malsig"} # {} THEN T("C14", "BadSig.answer_not_acted_upon") ELSE {})
                   \cup (IF stale \ {"badsig", "malsig"} # {} THEN T("C05", "conf.answer_not_acted_upon") ELSE {})
       /\ mon' = [r.mon EXCEPT !.devs = @ \cup newdev, !.lastTs = Ev.ts,
                               !.flagged = @ \cup {Monitors[i][2] : i \in viol} \cup (IF stale # {} THEN {"Stale"} ELSE {})]

StepEof ==
    /\ PrintT(<<"TRACE-END", ln, ToJson(tags)>>)
    /\ UNCHANGED <<bel, tags, mon>>

Next ==
    /\ ln <= Len(Rec)
    /\ ln' = ln + 1
    /\ IF Ev.ev = "eof" THEN StepEof ELSE Step

Spec == Init /\ [][Next]_vars
=============================================================================
