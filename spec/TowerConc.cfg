CONSTANTS
  Ops = {"add_trig", "block_complete"}
  OldOrder = FALSE
SPECIFICATION Spec
INVARIANT Sane
CHECK_DEADLOCK TRUE
