------------------------------- MODULE Config -------------------------------
(***************************************************************************)
(* C20 - how teosd arrives at its effective configuration.                 *)
(*                                                                         *)
(* Anchors: teos/src/config.rs (from_file, Config::patch_with_options,     *)
(* Config::verify, Config::default), teos/src/conf_template.toml, the      *)
(* start of teos/src/main.rs; teos/src/cli_config.rs and the start of      *)
(* teos/src/cli.rs for the admin tool teos-cli, which reads two settings   *)
(* from the same file and has a command line of its own.                   *)
(*                                                                         *)
(* A SOURCE (the configuration file, or the command line) is a function    *)
(* from the set of options it mentions to the values it gives them.  The   *)
(* module has two halves:                                                  *)
(*                                                                         *)
(*  1. the PROPERTY, declaratively: Effective, Settings, Accepts,          *)
(*     FinalPort.  These operators are the oracle every observation of     *)
(*     the real code is compared with (MC_Config prints them per           *)
(*     enumerated case, Trace_Config recomputes them per recorded event).  *)
(*                                                                         *)
(*  2. the start-up SEQUENCE as the programs perform it (defaults, overlay *)
(*     of the file, patch with the command line, verification), with the   *)
(*     representation choices of the code (port 0 = "not set", switches    *)
(*     or-ed, one-shot switches assigned).  TLC checks that the sequence   *)
(*     implements the property for every enumerated case (invariants at    *)
(*     the end), and that each named deviation of it does NOT              *)
(*     (anti-vacuity, thorough tier).                                      *)
(***************************************************************************)
EXTENDS Naturals, FiniteSets, Sequences

CONSTANT Deviations   \* {} = the intended design; see "Deviations" below

-----------------------------------------------------------------------------
(* Options.  File keys are the option names; CliName gives the documented  *)
(* command-line spelling (teosd -h, README, docker/entrypoint.sh).         *)

StrOpts      == {"api_bind", "rpc_bind", "btc_rpc_connect"}
PortOpts     == {"api_port", "rpc_port", "tor_control_port", "onion_hidden_service_port"}
PlainOpts    == StrOpts \cup PortOpts        \* value options, file and command line
FlagOpts     == {"tor_support", "debug", "deps_debug"}   \* switches: the command line can only switch on
OneShotOpts  == {"overwrite_key", "force_update"}        \* destructive one-shot switches
FileOnlyOpts == {"subscription_slots", "subscription_duration", "expiry_delta", "min_to_self_delay",
                 "polling_delta", "internal_api_bind", "internal_api_port"}
CredOpts     == {"btc_rpc_user", "btc_rpc_password", "btc_rpc_cookie"}
NetOpt       == "btc_network"
RpcPortOpt   == "btc_rpc_port"
GroupOpts    == CredOpts \cup {NetOpt, RpcPortOpt}      \* the options verification looks at

AllOpts == PlainOpts \cup FlagOpts \cup OneShotOpts \cup FileOnlyOpts \cup GroupOpts
CliOpts == AllOpts \ FileOnlyOpts
SettingOpts == AllOpts \ {RpcPortOpt}    \* everything but the bitcoind port, which has no fixed default

CliName == [api_bind |-> "apibind", api_port |-> "apiport", rpc_bind |-> "rpcbind", rpc_port |-> "rpcport",
            btc_network |-> "btcnetwork", btc_rpc_user |-> "btcrpcuser", btc_rpc_password |-> "btcrpcpassword",
            btc_rpc_cookie |-> "btcrpccookie", btc_rpc_connect |-> "btcrpcconnect", btc_rpc_port |-> "btcrpcport",
            debug |-> "debug", deps_debug |-> "depsdebug", overwrite_key |-> "overwritekey",
            tor_support |-> "torsupport", force_update |-> "forceupdate", tor_control_port |-> "torcontrolport",
            onion_hidden_service_port |-> "onionhiddenserviceport"]

\* kind of value each option takes (for the rigs: how to write it to TOML / the command line, how to draw one)
Kind(o) == IF o \in StrOpts \cup CredOpts \cup {NetOpt, "internal_api_bind"} THEN "str"
           ELSE IF o \in FlagOpts THEN "flag"
           ELSE IF o \in OneShotOpts THEN "oneshot"
           ELSE IF o \in {"subscription_slots", "subscription_duration", "expiry_delta", "internal_api_port"} THEN "u32"
           ELSE "u16"

-----------------------------------------------------------------------------
(* Documented defaults: transcribed from teos/src/conf_template.toml       *)
(* ("teosd comes with a default configuration ... following the            *)
(* template", README).  The template's credential entries are              *)
(* placeholders - the documentation says the tower refuses to run until    *)
(* the user sets them - so their documented default is "not configured",   *)
(* written "".  force_update is not in the template; it is a switch and    *)
(* switches default to off.  btc_rpc_port has no fixed default: it is the  *)
(* default port of the selected network (the template shows mainnet's).    *)
(* lib/c20.py cross-checks this table against the template of the tree     *)
(* under test, cfg_rig cross-checks Config::default() against it.          *)

NotConfigured == ""

DocDefault ==
    [api_bind |-> "127.0.0.1", api_port |-> 9814,
     tor_control_port |-> 9051, onion_hidden_service_port |-> 9814, tor_support |-> FALSE,
     rpc_bind |-> "127.0.0.1", rpc_port |-> 8814,
     btc_network |-> "mainnet",
     btc_rpc_user |-> NotConfigured, btc_rpc_password |-> NotConfigured, btc_rpc_cookie |-> NotConfigured,
     btc_rpc_connect |-> "localhost",
     debug |-> FALSE, deps_debug |-> FALSE, overwrite_key |-> FALSE, force_update |-> FALSE,
     subscription_slots |-> 10000, subscription_duration |-> 4320, expiry_delta |-> 6,
     min_to_self_delay |-> 20, polling_delta |-> 60,
     internal_api_bind |-> "127.0.0.1", internal_api_port |-> 50051]

KnownNetworks == {"mainnet", "testnet", "signet", "regtest"}
NetDefaultPort == [mainnet |-> 8332, testnet |-> 18332, signet |-> 38332, regtest |-> 18443]

\* After verification the code carries the network under the name bitcoind uses for it.  The property only
\* says which NETWORK is selected, so any of its names is admissible.
NetNames == [mainnet |-> {"mainnet", "main"}, testnet |-> {"testnet", "test"},
             signet |-> {"signet"}, regtest |-> {"regtest"}]

\* teos-cli (teos/src/cli_config.rs) reads teos.toml too and uses two of its settings: where the tower's RPC server
\* is.  Its documented defaults are those of `teos-cli -h` ("[default: localhost]", "[default: 8814]"), its options
\* are spelled like the daemon's, and a command (ToolCommand is one) follows them.
Programs == {"teosd", "teos-cli"}
ToolOpts == {"rpc_bind", "rpc_port"}
ToolDocDefault == [rpc_bind |-> "localhost", rpc_port |-> 8814]
ToolCommand == "gettowerinfo"

ReadOpts(p)    == IF p = "teosd" THEN AllOpts ELSE ToolOpts       \* what the program takes from the file
CliOptsOf(p)   == IF p = "teosd" THEN CliOpts ELSE ToolOpts       \* what its command line can say
SettingsOf(p)  == IF p = "teosd" THEN SettingOpts ELSE ToolOpts   \* the settings with a documented default
DocDefaultOf(p) == IF p = "teosd" THEN DocDefault ELSE ToolDocDefault

ASSUME DOMAIN DocDefault = SettingOpts
ASSUME DOMAIN ToolDocDefault = ToolOpts /\ ToolOpts \subseteq CliOpts
ASSUME DOMAIN CliName = CliOpts
ASSUME DOMAIN NetDefaultPort = KnownNetworks /\ DOMAIN NetNames = KnownNetworks

-----------------------------------------------------------------------------
(* 1. The property.                                                        *)

Has(src, o) == o \in DOMAIN src

\* A well-formed pair of sources for program p: the file (shared by both programs) may mention anything; the
\* command line only what p has an option for, and a switch can only be given (TRUE).  An explicit port 0 is an
\* unspecified corner (DESIGN.md C20).
WellFormed(p, file, cli) ==
    /\ p \in Programs
    /\ DOMAIN file \subseteq AllOpts
    /\ DOMAIN cli \subseteq CliOptsOf(p)
    /\ \A o \in DOMAIN cli \cap (FlagOpts \cup OneShotOpts) : cli[o] = TRUE
    /\ \A o \in DOMAIN file \cap (FlagOpts \cup OneShotOpts) : file[o] \in BOOLEAN
    /\ Has(file, RpcPortOpt) => file[RpcPortOpt] # 0
    /\ Has(cli, RpcPortOpt) => cli[RpcPortOpt] # 0

\* Command line over file over documented default; the destructive one-shot switches only from the command line.
EffectiveOf(p, file, cli, o) ==
    IF Has(cli, o) THEN cli[o]
    ELSE IF Has(file, o) /\ o \notin OneShotOpts THEN file[o]
    ELSE DocDefaultOf(p)[o]

SettingsFor(p, file, cli) == [o \in SettingsOf(p) |-> EffectiveOf(p, file, cli, o)]

\* the daemon's
Effective(file, cli, o) == EffectiveOf("teosd", file, cli, o)
Settings(file, cli) == SettingsFor("teosd", file, cli)

PortExplicit(file, cli) == Has(cli, RpcPortOpt) \/ Has(file, RpcPortOpt)
ExplicitPort(file, cli) == IF Has(cli, RpcPortOpt) THEN cli[RpcPortOpt] ELSE file[RpcPortOpt]

\* Exactly one authentication method: user AND password and no cookie, or the cookie and neither user nor
\* password ("only user+password OR cookie is allowed as rpc auth, any other combination would be rejected",
\* conf_template.toml).
Configured(v) == v # NotConfigured
UserPassAuth(s) == Configured(s.btc_rpc_user) /\ Configured(s.btc_rpc_password) /\ ~Configured(s.btc_rpc_cookie)
CookieAuth(s)   == ~Configured(s.btc_rpc_user) /\ ~Configured(s.btc_rpc_password) /\ Configured(s.btc_rpc_cookie)
AuthOk(s) == UserPassAuth(s) \/ CookieAuth(s)
NetOk(s)  == s.btc_network \in KnownNetworks

Accepts(file, cli) == LET s == Settings(file, cli) IN AuthOk(s) /\ NetOk(s)

\* why a configuration is refused (the code reports one of them; which one when both apply is not specified)
RefusalReasons(file, cli) ==
    LET s == Settings(file, cli)
    IN (IF AuthOk(s) THEN {} ELSE {"auth"}) \cup (IF NetOk(s) THEN {} ELSE {"network"})

\* only meaningful when the configuration is accepted
FinalPort(file, cli) ==
    IF PortExplicit(file, cli) THEN ExplicitPort(file, cli)
    ELSE NetDefaultPort[Effective(file, cli, NetOpt)]

\* Everything the conformance checks compare, for one program and one pair of sources.
Expect(p, file, cli) ==
    IF p # "teosd"
    THEN [settings |-> SettingsFor(p, file, cli), port_explicit |-> FALSE, port |-> 0, accept |-> TRUE, reasons |-> {},
          final_port |-> 0, final_network |-> {}]      \* teos-cli has no verification step
    ELSE
    [settings |-> Settings(file, cli),
     port_explicit |-> PortExplicit(file, cli),
     port |-> IF PortExplicit(file, cli) THEN ExplicitPort(file, cli) ELSE 0,   \* 0: not constrained before verify
     accept |-> Accepts(file, cli),
     reasons |-> RefusalReasons(file, cli),
     final_port |-> IF Accepts(file, cli) THEN FinalPort(file, cli) ELSE 0,
     final_network |-> IF Accepts(file, cli) THEN NetNames[Effective(file, cli, NetOpt)] ELSE {}]

-----------------------------------------------------------------------------
(* 2. The start-up sequence (main.rs: from_file, patch_with_options,       *)
(*    verify; cli.rs: from_file, patch_with_options), with the code's      *)
(*    representation.                                                      *)
(*                                                                         *)
(* Deviations: named wrong variants of a step, switched on through the     *)
(* constant; each must be caught by an invariant below.                    *)
(*   "oneshot_or"         one-shot switches are or-ed like plain switches, *)
(*                        so one set in the file survives                  *)
(*   "file_over_cli"      the file wins over the command line              *)
(*   "port_forced"        the network default replaces an explicit port    *)
(*   "auth_any"           any credential at all is accepted                *)
(*   "auth_partial"       cookie plus a stray user or password accepted    *)
(*   "net_any"            unknown networks run with mainnet's port         *)
(*   "verify_before_patch" verification sees the file only                 *)

VARIABLES prog,         \* which program starts
          file, cli,    \* the two sources (chosen initially, never changed)
          stage,        \* teosd: "start" -> "loaded" -> "patched" -> "running" | "refused"
                        \* teos-cli: "start" -> "loaded" -> "ready"
          conf          \* the configuration object as it evolves

cvars == <<prog, file, cli, stage, conf>>

PortUnset == 0
StartConf == [o \in AllOpts |-> IF o = RpcPortOpt THEN PortUnset ELSE DocDefault[o]]
StartConfOf(p) == IF p = "teosd" THEN StartConf ELSE ToolDocDefault

InitWith(p, f, c) ==
    /\ prog = p
    /\ file = f
    /\ cli = c
    /\ stage = "start"
    /\ conf = StartConfOf(p)

\* from_file: the defaults overlaid with whatever the file says about the options the program reads
LoadFile ==
    /\ stage = "start"
    /\ conf' = [o \in ReadOpts(prog) |-> IF Has(file, o) THEN file[o] ELSE conf[o]]
    /\ stage' = "loaded"
    /\ UNCHANGED <<prog, file, cli>>

PatchedValue(o) ==
    IF o \in OneShotOpts
    THEN IF "oneshot_or" \in Deviations THEN (conf[o] \/ Has(cli, o)) ELSE Has(cli, o)
    ELSE IF o \in FlagOpts THEN (conf[o] \/ Has(cli, o))
    ELSE IF Has(cli, o) /\ ~("file_over_cli" \in Deviations /\ Has(file, o)) THEN cli[o]
    ELSE conf[o]

Patch ==
    /\ stage = "loaded"
    /\ conf' = [o \in ReadOpts(prog) |-> PatchedValue(o)]
    /\ stage' = IF prog = "teosd" THEN "patched" ELSE "ready"
    /\ UNCHANGED <<prog, file, cli>>

CodeAuthOk(c) ==
    IF "auth_any" \in Deviations
    THEN \E o \in CredOpts : Configured(c[o])
    ELSE IF "auth_partial" \in Deviations
    THEN AuthOk(c) \/ (Configured(c.btc_rpc_cookie) /\ ~(Configured(c.btc_rpc_user) /\ Configured(c.btc_rpc_password)))
    ELSE AuthOk(c)

CodeNetPort(c) ==
    IF c.btc_network \in KnownNetworks THEN NetDefaultPort[c.btc_network] ELSE NetDefaultPort["mainnet"]

Verify ==
    /\ prog = "teosd"
    /\ stage = "patched"
    /\ LET c == IF "verify_before_patch" \in Deviations
                THEN [o \in AllOpts |-> IF Has(file, o) THEN file[o] ELSE StartConf[o]]
                ELSE conf
           ok == CodeAuthOk(c) /\ (c.btc_network \in KnownNetworks \/ "net_any" \in Deviations)
       IN IF ok
          THEN /\ stage' = "running"
               /\ conf' = [conf EXCEPT ![RpcPortOpt] =
                               IF @ = PortUnset \/ "port_forced" \in Deviations THEN CodeNetPort(conf) ELSE @]
          ELSE /\ stage' = "refused"
               /\ UNCHANGED conf
    /\ UNCHANGED <<prog, file, cli>>

Done == stage \in {"running", "refused", "ready"}

StartupNext == LoadFile \/ Patch \/ Verify

-----------------------------------------------------------------------------
(* Monitors: the property as a relation between the two sources and a      *)
(* configuration object cf of program p observed at stage st ("patched" /  *)
(* "ready": after the command line was applied; "running" / "refused":     *)
(* after the daemon's verification).                                       *)
(* The invariants below apply them to the specification's own variables;   *)
(* Trace_Config applies the same operators to what the real code did.      *)

AfterPatch == {"patched", "running", "refused", "ready"}

\* settings that are not the command-line value if given, else the file value, else the documented default
\* (a running daemon may carry the selected network under any of its names)
BadSettings(p, f, c, st, cf) ==
    IF st \notin AfterPatch THEN {}
    ELSE {o \in SettingsOf(p) :
            IF o = NetOpt /\ st = "running" /\ EffectiveOf(p, f, c, o) \in KnownNetworks
            THEN cf[o] \notin NetNames[EffectiveOf(p, f, c, o)]
            ELSE cf[o] # EffectiveOf(p, f, c, o)}

\* the daemon runs iff exactly one authentication method and a known network are configured
BadVerdict(f, c, st) ==
    (st = "running" /\ ~Accepts(f, c)) \/ (st = "refused" /\ Accepts(f, c))

\* an explicit port is kept; a running daemon without one uses the default port of its network
BadPort(f, c, st, cf) ==
    CASE st = "running" /\ Accepts(f, c) -> cf[RpcPortOpt] # FinalPort(f, c)
      [] st \in {"patched", "refused"} /\ PortExplicit(f, c) -> cf[RpcPortOpt] # ExplicitPort(f, c)
      [] OTHER -> FALSE

-----------------------------------------------------------------------------
(* The sequence implements the property (checked by TLC on every case).    *)

SettingsAreEffective == BadSettings(prog, file, cli, stage, conf) = {}

RefusalIsExact == ~BadVerdict(file, cli, stage)

PortFollowsNetwork == ~BadPort(file, cli, stage, conf)

\* the destructive switches act only when given on the command line (implied by SettingsAreEffective; stated
\* on its own because it is the clause that protects the tower key)
OneShotsOnlyFromCli ==
    (prog = "teosd" /\ stage \in AfterPatch) => \A o \in OneShotOpts : conf[o] = Has(cli, o)

\* what "safe to run" means, stated on the final configuration alone
RunningIsSafe ==
    stage = "running" =>
        /\ AuthOk(conf)
        /\ conf.btc_network \in KnownNetworks
        /\ conf[RpcPortOpt] # PortUnset
=============================================================================
