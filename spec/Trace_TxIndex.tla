---------------------------- MODULE Trace_TxIndex ----------------------------
(***************************************************************************)
(* Trace validator for C19: an implementation trace recorded by            *)
(* harness/txindex_rig (random connects / disconnects on the real          *)
(* TxIndex<Txid,BlockHash> and TxIndex<Locator,Transaction> at production  *)
(* sizes) is checked, event by event, against TxIndex.tla.                 *)
(* Every disagreement becomes a tag <<line, "C19", what>>; validation      *)
(* continues from the specification's state.  The final "end" event prints *)
(* the tag set, which the orchestrator classifies.                         *)
(***************************************************************************)
EXTENDS TxIndex, TLC, Json, IOUtils, SequencesExt

Rec == ndJsonDeserialize(IOEnv.TRACE)

VARIABLES idx, n, l, tags
vars == <<idx, n, l, tags>>

ToSetOf(s) == {s[i] : i \in 1..Len(s)}

Init == idx = <<>> /\ n = 0 /\ l = 1 /\ tags = {}

Ev == Rec[l]

\* Comparison of the logged observations with the reference index i2 of size nn.
ObsTags(e, i2, nn) ==
    LET o == e.obs
        nk == Len(o.get_txid)
        rows == ToSetOf(o.rows)   \* <<id, height by txid index, height by locator index, filler present (txid), (locator)>>
        getBad(g) == \E k \in 1..nk : g[k] # IdxGet(i2, k)
        htBad(c) == \E r \in rows : r[c] # IdxHeight(i2, r[1])
        htS1(c) == \A r \in rows : r[c] = IdxHeightS1(i2, r[1], nn)
        heldBad(c) == \E r \in rows : r[c] # (IdxHeight(i2, r[1]) # 0)
    IN  (IF getBad(o.get_txid) THEN {<<l, "C19", "get_txid">>} ELSE {})
        \cup (IF getBad(o.get_loc) THEN {<<l, "C19", "get_loc">>} ELSE {})
        \cup (IF htBad(2) THEN {<<l, "C19", IF htS1(2) THEN "get_height:S1" ELSE "get_height">>} ELSE {})
        \cup (IF htBad(3) THEN {<<l, "C19", IF htS1(3) THEN "get_height:S1" ELSE "get_height">>} ELSE {})
        \cup (IF heldBad(4) \/ heldBad(5) THEN {<<l, "C19", "held_blocks">>} ELSE {})
        \cup (IF \E k \in 1..nk : ~o.loc_txok[k] THEN {<<l, "C19", "value">>} ELSE {})
        \cup (IF o.nblocks_txid # Len(i2) \/ o.nblocks_loc # Len(i2) THEN {<<l, "C19", "window">>} ELSE {})

StepInit ==
    /\ Ev.ev = "init"
    /\ n' = Ev.n
    /\ idx' = [i \in 1..Ev.n |-> [id |-> i, h |-> Ev.h0 - Ev.n + i, keys |-> {}]]
    /\ UNCHANGED tags

StepConnect ==
    /\ Ev.ev = "connect"
    /\ LET b == [id |-> Ev.id, h |-> Ev.h, keys |-> ToSetOf(Ev.keys)]
           i2 == IdxUpdate(idx, b, n)
       IN /\ idx' = i2
          /\ tags' = tags \cup ObsTags(Ev, i2, n)
                     \cup (IF idx # <<>> /\ Ev.h # idx[Len(idx)].h + 1 THEN {<<l, "HARNESS", "height">>} ELSE {})
    /\ UNCHANGED n

StepDisconnect ==
    /\ Ev.ev = "disconnect"
    /\ LET i2 == IdxDisconnect(idx, Ev.id)
       IN /\ idx' = i2
          /\ tags' = tags \cup ObsTags(Ev, i2, n)
    /\ UNCHANGED n

StepEnd ==
    /\ Ev.ev = "end"
    /\ PrintT(<<"TRACE-END", l, ToJson(tags)>>)
    /\ UNCHANGED <<idx, n, tags>>

Next ==
    /\ l <= Len(Rec)
    /\ l' = l + 1
    /\ (StepInit \/ StepConnect \/ StepDisconnect \/ StepEnd)

Spec == Init /\ [][Next]_vars

\* all lines consumed (one state per line plus the initial state)
Accepted == TLCGet("stats").diameter = Len(Rec) + 1
=============================================================================
