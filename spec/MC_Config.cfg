CONSTANTS
  Deviations = {}
  Families = {"group", "plain", "switch", "fileonly", "portdef", "samevalue", "teoscli", "bin"}
  Contexts = {"bare", "full"}
  UnknownF = {"wrongnet"}
  UnknownC = {"liquid"}
  BinFull = FALSE
  Emit = FALSE
SPECIFICATION Spec
INVARIANTS CasesAreWellFormed SettingsAreEffective RefusalIsExact PortFollowsNetwork OneShotsOnlyFromCli RunningIsSafe EmitInv
CHECK_DEADLOCK FALSE
