CONSTANTS
  Towers = {"t1", "t2"}
  Locators = {"l1", "l2"}
  MaxOps = 3
  MaxRenew = 2
  Emit = FALSE
  DEVIATIONS = {}
SPECIFICATION Spec
INVARIANTS InvWellFormed InvMemEqDisk InvReloadFixpoint InvAbandonExact InvSharedBodies
CHECK_DEADLOCK FALSE
