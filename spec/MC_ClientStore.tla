---------------------------- MODULE MC_ClientStore ----------------------------
(***************************************************************************)
(* State machine around ClientStore.tla: every sequence of at most MaxOps  *)
(* store operations the plugin can perform (ClientStore!OpEnabled) over    *)
(* Towers x Locators, with a Reload (restart) possible after every prefix  *)
(* (reloads are not counted).                                              *)
(*  (i)  TLC checks the design-level statement of C18 on it                *)
(*       (DEVIATIONS = {}: the intended design must satisfy it);           *)
(*  (ii) with Emit = TRUE every transition is printed once as an EDGE line *)
(*       [from, op, to, dev] (JSON): the labelled state graph that         *)
(*       harness/store_rig walks on the real WTClient, comparing the real  *)
(*       memory / tables with `to` after every step.  With DEVIATIONS =    *)
(*       {"S16"} an abandon has two allowed successors (intended, and what *)
(*       the code is known to do); the rig reports which one it saw.       *)
(* The operation records carry, besides the arguments, the observations    *)
(* the specification expects of the call itself: res (allowed answers of   *)
(* register), stale (messages a restart sends to the retry manager).       *)
(***************************************************************************)
EXTENDS ClientStore, TLC, Json

CONSTANTS Towers, Locators,
          MaxOps,      \* operations per behaviour (reloads not counted)
          MaxRenew,    \* renewals per tower
          Emit         \* TRUE: print EDGE lines

VARIABLES st, depth
vars == <<st, depth>>

\* Every receipt of a tower carries a different expiry, start and address (a stale copy is visible), the starts, addresses
\* and slots of different towers differ (a row of the wrong tower is visible), and the expiries of different towers DO
\* collide after renewals (towers registered at the same height expire together: look-ups keyed by expiry alone are wrong).
TIdx(t) == IF t = "t1" THEN 1 ELSE IF t = "t2" THEN 2 ELSE 3
S0(t) == 1 + TIdx(t)                  \* slots of a first registration
E0(t) == TIdx(t)                      \* its expiry
StartOf(t, e) == 100 * TIdx(t) + e
PortOf(t, e)  == 9000 + 10 * TIdx(t) + e
Less1(n) == IF n > 0 THEN n - 1 ELSE 0

GhostLocator == CHOOSE l \in Locators : TRUE

Init == st = EmptyStore /\ depth = 0 /\ (Emit => PrintT(<<"INIT", ToJson(EmptyStore)>>))

\* one step: op is the label; the successors and the tag of a deviating one come from ClientStore.tla
Do(op) ==
    /\ depth < MaxOps
    /\ OpEnabled(st, op)
    /\ \E s2 \in OpSuccs(st, op) :
          /\ st' = s2
          /\ depth' = depth + 1
          /\ (Emit => PrintT(<<"EDGE", ToJson([from |-> st, op |-> op, to |-> s2,
                                               dev |-> IF s2 = OpIntended(st, op) THEN "" ELSE "S16"])>>))

RegOp(t, s, e) == [k |-> "register", t |-> t, port |-> PortOf(t, e), slots |-> s, start |-> StartOf(t, e), expiry |-> e]
WithRes(op) == [k |-> op.k, t |-> op.t, port |-> op.port, slots |-> op.slots, start |-> op.start, expiry |-> op.expiry,
                res |-> OpResults(st, op)]

Register ==
    \E t \in Towers :
       IF t \notin MemKnown(st)
       THEN Do(WithRes(RegOp(t, S0(t), E0(t))))
       ELSE \E ds \in {0, 1}, de \in {0, 1} :
              LET s == DbTower(st, t).slots + ds
                  e == Mem(st, t).expiry + de
              IN e <= E0(t) + MaxRenew /\ Do(WithRes(RegOp(t, s, e)))

SlotsAfter(t) == IF t \in DbKnown(st) THEN Less1(DbTower(st, t).slots) ELSE 0

Receipt == \E t \in Towers, l \in Locators : Do([k |-> "receipt", t |-> t, l |-> l, slots |-> SlotsAfter(t)])
Invalid == \E t \in Towers, l \in Locators : Do([k |-> "invalid", t |-> t, l |-> l])
Misbehaving == \E t \in Towers, l \in Locators : Do([k |-> "misbehaving", t |-> t, l |-> l])
Pending == \E t \in Towers, l \in Locators, why \in {"conn", "sub", "keep"} :
              Do([k |-> "pending", t |-> t, l |-> l, why |-> why])
P2A == \E t \in Towers, l \in Locators, d \in BOOLEAN :
          Do([k |-> "p2a", t |-> t, l |-> l, slots |-> SlotsAfter(t), done |-> d])
P2I == \E t \in Towers, l \in Locators, d \in BOOLEAN : Do([k |-> "p2i", t |-> t, l |-> l, done |-> d])
P2M == \E t \in Towers, l \in Locators : Do([k |-> "p2m", t |-> t, l |-> l])
GiveUp == \E t \in Towers : Do([k |-> "giveup", t |-> t])
Retry == \E t \in Towers : Do([k |-> "retry", t |-> t])
Abandon == \E t \in Towers : Do([k |-> "abandon", t |-> t])
\* answers for a tower that was abandoned while the request was in flight: nothing may change
Ghost == \E t \in Towers, c \in GhostCalls : Do([k |-> "ghost", t |-> t, l |-> GhostLocator, call |-> c])

\* restart; not counted in depth, so it is possible after every prefix, including the longest ones
DoReload ==
    /\ st' = Reload(st)
    /\ UNCHANGED depth
    /\ (Emit => PrintT(<<"EDGE", ToJson([from |-> st, op |-> [k |-> "reload", stale |-> StaleOnReload(st)],
                                          to |-> Reload(st), dev |-> ""])>>))

Next == Register \/ Receipt \/ Invalid \/ Misbehaving \/ Pending \/ P2A \/ P2I \/ P2M \/ GiveUp \/ Retry \/ Abandon
        \/ Ghost \/ DoReload

Spec == Init /\ [][Next]_vars

-----------------------------------------------------------------------------
InvWellFormed == WellFormed(st)
InvMemEqDisk == MemEqDisk(st)
InvReloadFixpoint == ReloadFixpoint(st)
InvAbandonExact == AbandonExact(st)
InvSharedBodies == SharedBodies(st)
=============================================================================
