----------------------------- MODULE MC_ClientGen -----------------------------
(***************************************************************************)
(* Specification -> implementation: MC_Client with a history h of the      *)
(* VISIBLE actions of a behaviour (what the user, the towers and SIGKILL   *)
(* do; the hidden steps are the client's own business).  Run with          *)
(* `tlc -simulate`: every behaviour that reaches MaxLen visible actions or *)
(* GenDepth steps is printed once as a BEHAVIOUR line (JSON);              *)
(* lib/clientlib.py turns each into a script for harness/client_rig (the   *)
(* fake towers hold every request, so the answers arrive in the order and  *)
(* with the class the specification chose) and Trace_Client.tla judges     *)
(* what the real binary did.                                               *)
(***************************************************************************)
EXTENDS MC_Client, Json

CONSTANTS MaxLen, GenDepth

VARIABLE h
gvars == <<c, b, h>>

GInit == Init /\ h = <<>>

A(r) == h' = Append(h, r)

\* the generator spends SIGKILL and manual retries only where something is going on
Busy == c.nots # {} \/ c.st.db.pend # {} \/ \E t \in Towers : c.rt[t].s # "absent"

\* the label of the step c -> c' (evaluated once c' and b' are known)
GNext ==
    /\ Len(h) < MaxLen
    /\ \/ \E l \in Locators : /\ c.alive /\ b.notif[l] < MaxNotify /\ Cardinality(c.nots) < MaxConc
                              /\ \A n \in c.nots : n.l # l
                              /\ c' \in NotifyCall(c, l, l) /\ b' = [b EXCEPT !.notif[l] = @ + 1]
                              /\ A([a |-> "notify", l |-> l])
       \/ \E n \in c.nots : NotifyCanRet(c, n) /\ c' = NotifyRet(c, n) /\ UNCHANGED b /\ A([a |-> "notify_ret", l |-> n.l])
       \/ \E t \in Towers : DoSendAt(t) /\ A([a |-> "send", t |-> t])
       \/ \E t \in Towers, k \in 1..4 :
             \E r \in (IF k \in {1, 3} THEN AddReplies(t) ELSE RegReplies(t)) :
                /\ (IsGood(t, k, r) \/ b.bad < MaxBad)
                /\ c' \in ReplySet(c, t, k, r) /\ c' # c
                /\ b' = IF IsGood(t, k, r) THEN b ELSE [b EXCEPT !.bad = @ + 1]
                /\ A([a |-> "reply", t |-> t, ep |-> IF k \in {1, 3} THEN "add" ELSE "reg", cls |-> r.cls,
                      ext |-> r.expiry > ExpNow(t)])
       \/ \E t \in Towers : /\ b.retry < MaxRetry /\ Busy /\ \E p \in ManualRetry(c, t) : c' = p[1]
                            /\ b' = [b EXCEPT !.retry = @ + 1] /\ A([a |-> "retry", t |-> t])
       \/ \E t \in Towers : c.up[t] /\ b.down < MaxDown /\ c' = SetUp(c, t, FALSE) /\ b' = [b EXCEPT !.down = @ + 1]
                            /\ A([a |-> "down", t |-> t])
       \/ \E t \in Towers : ~c.up[t] /\ c' = SetUp(c, t, TRUE) /\ UNCHANGED b /\ A([a |-> "up", t |-> t])
       \/ DoKill /\ Busy /\ A([a |-> "kill"])
       \/ DoRestart /\ A([a |-> "restart"])
       \/ DoHidden /\ UNCHANGED h

GSpec == GInit /\ [][GNext]_gvars

EmitInv == (Len(h) = MaxLen \/ TLCGet("level") = GenDepth) => PrintT(<<"BEHAVIOUR", ToJson(h)>>)
=============================================================================
