-------------------------- MODULE Trace_ClientStore --------------------------
(***************************************************************************)
(* Trace validator for C18 (implementation -> specification): an ndjson    *)
(* trace recorded by harness/store_rig (mode random: long random histories *)
(* of plugin-performable store calls on the real WTClient over an on-disk  *)
(* SQLite file, more towers and locators than the enumerated bounds) is    *)
(* checked, event by event, against ClientStore.tla.                       *)
(*   {"ev":"start","post":STORE}                                           *)
(*   {"ev":"op","op":OP,"res":R,"post":STORE,"load_towers":[SUMMARY],      *)
(*    "infos":[INFO],"raw":[..],"stale":[..],"same_key":B}                 *)
(*   {"ev":"end"}                                                          *)
(* STORE is the projection of the real state after the call (rows of every *)
(* table read through a second connection, summaries as listtowers prints  *)
(* them).  Every disagreement becomes a tag <<line, "C18", what>> (or      *)
(* <<line, "HARNESS", what>> when the rig made a call the plugin cannot    *)
(* make); validation continues from the LOGGED store.  The final "end"     *)
(* event prints the tags, which lib/c18.py classifies.                     *)
(***************************************************************************)
EXTENDS ClientStore, TLC, Json, IOUtils, Sequences

Rec == ndJsonDeserialize(IOEnv.TRACE)

VARIABLES st, ln, tags
vars == <<st, ln, tags>>

SetOf(s) == {s[i] : i \in 1..Len(s)}

MemRec(m) == [t |-> m.t, port |-> m.port, slots |-> m.slots, start |-> m.start, expiry |-> m.expiry,
              status |-> m.status, pending |-> SetOf(m.pending), invalid |-> SetOf(m.invalid)]

ToStore(j) ==
    [db |-> [towers |-> SetOf(j.db.towers), regs |-> SetOf(j.db.regs), rcpts |-> SetOf(j.db.rcpts),
             pend |-> SetOf(j.db.pend), inv |-> SetOf(j.db.inv), bodies |-> SetOf(j.db.bodies),
             proofs |-> SetOf(j.db.proofs)],
     mem |-> {MemRec(j.mem[i]) : i \in 1..Len(j.mem)}]

\* stores on which the operators of ClientStore.tla are defined (every CHOOSE has a witness)
Sane(s) == WellFormed(s) /\ MemKnown(s) = DbKnown(s)

Init == st = EmptyStore /\ ln = 1 /\ tags = {}

Ev == Rec[ln]

T(what) == {<<ln, "C18", what>>}
If(c, what) == IF c THEN T(what) ELSE {}

\* components in which the logged store differs from the one C18 requires
DiffTags(post, want) ==
    If(post.db.towers # want.db.towers, "db.towers") \cup If(RegsView(post.db) # RegsView(want.db), "db.regs")
    \cup If(post.db.rcpts # want.db.rcpts, "db.rcpts") \cup If(post.db.pend # want.db.pend, "db.pend")
    \cup If(post.db.inv # want.db.inv, "db.inv") \cup If(post.db.bodies # want.db.bodies, "db.bodies")
    \cup If(post.db.proofs # want.db.proofs, "db.proofs") \cup If(post.mem # want.mem, "mem")

\* the read paths of the store, judged against the logged store itself
InfoOk(post, i) ==
    LET want == TowerInfoFromDb(post.db, i.t)
        s == want.summary
    IN /\ i.port = s.port /\ i.slots = s.slots /\ i.start = s.start /\ i.expiry = s.expiry
       /\ SetOf(i.pending) = s.pending /\ SetOf(i.invalid) = s.invalid
       /\ i.derived = s.status                         \* the status the record carries is the derived one
       /\ i.status = Mem(post, i.t).status             \* gettowerinfo prints the one in memory
       /\ SetOf(i.rcpts) = {[l |-> r.l, ok |-> r.ok] : r \in want.rcpts}
       /\ SetOf(i.proof) = {p.l : p \in want.proof}

ViewTags(post) ==
    IF ~Sane(post) THEN T("malformed")
    ELSE If(~MemEqDisk(post), "MemEqDisk") \cup If(~ReloadFixpoint(post), "ReloadFixpoint")
         \cup If({MemRec(Ev.load_towers[i]) : i \in 1..Len(Ev.load_towers)} # Reload(post).mem, "view.load_towers")
         \cup If({Ev.infos[i].t : i \in 1..Len(Ev.infos)} # DbKnown(post) \/ Len(Ev.infos) # Cardinality(DbKnown(post)),
                 "view.tower_info.presence")
         \cup If(\E i \in 1..Len(Ev.infos) : Ev.infos[i].t \in DbKnown(post) /\ ~InfoOk(post, Ev.infos[i]),
                 "view.tower_info")
         \cup If(Ev.raw # <<>>, "raw")

StepStart ==
    /\ Ev.ev = "start"
    /\ st' = ToStore(Ev.post)
    /\ tags' = tags \cup If(ToStore(Ev.post) # EmptyStore, "initial store")

StepOp ==
    /\ Ev.ev = "op"
    /\ LET op == Ev.op
           post == ToStore(Ev.post)
       IN /\ st' = post
          /\ tags' = tags \cup
                (IF ~Sane(st) THEN T("malformed-pre")
                 ELSE IF ~OpEnabled(st, op) THEN {<<ln, "HARNESS", "operation not enabled: " \o op.k>>}
                 ELSE LET want == OpIntended(st, op)
                      IN (IF Norm(post) \in {Norm(x) : x \in OpSuccs(st, op)}
                          THEN If(Norm(post) # Norm(want), "S16")
                          ELSE DiffTags(post, want))
                         \cup If(OpResults(st, op) # {} /\ Ev.res \notin OpResults(st, op), "result")
                         \cup (IF op.k = "reload"
                               THEN If({[t |-> Ev.stale[i].t, pending |-> SetOf(Ev.stale[i].pending)] : i \in 1..Len(Ev.stale)}
                                       # StaleOnReload(st) \/ Len(Ev.stale) # Cardinality(StaleOnReload(st)), "reload.stale")
                                    \cup If(~Ev.same_key, "reload.client_key")
                               ELSE {}))
                \cup ViewTags(post)

StepEnd ==
    /\ Ev.ev = "end"
    /\ PrintT(<<"TRACE-END", ln, ToJson(tags)>>)
    /\ UNCHANGED <<st, tags>>

Next ==
    /\ ln <= Len(Rec)
    /\ ln' = ln + 1
    /\ (StepStart \/ StepOp \/ StepEnd)

Spec == Init /\ [][Next]_vars

\* all lines consumed (one state per line plus the initial state)
Accepted == TLCGet("stats").diameter = Len(Rec) + 1
=============================================================================
