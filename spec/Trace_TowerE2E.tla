--------------------------- MODULE Trace_TowerE2E ---------------------------
(***************************************************************************)
(* End-to-end tier (DESIGN.md section 4.1, harness/src/bin/teosd_rig.rs):  *)
(* traces recorded from the REAL teosd binary running against the          *)
(* simulated bitcoind served over HTTP JSON-RPC and driven through its     *)
(* public HTTP API.  The judge is Trace_Tower.tla unchanged (its Next is   *)
(* taken as it is: same monitors, same conformance against Tower.tla);     *)
(* this module only ADDS two obligations that matter when main.rs itself   *)
(* is under test and that need the whole-poll view of the Chain event:     *)
(*                                                                         *)
(*  (1) the transactions submitted to the node while the blocks of one     *)
(*      Chain event were processed are exactly the ones Tower.tla submits  *)
(*      when the listeners are called per block in the order gatekeeper,   *)
(*      watcher, responder (ChainSteps / ApplyChainStep of Trace_Tower):   *)
(*      a missing penalty is a C01 matter, a missing re-announcement /     *)
(*      rebroadcast a C04 matter, anything not expected a C02 matter       *)
(*      (e.g. the penalty of a user the same block purges: the durable     *)
(*      state ends up the same, only the node has been given it);          *)
(*  (2) BootF: the first bootstrap persists the block it starts from (the  *)
(*      logged last known block after a clean start is the last of the     *)
(*      boot blocks).                                                      *)
(*                                                                         *)
(* The extra tags are kept in their own variable and printed by the end    *)
(* event as TRACE-END-EXTRA (same format as TRACE-END).                    *)
(***************************************************************************)
EXTENDS Trace_Tower

VARIABLE etags

\* the submissions Tower.tla makes along the listener calls of one Chain event: [w |-> by the watcher, r |-> by the responder]
RECURSIVE ChainSendsR(_, _, _, _)
ChainSendsR(s, steps, i, orc) ==
    IF i > Len(steps) THEN [w |-> {}, r |-> {}]
    ELSE LET step == steps[i]
             rest == ChainSendsR(ApplyChainStep(s, step, orc), steps, i + 1, orc)
         IN CASE step[1] = "conn" /\ step[2] = "W" -> [rest EXCEPT !.w = @ \cup WConnectF(s, step[3], orc).sends]
              [] step[1] = "conn" /\ step[2] = "R" -> [rest EXCEPT !.r = @ \cup RConnectF(s, step[3], orc).sends]
              [] OTHER -> rest

ExtraChain ==
    IF Ev.act = "Chain" /\ Ev.abort = "" /\ "dead" \notin DOMAIN st
    THEN LET orc == OrcOf(Ev.rpc)
             exp == ChainSendsR(st, ChainSteps(Ev.chain), 1, orc)
             got == SendsOf(Ev.rpc)
         IN (IF exp.w \ got # {} THEN T("C01", "e2e.missing_submission") ELSE {})
            \cup (IF exp.r \ (got \cup exp.w) # {} THEN T("C04", "e2e.missing_submission") ELSE {})
            \cup (IF got \ (exp.w \cup exp.r) # {} THEN T("C02", "e2e.extra_submission") ELSE {})
    ELSE {}

ExtraBoot ==
    IF Ev.act = "Boot" /\ Ev.abort = "" /\ Len(Ev.blocks) > 0 /\ Ev.post.lastKnown # Ev.blocks[Len(Ev.blocks)].id
    THEN T("C03", "e2e.boot.start_not_persisted")
    ELSE {}

InitE == Init /\ etags = {}

NextE ==
    /\ Next
    /\ etags' = etags \cup ExtraChain \cup ExtraBoot
    /\ (Ev.act = "end" => PrintT(<<"TRACE-END-EXTRA", l, ToJson(etags)>>))

SpecE == InitE /\ [][NextE]_<<vars, etags>>
=============================================================================
