CONSTANTS
  CACHE_N = 6
  IDX_N = 100
  IRR = 100
  RETRY_N = 6
  SLOT_SIZE = 2048
  SUB_S = 10
  SUB_D = 50
  SUB_G = 5
  MAXU = 2147483647
  MAXTX = 609
SPECIFICATION SpecE
CHECK_DEADLOCK FALSE
