CONSTANTS
  N = 2
  Keys = {1, 2}
  MaxOps = 5
  H0 = 10
  Emit = TRUE
SPECIFICATION Spec
INVARIANTS Sound Complete S1OnlyWhenShort EmitInv
CHECK_DEADLOCK FALSE
