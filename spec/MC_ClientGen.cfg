CONSTANTS
  Towers = {"t1", "t2"}
  Locators = {"l1", "l2"}
  DEVIATIONS = {}
  MaxNotify = 2
  MaxConc = 2
  MaxKill = 1
  MaxBad = 3
  MaxDown = 2
  MaxRetry = 1
  MaxAbandon = 0
  MaxReg = 0
  AddKinds = {"sub_error", "reject", "garbage", "badsig", "malsig"}
  RegKinds = {"same", "badsig", "garbage"}
  MaxLen = 14
  GenDepth = 80
SPECIFICATION GSpec
INVARIANTS EmitInv
CHECK_DEADLOCK FALSE
