CONSTANTS
  Towers = {"t1", "t2"}
  Locators = {"l1", "l2"}
  MaxOps = 3
  MaxRenew = 2
  Emit = TRUE
  DEVIATIONS = {"S16"}
SPECIFICATION Spec
INVARIANTS InvWellFormed InvMemEqDisk InvReloadFixpoint
CHECK_DEADLOCK FALSE
