CONSTANTS
  Emit = FALSE
  Depth = 2
SPECIFICATION Spec
INVARIANTS CaseOK EmitInv
CHECK_DEADLOCK FALSE
