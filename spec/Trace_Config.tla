---------------------------- MODULE Trace_Config ----------------------------
(***************************************************************************)
(* Trace validator for C20 (implementation -> specification).              *)
(*                                                                         *)
(* harness/cfg_rig draws random pairs of sources (every option at random   *)
(* present / absent in the file and on the command line, random values of  *)
(* the right type - not the fixed values of MC_Config), runs the real      *)
(* from_file / Opt parsing / patch_with_options / verify on each and        *)
(* records one ndjson event per pair:                                      *)
(*   {"ev":"case","file":{..},"cli":{..},                                  *)
(*    "obs":{"patched":{..Config after patch_with_options..},              *)
(*           "verdict":"running"|"refused",                                *)
(*           "final":{..Config after verify..}}}                           *)
(* Every event is judged with the monitors of Config.tla - the operators   *)
(* TLC checks as invariants of the specification - applied to the observed *)
(* configuration objects.  The validator's own variables file, cli, stage, *)
(* conf are set to what was observed.  Disagreements become tags           *)
(* <<line, "C20", what>>; the final "end" event prints them.               *)
(***************************************************************************)
EXTENDS Config, TLC, Json, IOUtils

Rec == ndJsonDeserialize(IOEnv.TRACE)

VARIABLES l, tags
vars == <<file, cli, stage, conf, l, tags>>

Ev == Rec[l]

Init ==
    /\ InitWith([o \in {} |-> TRUE], [o \in {} |-> TRUE])
    /\ l = 1
    /\ tags = {}

ObsTags(f, c, o) ==
    LET st == o.verdict
    IN  {<<l, "C20", "patched:" \o x>> : x \in BadSettings(f, c, "patched", o.patched)}
        \cup (IF BadPort(f, c, "patched", o.patched) THEN {<<l, "C20", "patched:btc_rpc_port">>} ELSE {})
        \cup (IF BadVerdict(f, c, st)
              THEN {<<l, "C20", IF st = "running" THEN "accepted-unsafe" ELSE "refused-valid">>} ELSE {})
        \cup {<<l, "C20", "final:" \o x>> : x \in BadSettings(f, c, st, o.final)}
        \cup (IF BadPort(f, c, st, o.final) THEN {<<l, "C20", "final:btc_rpc_port">>} ELSE {})

StepCase ==
    /\ Ev.ev = "case"
    /\ IF WellFormed(Ev.file, Ev.cli) /\ Ev.obs.verdict \in {"running", "refused"}
            /\ AllOpts \subseteq DOMAIN Ev.obs.patched /\ AllOpts \subseteq DOMAIN Ev.obs.final
       THEN tags' = tags \cup ObsTags(Ev.file, Ev.cli, Ev.obs)
       ELSE tags' = tags \cup {<<l, "HARNESS", "malformed event">>}
    /\ file' = Ev.file
    /\ cli' = Ev.cli
    /\ stage' = Ev.obs.verdict
    /\ conf' = Ev.obs.final

\* an event the rig writes when the code under test panicked or the command line was not accepted
StepAbort ==
    /\ Ev.ev = "abort"
    /\ tags' = tags \cup {<<l, "C20", "abort:" \o Ev.what>>}
    /\ UNCHANGED <<file, cli, stage, conf>>

StepEnd ==
    /\ Ev.ev = "end"
    /\ PrintT(<<"TRACE-END", l, ToJson(tags)>>)
    /\ UNCHANGED <<file, cli, stage, conf, tags>>

Next ==
    /\ l <= Len(Rec)
    /\ l' = l + 1
    /\ (StepCase \/ StepAbort \/ StepEnd)

Spec == Init /\ [][Next]_vars

\* all lines consumed (one state per line plus the initial state)
Accepted == TLCGet("stats").diameter = Len(Rec) + 1
=============================================================================
