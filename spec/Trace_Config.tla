---------------------------- MODULE Trace_Config ----------------------------
(***************************************************************************)
(* Trace validator for C20 (implementation -> specification).              *)
(*                                                                         *)
(* harness/cfg_rig draws random pairs of sources (every option at random   *)
(* present / absent in the file and on the command line, random values of  *)
(* the right type - not the fixed values of MC_Config), runs the real      *)
(* from_file / Opt parsing / patch_with_options / verify on each and       *)
(* records one ndjson event per pair:                                      *)
(*   {"ev":"case","prog":"teosd"|"teos-cli","file":{..},"cli":{..},        *)
(*    "obs":{"patched":{..Config after patch_with_options..},              *)
(*           "verdict":"running"|"refused" (teos-cli: "ready"),            *)
(*           "final":{..Config after verify..}}}                           *)
(* Every event is judged with the monitors of Config.tla - the operators   *)
(* TLC checks as invariants of the specification - applied to the observed *)
(* configuration objects.  The validator's own variables file, cli, stage, *)
(* conf are set to what was observed.  Disagreements become tags           *)
(* <<line, "C20", what>>; the final "end" event prints them.               *)
(***************************************************************************)
EXTENDS Config, TLC, Json, IOUtils

Rec == ndJsonDeserialize(IOEnv.TRACE)

VARIABLES l, tags
vars == <<prog, file, cli, stage, conf, l, tags>>

Ev == Rec[l]

Init ==
    /\ InitWith("teosd", [o \in {} |-> TRUE], [o \in {} |-> TRUE])
    /\ l = 1
    /\ tags = {}

ObsTags(p, f, c, o) ==
    LET st == o.verdict
    IN  IF p = "teosd"
        THEN {<<l, "C20", "patched:" \o x>> : x \in BadSettings(p, f, c, "patched", o.patched)}
             \cup (IF BadPort(f, c, "patched", o.patched) THEN {<<l, "C20", "patched:btc_rpc_port">>} ELSE {})
             \cup (IF BadVerdict(f, c, st)
                   THEN {<<l, "C20", IF st = "running" THEN "accepted-unsafe" ELSE "refused-valid">>} ELSE {})
             \cup {<<l, "C20", "final:" \o x>> : x \in BadSettings(p, f, c, st, o.final)}
             \cup (IF BadPort(f, c, st, o.final) THEN {<<l, "C20", "final:btc_rpc_port">>} ELSE {})
        ELSE {<<l, "C20", "patched:" \o x>> : x \in BadSettings(p, f, c, "ready", o.patched)}

WellFormedEvent(e) ==
    /\ e.prog \in Programs
    /\ WellFormed(e.prog, e.file, e.cli)
    /\ e.obs.verdict \in (IF e.prog = "teosd" THEN {"running", "refused"} ELSE {"ready"})
    /\ ReadOpts(e.prog) \subseteq DOMAIN e.obs.patched
    /\ ReadOpts(e.prog) \subseteq DOMAIN e.obs.final

StepCase ==
    /\ Ev.ev = "case"
    /\ IF WellFormedEvent(Ev)
       THEN tags' = tags \cup ObsTags(Ev.prog, Ev.file, Ev.cli, Ev.obs)
       ELSE tags' = tags \cup {<<l, "HARNESS", "malformed event">>}
    /\ prog' = Ev.prog
    /\ file' = Ev.file
    /\ cli' = Ev.cli
    /\ stage' = Ev.obs.verdict
    /\ conf' = Ev.obs.final

\* an event the rig writes when the code under test panicked or the command line was not accepted
StepAbort ==
    /\ Ev.ev = "abort"
    /\ tags' = tags \cup {<<l, "C20", "abort:" \o Ev.what>>}
    /\ UNCHANGED <<prog, file, cli, stage, conf>>

StepEnd ==
    /\ Ev.ev = "end"
    /\ PrintT(<<"TRACE-END", l, ToJson(tags)>>)
    /\ UNCHANGED <<prog, file, cli, stage, conf, tags>>

Next ==
    /\ l <= Len(Rec)
    /\ l' = l + 1
    /\ (StepCase \/ StepAbort \/ StepEnd)

Spec == Init /\ [][Next]_vars

\* all lines consumed (one state per line plus the initial state)
Accepted == TLCGet("stats").diameter = Len(Rec) + 1
=============================================================================
