------------------------------ MODULE MC_TxIndex ------------------------------
(***************************************************************************)
(* State machine around TxIndex.tla used (i) to model-check the design     *)
(* level statement of C19 and (ii) to enumerate every connect / disconnect *)
(* behaviour up to MaxOps operations; each maximal behaviour is printed    *)
(* as one REPLAY line carrying the expected observations, and is replayed  *)
(* on the real TxIndex<Txid,BlockHash> and TxIndex<Locator,Transaction>.   *)
(***************************************************************************)
EXTENDS TxIndex, TLC, Json, SequencesExt

CONSTANTS N,        \* index size
          Keys,     \* key universe (naturals)
          MaxOps,   \* operations per behaviour
          H0,       \* height of the newest initial block
          Emit      \* TRUE: print REPLAY lines

VARIABLES idx,      \* the reference index
          chain,    \* the whole active chain given so far (ghost; to state C19 against the chain itself)
          nextId,
          hist      \* operations with expected observations (ghost)

vars == <<idx, chain, nextId, hist>>

\* every key, every id ever used
Obs(i) == [get |-> [k \in Keys |-> IdxGet(i, k)],
           hts |-> [id \in 1..(nextId - 1) |-> IdxHeight(i, id)]]
ObsNext(i, nid) == [get |-> [k \in Keys |-> IdxGet(i, k)],
                    hts |-> [id \in 1..(nid - 1) |-> IdxHeight(i, id)]]

InitBlocks == [i \in 1..N |-> [id |-> i, h |-> H0 - N + i, keys |-> {}]]

Init ==
    /\ idx = InitBlocks
    /\ chain = InitBlocks
    /\ nextId = N + 1
    /\ hist = <<>>

TipH == IF chain = <<>> THEN H0 - N ELSE chain[Len(chain)].h

\* keys confirmed somewhere on the active chain cannot be confirmed again
ChainKeys == UNION {chain[i].keys : i \in 1..Len(chain)}

Connect(ks) ==
    /\ Len(hist) < MaxOps
    /\ ks \cap ChainKeys = {}
    /\ LET b == [id |-> nextId, h |-> TipH + 1, keys |-> ks]
           i2 == IdxUpdate(idx, b, N)
       IN /\ idx' = i2
          /\ chain' = Append(chain, b)
          /\ nextId' = nextId + 1
          /\ hist' = Append(hist, [op |-> "connect", id |-> b.id, h |-> b.h, keys |-> ks,
                                   obs |-> ObsNext(i2, nextId + 1)])

\* Reorgs are at most as deep as the window (C04/C19 quantify over depths up to the
\* index size): the tip is disconnected only while the index still holds it.
Disconnect ==
    /\ Len(hist) < MaxOps
    /\ chain # <<>>
    /\ idx # <<>>
    /\ LET b == chain[Len(chain)]
           i2 == IdxDisconnect(idx, b.id)
       IN /\ idx' = i2
          /\ chain' = SubSeq(chain, 1, Len(chain) - 1)
          /\ UNCHANGED nextId
          /\ hist' = Append(hist, [op |-> "disconnect", id |-> b.id, h |-> b.h, keys |-> b.keys,
                                   obs |-> Obs(i2)])

Next == (\E ks \in SUBSET Keys : Connect(ks)) \/ Disconnect

Spec == Init /\ [][Next]_vars

-----------------------------------------------------------------------------
(* C19 at the design level, stated against the active chain itself.        *)

LastN(s, n) == IF Len(s) <= n THEN s ELSE SubSeq(s, Len(s) - n + 1, Len(s))

\* Soundness: every held block is one of the last N blocks of the active chain,
\* with its true height; nothing disconnected or aged out is returned.
Sound ==
    /\ IdxWF(idx, N)
    /\ \A i \in 1..Len(idx) : \E j \in 1..Len(LastN(chain, N)) : LastN(chain, N)[j] = idx[i]
    /\ \A k \in Keys : IdxGet(idx, k) # NoBlock =>
          \E j \in 1..Len(LastN(chain, N)) :
             /\ k \in LastN(chain, N)[j].keys
             /\ LastN(chain, N)[j].id = IdxGet(idx, k)
             /\ IdxHeight(idx, IdxGet(idx, k)) = LastN(chain, N)[j].h

\* Completeness: the index is a suffix of the chain, and it is the whole
\* LastN(chain, N) whenever at least N blocks were connected since the deepest
\* disconnect (i.e. unless blocks the index was never given would be needed).
Complete ==
    /\ IsSuffix(idx, chain)
    /\ (Len(idx) < N /\ Len(chain) >= N) => \E i \in 1..Len(hist) : hist[i].op = "disconnect"

\* Deviation S1 is visible at this level: heights differ exactly while the
\* index is short.
S1Differs == \E id \in IdxIds(idx) : IdxHeightS1(idx, id, N) # IdxHeight(idx, id)
S1OnlyWhenShort == S1Differs <=> (Len(idx) < N /\ idx # <<>>)

\* Emission of maximal behaviours for replay (one line each).
EmitInv == (Emit /\ Len(hist) = MaxOps) => PrintT(<<"REPLAY", ToJson([n |-> N, h0 |-> H0, ops |-> hist])>>)
=============================================================================
