------------------------------ MODULE TowerProps ------------------------------
(***************************************************************************)
(* Property monitors for the tower properties C01, C02, C04, C06, C07,     *)
(* C08, C09, written as relations over (pre-state, event, post-state,      *)
(* ghost history).  They are deliberately independent of the action        *)
(* operators of Tower.tla: MC_Tower checks that the specified design       *)
(* satisfies them in every reachable step, Trace_Tower evaluates them on   *)
(* every step the real code was observed to take.  Each monitor returns a  *)
(* set of tags "Cxx.clause"; the empty set means the step is fine.         *)
(*                                                                         *)
(* Event record E (normalised by the caller):                              *)
(*   act    "Register"|"Add"|"Get"|"Sub"|"GkConnect"|"WConnect"|"RConnect" *)
(*          |"GkDisc"|"WDisc"|"RDisc"|"PollEnd"|"Boot"                     *)
(*   who    user the signature recovers to (NoUser if none) / registrant   *)
(*   a      [l, blob, tsd, ver] for Add; l for Get                         *)
(*   blk    [id, h, keys] for block events                                 *)
(*   orc    node verdict per transaction, sends = set of txs submitted     *)
(*   reply  record with field code                                         *)
(* Ghost record g:                                                         *)
(*   seen     transactions in blocks the tower was given                   *)
(*   nodeHas  transactions the node acknowledged having (ok/mem/res/seen)  *)
(*   chain    the active chain as given to the tower: set of [id,h,keys]   *)
(*   lastAcc  set of [k,key,pay,size,tsd]: last accepted version per (u,l) *)
(*   fresh    transactions the node gave a verdict about since the last    *)
(*            block was completely processed                               *)
(***************************************************************************)
EXTENDS Tower

SlotsOf(S, u) == IF HasUser(S, u) THEN UserOf(S, u).slots ELSE -1
Keys(S) == {Key(r) : r \in S}
Others(S, u) == {r \in S : r.u # u}

Tag(c, p, w) == IF c THEN {} ELSE {<<p, w>>}

\* Durable and user-visible volatile state equal (used for "changes nothing")
SameState(p, q) ==
    /\ p.users = q.users /\ p.gk = q.gk /\ p.appts = q.appts /\ p.trackers = q.trackers

\* g.chain: set of block records [id, h, keys], at most one per height
OnActive(g, tx, h) == \E b \in g.chain : b.h = h /\ tx \in b.keys
HeightKnown(g, h) == \E b \in g.chain : b.h = h

-----------------------------------------------------------------------------
(* C01 - every breach of an accepted appointment is answered              *)

\* what the tower learns about penalty p in this step: the index, then the mempool, then the memoised or fresh verdict.
\* A memoised verdict counts only if the node gave it since the last block was completely processed (g.fresh): the tower
\* may remember the node's answers while it works on a block, it must not answer a later breach from an old one.
NodeSaid(pre, E, p, g) ==
    IF IdxHas(pre.rIndex, p) \/ E.orc[p] = "mem" THEN "have"
    ELSE IF MemoHas(pre.memo, p) /\ p \in g.fresh THEN MemoOf(pre.memo, p).v
    ELSE E.orc[p]
Known(pre, E, p, g) == NodeSaid(pre, E, p, g) \in {"have", "ok", "rej", "res"}
Taken(pre, E, p, g) == NodeSaid(pre, E, p, g) \in {"have", "ok"}
Refused(pre, E, p, g) == NodeSaid(pre, E, p, g) = "rej"

C01_OneBreach(pre, E, post, a, g) ==
    LET p == Decrypt(BlobOf(a), a.l)
        k == Key(a)
    IN IF p = NoTx
       THEN Tag(~HasKey(post.appts, k), "C01", "invalid_kept")
       ELSE Tag(Known(pre, E, p, g), "C01", "not_submitted")
            \cup (IF Taken(pre, E, p, g) /\ ~HasKey(pre.trackers, k)
                  THEN Tag(\E t \in post.trackers : Key(t) = k /\ t.d = a.l /\ t.p = p, "C01", "not_responded")
                  ELSE {})
            \cup (IF Refused(pre, E, p, g) THEN Tag(~HasKey(post.appts, k), "C01", "rejected_kept") ELSE {})

C01_WConnect(pre, E, post, g) ==
    LET breached == {a \in pre.appts : a.l \in E.blk.keys}
    IN (UNION {C01_OneBreach(pre, E, post, a, g) : a \in breached})
       \cup Tag(\A a \in pre.appts : a.l \notin E.blk.keys => a \in post.appts, "C01", "wrong_drop")
       \cup Tag(\A t \in pre.trackers : t.l \notin E.blk.keys => t \in post.trackers, "C01", "wrong_drop")
       \cup Tag(Keys(post.appts) \subseteq Keys(pre.appts), "C01", "appt_created")
       \cup Tag(\A t \in post.trackers : t \in pre.trackers \/ (\E a \in breached : Key(a) = Key(t) /\ t.d = a.l /\ t.p = Decrypt(BlobOf(a), a.l)),
                "C02", "unjustified_tracker")

\* Add accepted (reply ok) for an appointment whose dispute is in the cache: answered before replying
C01_Add(pre, E, post, g) ==
    IF E.reply.code # "ok" THEN {}
    ELSE LET a == E.a
             row == [u |-> E.who, l |-> a.l, key |-> a.blob.key, pay |-> a.blob.pay, size |-> a.blob.size,
                     tsd |-> a.tsd, ver |-> a.ver, start |-> E.reply.start]
             k == <<E.who, a.l>>
         IN IF IdxHas(pre.wCache, a.l)
            THEN LET p == Decrypt(a.blob, a.l)
                 IN IF p = NoTx THEN {}   \* dropped or (when it was an update) the old version kept: nothing to answer
                    ELSE Tag(Known(pre, E, p, g), "C01", "not_submitted")
                         \cup (IF Taken(pre, E, p, g)
                               THEN Tag(\E t \in post.trackers : Key(t) = k /\ t.d = a.l /\ t.p = p, "C01", "not_responded")
                               ELSE {})
                         \cup (IF Refused(pre, E, p, g) THEN Tag(~HasKey(post.appts, k), "C01", "rejected_kept") ELSE {})
            ELSE \* not triggered: the submitted version is what is held from now on
                 Tag(row \in post.appts, "C08", "not_stored")
                 \cup Tag(~HasKey(post.trackers, k), "C02", "unjustified_tracker")

\* get_appointment reports dispute_responded with exactly the tracker's penalty and dispute
C01_Get(pre, E) ==
    IF E.reply.code # "ok" THEN {}
    ELSE LET k == <<E.who, E.l>>
         IN IF HasKey(pre.trackers, k)
            THEN Tag(E.reply.status = "responded" /\ E.reply.d = RowOf(pre.trackers, k).d /\ E.reply.p = RowOf(pre.trackers, k).p,
                     "C01", "status")
            ELSE Tag(E.reply.status = "watched", "C02", "status")

-----------------------------------------------------------------------------
(* C02 - the tower broadcasts only what an observed breach justifies       *)

C02_Sends(pre, E, post, g) ==
    LET seen2 == g.seen \cup (IF E.act \in {"WConnect", "RConnect"} THEN E.blk.keys ELSE {})
        cand == pre.appts \cup (IF E.act = "Add" /\ E.reply.code = "ok"
                                THEN {[u |-> E.who, l |-> E.a.l, key |-> E.a.blob.key, pay |-> E.a.blob.pay]} ELSE {})
        penaltyOf == {Decrypt([key |-> a.key, pay |-> a.pay], a.l) : a \in {x \in cand : x.l \in seen2 /\ HasUser(pre.gk, x.u)}} \ {NoTx}
        tracked == {t.p : t \in pre.trackers}
        reann == IF E.act = "RConnect" THEN {t.d : t \in {x \in pre.trackers : Key(x) \in pre.reorged}} ELSE {}
    IN Tag(\A tx \in E.sends : tx \in penaltyOf \cup tracked \cup reann, "C02", "unjustified_send")

\* a new tracker is recorded only for a penalty the node has been given or already had
C02_Status(pre, E, post, g2) ==
    Tag(\A t \in post.trackers : (\E s \in pre.trackers : Key(s) = Key(t)) \/ t.p \in g2.nodeHas, "C02", "responded_without_node")

-----------------------------------------------------------------------------
(* C04 - responses follow the active chain until IRR confirmations         *)

C04_RConnect(pre, E, post, g) ==
    LET h == E.blk.h
        inblk(t) == t.p \in E.blk.keys
        asked(tx) == tx \in E.sends \/ (MemoHas(pre.memo, tx) /\ tx \in g.fresh)
        vOf(tx) == IF MemoHas(pre.memo, tx) /\ tx \in g.fresh THEN MemoOf(pre.memo, tx).v ELSE E.orc[tx]
        removed == {t \in pre.trackers : ~HasKey(post.trackers, Key(t))}
        \* buried IRR deep on the active chain (g.chain already contains this block)
        deep(t) == t.conf /\ ~inblk(t) /\ Key(t) \notin pre.reorged /\ h = t.h + IRR /\ OnActive(g, t.p, t.h)
        rejd(t) == (asked(t.p) /\ vOf(t.p) = "rej") \/ (Key(t) \in pre.reorged /\ asked(t.d) /\ vOf(t.d) = "rej")
        refund(u) == SumCost({a \in pre.appts : a.u = u /\ \E t \in removed : Key(t) = Key(a) /\ deep(t)})
    IN  \* first confirmation is recorded in this block
        Tag(\A t \in pre.trackers : inblk(t) => \E s \in post.trackers : Key(s) = Key(t) /\ s.conf /\ s.h = h, "C04", "confirm")
        \* the block that confirmed it was disconnected: dispute and penalty are re-submitted
        \cup Tag(\A t \in pre.trackers : (Key(t) \in pre.reorged /\ ~inblk(t)) =>
                     (asked(t.d) /\ (vOf(t.d) \in {"ok", "res"} => asked(t.p))), "C04", "no_reannounce")
        \cup Tag(\A t \in pre.trackers : (Key(t) \in pre.reorged /\ ~inblk(t) /\ HasKey(post.trackers, Key(t))) =>
                     ~RowOf(post.trackers, Key(t)).conf, "C04", "stale_confirmation")
        \* unconfirmed for RETRY_N blocks since the last submission: re-submitted now
        \cup Tag(\A t \in pre.trackers : (~t.conf /\ ~inblk(t) /\ h >= RETRY_N /\ t.h <= h - RETRY_N) => asked(t.p), "C04", "no_rebroadcast")
        \* forgotten and refunded when, and only when, buried IRR deep; dropped without refund when rejected
        \cup Tag(\A t \in pre.trackers : deep(t) => t \in removed, "C04", "not_completed")
        \cup Tag(\A t \in removed : deep(t) \/ rejd(t), "C04", "bad_removal")
        \cup Tag(\A t \in removed : ~HasKey(post.appts, Key(t)), "C04", "appointment_left")
        \cup Tag(\A r \in pre.users : SlotsOf(post.users, r.u) = r.slots + refund(r.u), "C07", "refund")
        \* nothing else is touched
        \cup Tag(\A a \in pre.appts : HasKey(post.appts, Key(a)) \/ (\E t \in removed : Key(t) = Key(a)), "C04", "wrong_drop")

\* after a completed chain update every confirmed tracker points into the active chain
C04_Synced(post, g) ==
    Tag(\A t \in post.trackers : t.conf => (~HeightKnown(g, t.h) \/ OnActive(g, t.p, t.h)), "C04", "confirmed_off_chain")

-----------------------------------------------------------------------------
(* C06 - authentication and isolation                                      *)

C06_Request(pre, E, post) ==
    LET bad == E.who = NoUser \/ ~HasUser(pre.gk, E.who)
    IN IF ~pre.reachable THEN {}
       ELSE (IF bad THEN Tag(E.reply.code = "auth", "C06", "accepted_unauthenticated") \cup Tag(SameState(pre, post), "C06", "effect_unauthenticated")
             ELSE IF pre.gkH >= UserOf(pre.gk, E.who).expiry
             THEN Tag(E.reply.code = "expired" /\ E.reply.expiry = UserOf(pre.gk, E.who).expiry, "C09", "expired_not_refused")
                  \cup Tag(SameState(pre, post), "C09", "effect_expired")
             ELSE Tag(E.reply.code \notin {"expired"}, "C09", "refused_before_expiry"))
            \* isolation: nobody else's rows move
            \cup (IF E.who # NoUser
                  THEN Tag(Others(pre.users, E.who) = Others(post.users, E.who) /\ Others(pre.gk, E.who) = Others(post.gk, E.who)
                           /\ Others(pre.appts, E.who) = Others(post.appts, E.who)
                           /\ Others(pre.trackers, E.who) = Others(post.trackers, E.who), "C06", "isolation")
                  ELSE {})

\* users holding the same locator hold independent appointments: when its dispute is confirmed every one of them is
\* answered from its OWN blob (own penalty, own decryption failure, own verdict of the node)
C06_WConnect(pre, E, post, g) ==
    LET shared == {a \in pre.appts : a.l \in E.blk.keys /\ \E b \in pre.appts : b.l = a.l /\ b.u # a.u}
    IN Tag(\A a \in shared : C01_OneBreach(pre, E, post, a, g) = {}, "C06", "shared_locator")
       \cup Tag(\A t \in post.trackers \ pre.trackers : (\E a \in shared : a.l = t.l) =>
                    (\E a \in shared : Key(a) = Key(t) /\ t.d = a.l /\ t.p = Decrypt(BlobOf(a), a.l)), "C06", "shared_locator")

C06_Sub(pre, E) ==
    IF E.reply.code # "ok" THEN {}
    ELSE Tag(E.reply.locators = {a.l : a \in {x \in pre.appts : x.u = E.who}}, "C06", "listing")
         \cup Tag(E.reply.slots = SlotsOf(pre.gk, E.who) /\ E.reply.expiry = UserOf(pre.gk, E.who).expiry, "C07", "reported")

-----------------------------------------------------------------------------
(* C07 - slot accounting                                                   *)

C07_Add(pre, E, post) ==
    LET u == E.who
    IN IF E.reply.code # "ok"
       THEN Tag(pre.users = post.users /\ pre.gk = post.gk, "C07", "charged_on_refusal")
       ELSE LET k == <<u, E.a.l>>
                old == IF HasKey(pre.appts, k) THEN Cost(RowOf(pre.appts, k).size) ELSE 0
                diff == Cost(E.a.blob.size) - old
            IN Tag(SlotsOf(post.users, u) = SlotsOf(pre.users, u) - diff, "C07", "charge")
               \cup Tag(SlotsOf(post.users, u) >= 0 /\ diff <= SlotsOf(pre.users, u), "C07", "negative")
               \cup Tag(E.reply.slots = SlotsOf(post.users, u), "C07", "reported")

C07_Register(pre, E, post) ==
    IF E.reply.code # "ok" THEN Tag(pre.users = post.users /\ pre.gk = post.gk, "C07", "maxslots_changed")
    ELSE Tag(SlotsOf(post.users, E.who) = (IF HasUser(pre.users, E.who) THEN SlotsOf(pre.users, E.who) ELSE 0) + SUB_S, "C07", "grant")
         \cup Tag(E.reply.slots = SlotsOf(post.users, E.who), "C07", "reported")

\* steps that must not move any balance
C07_Frozen(pre, post) == Tag(\A r \in post.users : HasUser(pre.users, r.u) => r.slots = SlotsOf(pre.users, r.u), "C07", "balance_moved")

C07_Copies(post) == Tag(post.gk = post.users, "C07", "copies_differ")

-----------------------------------------------------------------------------
(* C08 - receipts                                                          *)

C08_Register(pre, E, post) ==
    IF E.reply.code # "ok" THEN {}
    ELSE Tag(E.reply.sig_ok, "C08", "signature")
         \cup Tag(HasUser(post.users, E.who) /\ UserOf(post.users, E.who) =
                    [u |-> E.who, slots |-> E.reply.slots, start |-> E.reply.start, expiry |-> E.reply.expiry], "C08", "not_persisted")
         \* ... and the values it works with from now on (the copy the next request is checked against and persisted from)
         \cup Tag(HasUser(post.gk, E.who) /\ UserOf(post.gk, E.who) =
                    [u |-> E.who, slots |-> E.reply.slots, start |-> E.reply.start, expiry |-> E.reply.expiry], "C08", "not_held")

C08_Add(pre, E, post, g) ==
    IF E.reply.code # "ok" THEN {}
    ELSE LET k == <<E.who, E.a.l>>
             inCache == IdxHas(pre.wCache, E.a.l)
             p == Decrypt(E.a.blob, E.a.l)
         IN Tag(E.reply.sig_ok, "C08", "signature")
            \* a receipt for an appointment whose dispute was already confirmed: dropped only because the blob does not decrypt
            \* or the node refused the penalty; otherwise it is held (with its tracker, or alone when the node said "on chain")
            \cup Tag((inCache /\ p # NoTx /\ Known(pre, E, p, g) /\ ~Refused(pre, E, p, g)) => HasKey(post.appts, k),
                     "C08", "receipt_for_dropped")
            \cup Tag(E.reply.start = pre.wH, "C08", "start_block")
            \cup Tag(E.reply.ver = E.a.ver, "C08", "user_signature")
            \cup Tag(E.reply.expiry = UserOf(post.users, E.who).expiry, "C08", "expiry")
            \cup Tag(HasKey(post.appts, k) \/ inCache, "C08", "receipt_without_storing")

\* reading back returns the version last accepted
C08_Get(pre, E, g) ==
    IF E.reply.code # "ok" \/ E.reply.status # "watched" THEN {}
    ELSE LET k == <<E.who, E.l>>
         IN Tag([k |-> k, key |-> E.reply.key, pay |-> E.reply.pay, size |-> E.reply.size, tsd |-> E.reply.tsd] \in g.lastAcc
                /\ E.reply.bytes_ok, "C08", "read_back")

-----------------------------------------------------------------------------
(* C09 - subscriptions                                                     *)

C09_Register(pre, E, post) ==
    IF E.reply.code # "ok" THEN {}
    ELSE IF HasUser(pre.gk, E.who)
    THEN LET r == UserOf(pre.gk, E.who)
         IN Tag(E.reply.expiry = MinOf(r.expiry + SUB_D, MAXU) /\ E.reply.start = r.start, "C09", "renewal")
    ELSE Tag(E.reply.start = pre.gkH /\ E.reply.expiry = pre.gkH + SUB_D, "C09", "new_subscription")

C09_GkConnect(pre, E, post) ==
    LET h == E.blk.h
        out == {r.u : r \in {x \in pre.users : h >= x.expiry + SUB_G}}
    IN Tag({r.u : r \in post.users} = {r.u : r \in pre.users} \ out, "C09", "purge_set")
       \cup Tag({r.u : r \in post.gk} = {r.u : r \in pre.gk} \ out, "C09", "purge_set_memory")
       \cup Tag(post.appts = {a \in pre.appts : a.u \notin out} /\ post.trackers = {t \in pre.trackers : t.u \notin out}, "C09", "cascade")
       \cup Tag(\A r \in post.users : r \in pre.users, "C09", "touched_others")
       \cup Tag(post.gkH = h, "C09", "height")

C09_Disc(pre, E, post) == Tag(post.gkH = E.blk.h - 1, "C09", "height")
=============================================================================
