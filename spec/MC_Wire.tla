------------------------------ MODULE MC_Wire ------------------------------
(***************************************************************************)
(* Enumeration of the message x field-class space of Wire.tla (C16) and    *)
(* emission of one CASE line (JSON) per case.  A case is one exchange:      *)
(*   fam "request"  the request's field classes range over the product     *)
(*                  (at most Depth fields away from their default class),   *)
(*                  the reply is the default one                            *)
(*   fam "reply"    the reply's field classes range, the request is default *)
(*   fam "error"    the tower answers with one of the failures it emits     *)
(* `via` says which client code makes the call: "typed" = the function of   *)
(* watchtower_plugin::net::http written for the endpoint (register,         *)
(* send_appointment; for get_subscription_info the type the plugin uses),   *)
(* "generic" = post_request + process_post_response::<ApiResponse<T>>.      *)
(* The layout and encoding lemmas of Wire.tla are checked as assumptions.   *)
(***************************************************************************)
EXTENDS Wire, Json

CONSTANTS Emit, Depth

VARIABLE c

Vias(ep) == IF ep = "get_appointment" THEN {"generic"} ELSE {"typed", "generic"}
Variants(ep) == IF ep = "get_appointment" THEN {"Appointment", "Tracker"} ELSE {""}
DefaultVariant(ep) == IF ep = "get_appointment" THEN "Appointment" ELSE ""
HasX(msg) == msg = "Your subscription expired at {x}"

Case(fam, ep, via, variant, req, rep, grpc, msg, x) ==
    [fam |-> fam, ep |-> ep, via |-> via, variant |-> variant, req |-> req, rep |-> rep, grpc |-> grpc, msg |-> msg, x |-> x]

ReqCasesOf(ep) ==
    {Case("request", ep, via, DefaultVariant(ep), req, DefaultAssignment(ReplyOf[ep], DefaultVariant(ep)), "", "", "-") :
        via \in Vias(ep), req \in Assignments(RequestOf[ep], "", Depth)}

RepCasesOf(ep) ==
    UNION {{Case("reply", ep, via, v, DefaultAssignment(RequestOf[ep], ""), rep, "", "", "-") :
                via \in Vias(ep), rep \in Assignments(ReplyOf[ep], v, Depth)} : v \in Variants(ep)}

ErrCasesOf(ep) ==
    UNION {{Case("error", ep, "generic", DefaultVariant(ep), DefaultAssignment(RequestOf[ep], ""),
                 DefaultAssignment(ReplyOf[ep], DefaultVariant(ep)), e[1], e[2], x) :
                x \in IF HasX(e[2]) THEN U32Classes ELSE {"-"}} : e \in TowerErrors[ep]}

(* send_appointment checks the tower's signature over the receipt: through it only a reply whose signature is  *)
(* that signature can be compared (class "zbase32" is concretised as the tower's real signature there).         *)
Comparable(k) == (k.ep = "add_appointment" /\ k.via = "typed") => k.rep["signature"] = "zbase32"

Cases == {k \in UNION {ReqCasesOf(ep) \cup RepCasesOf(ep) \cup ErrCasesOf(ep) : ep \in Endpoints} : Comparable(k)}

Init == c \in Cases
Next == UNCHANGED c
Spec == Init /\ [][Next]_c

ASSUME TableWellFormed
ASSUME LayoutsDetermineFields
ASSUME TwoVariableFieldsAreAmbiguous
ASSUME EncodingsRoundTrip
ASSUME ByteOrderIsObservable
ASSUME LocatorRule
ASSUME LocatorIsNotDisplayPrefix

CaseOK ==
    /\ DOMAIN c.req = LeafNames(RequestOf[c.ep], "")
    /\ DOMAIN c.rep = LeafNames(ReplyOf[c.ep], c.variant)
    /\ c.fam = "error" => c.grpc \in DOMAIN ErrorMap

LayoutMeta ==
    [n \in DOMAIN Layouts |-> [fields |-> Layouts[n], fixed_len |-> FixedLen(Layouts[n]),
                               offsets_without_variable |-> [i \in DOMAIN Layouts[n] |-> Offset(Layouts[n], i, 0)]]]

Meta == [messages |-> Messages, status_number |-> StatusNumber, limits |-> Limit, error_map |-> ErrorMap,
         layouts |-> LayoutMeta, locator_len |-> LocatorLen, locator_rule |-> "prefix_of_reversed_display", request_of |-> RequestOf, reply_of |-> ReplyOf]

ASSUME Emit => PrintT(<<"META", ToJson(Meta)>>)

EmitInv ==
    Emit => PrintT(<<"CASE", ToJson([fam |-> c.fam, ep |-> c.ep, via |-> c.via, variant |-> c.variant,
                                     req_msg |-> RequestOf[c.ep], rep_msg |-> ReplyOf[c.ep],
                                     req |-> c.req, rep |-> c.rep,
                                     req_fields |-> Leaves(RequestOf[c.ep], ""),
                                     rep_fields |-> Leaves(ReplyOf[c.ep], c.variant),
                                     grpc |-> c.grpc, msg |-> c.msg, x |-> c.x,
                                     err_status |-> IF c.fam = "error" THEN ErrorMap[c.grpc][1] ELSE 0,
                                     err_code |-> IF c.fam = "error" THEN ErrorMap[c.grpc][2] ELSE 0,
                                     refused |-> Refused(c.req), refused_code |-> EMPTY_FIELD,
                                     limit |-> Limit[c.ep]])>>)
=============================================================================
