------------------------------- MODULE TxIndex -------------------------------
(***************************************************************************)
(* Reference model of the tower's bounded look-ups of recently confirmed   *)
(* transactions (teos/src/tx_index.rs; used as the Watcher's locator cache *)
(* with N = 6 and as the Responder's tx index with N = 100).               *)
(*                                                                         *)
(* The model is the list of the (at most N) most recent blocks of the      *)
(* active chain the index has been given, oldest first.  Each block is a   *)
(* record [id, h, keys]: an identifier, its TRUE height and the set of     *)
(* keys (txids / locators) confirmed in it.  Everything the property C19   *)
(* talks about is a function of that list:                                 *)
(*   Get(k)        - the block holding k, if a held block does             *)
(*   GetHeight(id) - the true height of a held block                       *)
(* The operators are written functionally so that Tower.tla re-uses them   *)
(* for wCache (N = CACHE_N) and rIndex (N = IDX_N).                        *)
(***************************************************************************)
EXTENDS Naturals, Sequences, FiniteSets

NoBlock == 0   \* block ids are positive naturals

\* Keys held by an index
IdxKeys(idx) == UNION {idx[i].keys : i \in 1..Len(idx)}
IdxIds(idx) == {idx[i].id : i \in 1..Len(idx)}

\* A new block of the active chain is handed to the index; the oldest block
\* ages out once more than n are held.
IdxUpdate(idx, b, n) ==
    LET a == Append(idx, b) IN IF Len(a) > n THEN Tail(a) ELSE a

\* The tip is disconnected.  Disconnecting a block that is not held (reorg
\* deeper than the window) leaves the index as it is.
IdxDisconnect(idx, id) ==
    IF idx # <<>> /\ idx[Len(idx)].id = id
    THEN SubSeq(idx, 1, Len(idx) - 1)
    ELSE idx

\* Look-ups.  A key is confirmed in at most one block of the active chain, so
\* at most one held block contains it (ASSUMEd by the generators below).
IdxGet(idx, k) ==
    IF \E i \in 1..Len(idx) : k \in idx[i].keys
    THEN idx[CHOOSE i \in 1..Len(idx) : k \in idx[i].keys].id
    ELSE NoBlock

IdxHas(idx, k) == IdxGet(idx, k) # NoBlock

IdxHeight(idx, id) ==
    IF \E i \in 1..Len(idx) : idx[i].id = id
    THEN idx[CHOOSE i \in 1..Len(idx) : idx[i].id = id].h
    ELSE 0   \* heights are positive; 0 = "not held"

\* Deviation S1 (teos/src/tx_index.rs::get_height): the implementation derives
\* heights from a tip field that is not moved on disconnect, so while the
\* index holds fewer than n blocks every reported height is too high by the
\* number of missing blocks.
IdxHeightS1(idx, id, n) ==
    IF IdxHeight(idx, id) = 0 THEN 0 ELSE IdxHeight(idx, id) + (n - Len(idx))

\* Well-formedness: consecutive heights, distinct ids, disjoint key sets, <= n.
IdxWF(idx, n) ==
    /\ Len(idx) <= n
    /\ \A i \in 1..Len(idx) - 1 : idx[i + 1].h = idx[i].h + 1
    /\ \A i, j \in 1..Len(idx) : i # j => (idx[i].id # idx[j].id /\ idx[i].keys \cap idx[j].keys = {})
=============================================================================
