-------------------------------- MODULE Client --------------------------------
(***************************************************************************)
(* The CLN watchtower client plugin (crate watchtower-plugin: main.rs,     *)
(* wt_client.rs, retrier.rs, dbm.rs, net/http.rs) together with its        *)
(* environment (towers that answer whatever they like or are unreachable,  *)
(* a user, SIGKILL).  Properties C05, C13, C14.                            *)
(*                                                                         *)
(* The client is ONE record c; every action is an operator from a state to *)
(* the SET of states it may lead to, so that the same definitions serve    *)
(*   - MC_Client*.tla   (Next == c' \in Succ(c): model checking), and      *)
(*   - Trace_Client.tla (sets of candidate states are pushed through the   *)
(*     logged events of the real binary; hidden steps are closed over).    *)
(*                                                                         *)
(* Actions are cut at the await points / critical sections / SQLite        *)
(* transactions of the code (DESIGN.md Appendix B):                        *)
(*   visible (logged by the rig):  NotifyCall NotifyRet RegCall RegRet     *)
(*        Send (a request reaches a tower) Reply (the tower answers)       *)
(*        ManualRetry Abandon SetUp Kill Restart                           *)
(*   hidden (inside the client):  NotifySnap NotifyLocal NotifyRecv        *)
(*        RegRefused RegRecv MgrDrain MgrDrop MgrStart MgrWake RunBegin    *)
(*        RunRefused RunRegRecv RunRecv RunMove RunRetry (= BackoffWait)   *)
(*        GiveUp RunEnd                                                    *)
(* The data layer (tables, summaries) is ClientStore.tla (C18).            *)
(*                                                                         *)
(* The specification states the INTENDED design, i.e. what C05/C13/C14     *)
(* require; corners the properties leave open are nondeterministic.        *)
(* Where the code is known to deviate, the deviation is a separate branch  *)
(* enabled by the constant DEVIATIONS (shared with ClientStore):           *)
(*   S12  notification path, answer that is neither a response nor an API  *)
(*        error: nothing is recorded (C05)                                 *)
(*   S13  retry path, same class of answer: the loop goes on without       *)
(*        backing off (C13)                                                *)
(*   S14  undecodable signature in an appointment response: the task       *)
(*        aborts (hook never answers / retrier stays "running") (C14, C05) *)
(*   S15  a second FINAL record of the other kind is added to a (tower,    *)
(*        appointment) that has one: accepted next to invalid (C05)        *)
(*   S15p (repaired; kept for the vacuity runs) the insert of a row that   *)
(*        exists fails, the task aborts holding the state mutex and every  *)
(*        later handler aborts too                                         *)
(*   S22  a bad signature for an appointment that already has a receipt:   *)
(*        the tower is flagged in memory only, no proof is persisted (C14) *)
(*   S21  the retrier sends / loads whatever is in its set: an appointment *)
(*        delivered meanwhile is sent again or, when its body is gone,     *)
(*        makes the task abort holding the state mutex (C05)               *)
(*   S16  see ClientStore (C18)                                            *)
(*   S19  a revocation for a tower shown "unreachable" is not passed to    *)
(*        its retrier - also when that retrier has just been woken and has *)
(*        already reloaded the pending data from disk: the appointment     *)
(*        stays pending while the tower is shown reachable (C13)           *)
(*   S20  registertower against a known tower that refuses the connection  *)
(*        flags it temporarily unreachable although no retrier looks after *)
(*        it: it stays like that when the tower is back (C13)              *)
(*   S18  a retrier is started / goes on for a tower already proven        *)
(*        misbehaving (a handler that copied the statuses earlier asked    *)
(*        for it): the tower is sent to again (C14).  S18o (repaired): the *)
(*        status "misbehaving" was overwritten on top of that              *)
(* A state remembers in c.dev which deviations were needed to reach it.    *)
(***************************************************************************)
EXTENDS ClientStore, Sequences, TLC

CONSTANTS Towers, Locators

NoLoc   == "-"
NoTower == "-"
NoRep   == [cls |-> "none", slots |-> 0, start |-> 0, expiry |-> 0, ts |-> 0]

\* reply classes: what an answer is to a client that parses it as the protocol says
AddClasses == {"accept", "sub_error", "reject", "garbage", "badsig", "malsig"}
RegClasses == {"accept", "garbage", "badsig", "malsig"}

Dev(d) == d \in DEVIATIONS

\* Time (trace validation): hidden steps happen between the previous logged event (tm.prev) and this one (tm.now).
\*   minb  minimal back-off before the next attempt        wake  minimal idle time before the automatic retry
\*   tick  minimal time between two rounds of the retry manager
Tm0 == [minb |-> 0, prev |-> 0, now |-> 0, wake |-> 0, tick |-> 0]

RetAbsent == [s |-> "absent", pend |-> {}, pc |-> "-", cur |-> NoLoc, rep |-> NoRep, seq |-> 0,
              nf |-> 0,      \* answers without progress since the last back-off wait (C13 NoFlood)
              \* times (ms; trace validation only, all 0 in model checking)
              nbf |-> 0,     \* earliest time of the next request / of the automatic wake-up
              ft |-> 0]      \* time of the last failed attempt

InitClient ==
    [st |-> EmptyStore,
     up |-> [t \in Towers |-> TRUE],
     rt |-> [t \in Towers |-> RetAbsent],
     inmap |-> [t \in Towers |-> "none"],          \* WTClient.retriers: none | running | idle
     chan |-> {},                                  \* messages to the retry manager [t, k, ls]
     nots |-> {},                                  \* notification handlers in flight
     regs |-> {},                                  \* registertower calls in flight
     alive |-> TRUE,
     poisoned |-> FALSE,                           \* the state mutex is poisoned
     rpc |-> {},                                   \* <<id, answer>>: retrytower / abandontower calls that have taken effect
                                                   \* while the rig has not read the answer yet (trace validation)
     mgr |-> TRUE,                                 \* the manager task is alive
     mgrN |-> 0,                                   \* earliest time of its next round (trace validation; 0 otherwise)
     \* ghosts
     done |-> {},                                  \* <<t, l>>: a handler for l has finished with tower t
     moving |-> {},                                \* <<t, l>>: move pending -> accepted / invalid begun, not completed
     ntask |-> [t \in Towers |-> 0],               \* retry loops (tasks) alive per tower
     died |-> 0,                                   \* tasks that aborted (bounded)
     sentMis |-> {},                               \* towers sent to although known to be misbehaving
     dev |-> {}]

-----------------------------------------------------------------------------
(* Store helpers on top of ClientStore                                     *)

Known(c, t) == t \in MemKnown(c.st)
Status(c, t) == Mem(c.st, t).status
HasRcpt(db, t, l) == \E r \in db.rcpts : r.t = t /\ r.l = l
Kinds(db, t, l) == (IF HasRcpt(db, t, l) THEN {"accepted"} ELSE {})
                   \cup (IF Ref(t, l) \in db.pend THEN {"pending"} ELSE {})
                   \cup (IF Ref(t, l) \in db.inv THEN {"invalid"} ELSE {})

\* remove every record about (t, l) (used when a newer answer replaces an older record)
Forget(st, t, l) ==
    LET db1 == [st.db EXCEPT !.rcpts = {r \in @ : ~(r.t = t /\ r.l = l /\ r.ok)},      \* a proof is never forgotten
                             !.pend = @ \ {Ref(t, l)}, !.inv = @ \ {Ref(t, l)}]
        db2 == [db1 EXCEPT !.bodies = IF Referenced(db1, l) THEN @ ELSE @ \ {l}]
    IN UpdMem([st EXCEPT !.db = db2], t, LAMBDA m : [m EXCEPT !.pending = @ \ {l}, !.invalid = @ \ {l}])

AddKind(st, t, l, kind, slots) ==
    CASE kind = "accepted" -> AddReceipt(st, t, l, slots)
      [] kind = "pending"  -> AddPending(st, t, l)
      [] kind = "invalid"  -> AddInvalid(st, t, l)

\* would the SQL insert for `kind` hit an existing primary key?
SameRow(db, t, l, kind) ==
    CASE kind = "accepted" -> HasRcpt(db, t, l)
      [] kind = "pending"  -> Ref(t, l) \in db.pend
      [] kind = "invalid"  -> Ref(t, l) \in db.inv

\* A task that aborts while it holds the state mutex poisons it: outcome "poison".  Outcome records: [st, out, dev, mv]
\* (mv: the appointment is, from now on, on its way to the tower once more although it has a final record)
Ok(st) == [st |-> st, out |-> "ok", dev |-> {}, mv |-> FALSE]
OkDev(st, d) == [st |-> st, out |-> "ok", dev |-> {d}, mv |-> FALSE]
OkMv(st) == [st |-> st, out |-> "ok", dev |-> {}, mv |-> TRUE]
Poison(st) == [st |-> st, out |-> "poison", dev |-> {"S15"}, mv |-> FALSE]

\* Recording an outcome for (t, l).  No record yet: add it.  A record exists (duplicate notification, re-delivery):
\* the property only asks that exactly one record remains - the old one or (unless the retrier is just moving it)
\* the new one.  A duplicate that cannot be delivered may also be queued for the tower once more (pending next to the
\* final record): that is a delivery in progress like the one a kill in the middle of a move leaves behind, and it
\* ends the same way - the final record stays, the pending reference goes.
\* S15: what the code did (insert fails: abort holding the mutex - repaired) and still does (a final record of the
\* other kind, accepted next to invalid, is simply added).
Record(c, t, l, kind, slots) ==
    LET st == c.st IN
    IF ~Known(c, t) THEN {Ok(st)}
    ELSE IF Kinds(st.db, t, l) = {} THEN {Ok(AddKind(st, t, l, kind, slots))}
    ELSE {Ok(st)}
         \cup (IF <<t, l>> \in c.moving THEN {} ELSE {Ok(AddKind(Forget(st, t, l), t, l, kind, slots))})
         \cup (IF kind = "pending" /\ "pending" \notin Kinds(st.db, t, l) THEN {OkMv(AddKind(st, t, l, kind, slots))} ELSE {})
         \cup (IF Dev("S15p") /\ SameRow(st.db, t, l, kind) THEN {Poison(st)} ELSE {})
         \cup (IF Dev("S15") /\ kind # "pending" /\ ~SameRow(st.db, t, l, kind) /\ Kinds(st.db, t, l) \ {"pending"} # {}
               THEN {OkDev(AddKind(st, t, l, kind, slots), "S15")} ELSE {})

\* The receipt signed by somebody else is stored as the proof (it takes the place of a receipt (t, l) may have); the
\* first proof against a tower is the one that is kept.  Outcome record as above.
\* S22: when (t, l) already has a receipt the insert fails and is only logged: the tower is flagged in memory, no proof
\* is persisted (after a restart it is trusted again).
Flag(st, t, l) ==
    IF HasProof(st.db, t) THEN st
    ELSE FlagMisbehaving([st EXCEPT !.db.rcpts = {r \in @ : ~(r.t = t /\ r.l = l)}], t, l)
FlagO(c, t, l) ==
    IF Dev("S22") /\ Known(c, t) /\ ~HasProof(c.st.db, t) /\ HasRcpt(c.st.db, t, l)
    THEN OkDev(SetStatus(c.st, t, "misbehaving"), "S22")
    ELSE Ok(Flag(c.st, t, l))

\* send_to_retrier: only a retrier that does not exist yet or is running is told
Tell(c, t, l) == IF c.inmap[t] \in {"none", "running"} THEN c.chan \cup {[t |-> t, k |-> "fresh", ls |-> {l}]} ELSE c.chan

Done(c, t, l) == IF Known(c, t) THEN c.done \cup {<<t, l>>} ELSE c.done

\* The status of a tower proven misbehaving is final (a handler or a retrier that read the status earlier may still
\* report what it saw).  S18o (repaired): the code overwrote it.
SetSt(c, t, s) ==
    IF Known(c, t) /\ Status(c, t) = "misbehaving" /\ s # "misbehaving"
    THEN (IF Dev("S18o") THEN [c EXCEPT !.st = SetStatus(@, t, s), !.dev = @ \cup {"S18"}] ELSE c)
    ELSE [c EXCEPT !.st = SetStatus(@, t, s)]

MaxDied == 3
Die(c) == [c EXCEPT !.died = IF @ < MaxDied THEN @ + 1 ELSE @]

-----------------------------------------------------------------------------
(* Notification handler: on_commitment_revocation                          *)

NewNot(id, l) == [id |-> id, l |-> l, pc |-> "new", todo |-> {}, cur |-> NoTower, rep |-> NoRep, seq |-> 0, mis |-> {}]

SetNot(c, n, n2) == [c EXCEPT !.nots = (@ \ {n}) \cup {n2}]
DropNot(c, n) == [c EXCEPT !.nots = @ \ {n}]
\* the handler aborted: the towers it had not finished with are never served
NotDies(c, n) ==
    [Die(DropNot(c, n)) EXCEPT !.done = @ \cup
        (IF n.pc = "new"            \* it had not even copied the statuses
         THEN {<<m.t, n.l>> : m \in {x \in c.st.mem : x.status # "misbehaving"}}
         ELSE {<<x[1], n.l>> : x \in {y \in n.todo : y[2] # "misbehaving" /\ Known(c, y[1])}})]

NotifyCall(c, id, l) ==
    IF ~c.alive THEN {c}
    ELSE {[c EXCEPT !.nots = @ \cup {[NewNot(id, l) EXCEPT !.mis = {t \in Towers : HasProof(c.st.db, t)}]}]}

\* the handler copies (tower, status) of every known tower, then works on the copy
NotifySnap(c, n) ==
    IF c.poisoned THEN {NotDies(c, n)}
    ELSE {SetNot(c, n, [n EXCEPT !.pc = "loop", !.todo = {<<m.t, m.status>> : m \in c.st.mem}])}

\* outcome of a critical section of the handler for tower t: the task goes on, or it aborted holding the mutex
NotAfter(c, n, t, o, chan2, devs) ==
    IF o.out = "poison"
    THEN [NotDies(c, n) EXCEPT !.poisoned = TRUE, !.dev = @ \cup o.dev]
    ELSE [SetNot(c, n, [n EXCEPT !.pc = "loop", !.cur = NoTower, !.rep = NoRep,
                                  !.todo = {x \in @ : x[1] # t}])
          EXCEPT !.st = o.st, !.chan = chan2, !.done = Done(c, t, n.l), !.dev = @ \cup devs \cup o.dev,
                 !.moving = IF o.mv /\ Known(c, t) THEN @ \cup {<<t, n.l>>} ELSE @]

\* could not deliver: keep the data for the retrier; why = "conn" | "sub" | "keep"
NotPending(c, n, t, why, tell, devs) ==
    LET c1 == IF why = "conn" THEN SetSt(c, t, "temporary_unreachable")
              ELSE IF why = "sub" THEN SetSt(c, t, "subscription_error") ELSE c
    IN {NotAfter(c, n, t, o, IF tell /\ Known(c, t) /\ Ref(t, n.l) \in o.st.db.pend THEN Tell(c, t, n.l) ELSE c.chan,
                 devs \cup c1.dev) :
            o \in Record(c1, t, n.l, "pending", 0)}

\* a step of the handler that needs no tower: towers that are not reachable (by the copy) and refused connections
NotifyLocal(c, n) ==
    IF n.pc # "loop" THEN {}
    ELSE UNION {
        LET t == x[1] s == x[2] IN
        \* (a tower skipped as misbehaving is one the handler has finished with: without a proof on disk it is not exempt)
        IF s = "misbehaving" THEN {[SetNot(c, n, [n EXCEPT !.todo = @ \ {x}]) EXCEPT !.done = Done(c, t, n.l)]}
        ELSE IF c.poisoned THEN {NotDies(c, n)}
        ELSE IF s = "reachable"
             THEN (IF c.up[t] THEN {} ELSE NotPending(c, n, t, "conn", TRUE, {}))
             \* the data is kept for the retrier, which is told unless it idles (Tell looks): an idle one reloads
             \* everything from disk when it wakes.  S19: a tower that was shown unreachable is never told about -
             \* also when its retrier has just been woken and has already reloaded.
             ELSE IF s = "unreachable" /\ Dev("S19")
                  THEN NotPending(c, n, t, "keep", FALSE, IF c.inmap[t] # "idle" THEN {"S19"} ELSE {})
                  ELSE NotPending(c, n, t, "keep", TRUE, {})
        : x \in n.todo}

\* towers the handler may send to now
NotifyCanSend(c, n, t) == n.pc = "loop" /\ <<t, "reachable">> \in n.todo

NotifySend(c, n, t, seq) ==
    [SetNot(c, n, [n EXCEPT !.pc = "wait", !.cur = t, !.seq = seq])
     EXCEPT !.sentMis = IF t \in n.mis THEN @ \cup {t} ELSE @]

\* the handler reads the answer r of tower n.cur
NotifyRecv(c, n) ==
    IF n.pc # "got" THEN {}
    ELSE LET t == n.cur l == n.l r == n.rep IN
    (IF c.poisoned THEN {NotDies(c, n)}
     ELSE CASE r.cls = "accept" -> {NotAfter(c, n, t, o, c.chan, {}) : o \in Record(c, t, l, "accepted", r.slots)}
            [] r.cls = "sub_error" -> NotPending(c, n, t, "sub", TRUE, {})
            [] r.cls = "reject" -> {NotAfter(c, n, t, o, c.chan, {}) : o \in Record(c, t, l, "invalid", 0)}
            [] r.cls = "badsig" ->
                 \* the receipt signed by somebody else is kept as the proof; the tower is not used any more
                 \* (S15: a receipt row for (t, l) or a proof row for t exists already: the insert fails)
                 ((IF Known(c, t) /\ (HasRcpt(c.st.db, t, l) \/ HasProof(c.st.db, t)) /\ Dev("S15p")
                   THEN {NotAfter(c, n, t, Poison(c.st), c.chan, {})}
                   ELSE {})
                  \cup {NotAfter(c, n, t, FlagO(c, t, l), c.chan, {})})
            [] r.cls = "garbage" ->
                 (NotPending(c, n, t, "conn", TRUE, {})
                  \cup {NotAfter(c, n, t, o, c.chan, {}) : o \in Record(c, t, l, "invalid", 0)}
                  \cup (IF Dev("S12") THEN {NotAfter(c, n, t, Ok(c.st), c.chan, {"S12"})} ELSE {}))
            [] r.cls = "malsig" ->
                 (NotPending(c, n, t, "conn", TRUE, {})
                  \cup {NotAfter(c, n, t, o, c.chan, {}) : o \in Record(c, t, l, "invalid", 0)}
                  \cup {NotAfter(c, n, t, FlagO(c, t, l), c.chan, {})})
            [] OTHER -> {})
    \cup (IF r.cls = "malsig" /\ Dev("S14") /\ ~c.poisoned
          THEN {[NotDies(c, n) EXCEPT !.dev = @ \cup {"S14"}]}      \* aborts outside the mutex
          ELSE {})

NotifyCanRet(c, n) == n.pc = "loop" /\ n.todo = {}
NotifyRet(c, n) == DropNot(c, n)

-----------------------------------------------------------------------------
(* registertower                                                           *)

\* port: the address the user gives (a tower may be registered again through another one)
NewReg(id, t, port) == [id |-> id, t |-> t, port |-> port, pc |-> "new", rep |-> NoRep, seq |-> 0]
SetReg(c, g, g2) == [c EXCEPT !.regs = (@ \ {g}) \cup {g2}]

RegCall(c, id, t, port) == IF ~c.alive THEN {c} ELSE {[c EXCEPT !.regs = @ \cup {NewReg(id, t, port)}]}

RegCanSend(c, g) == g.pc = "new" /\ ~c.poisoned
RegSend(c, g, seq) == SetReg(c, g, [g EXCEPT !.pc = "wait", !.seq = seq])

\* connection refused: the call fails, nothing else changes.  S20: the code flags a known tower temporarily unreachable
\* without telling the retry manager - with nothing pending nobody ever flags it reachable again.
RegRefused(c, g) ==
    IF g.pc # "new" \/ c.up[g.t] THEN {}
    ELSE IF c.poisoned THEN {Die([c EXCEPT !.regs = @ \ {g}])}
    ELSE IF Dev("S20") /\ Known(c, g.t)
         THEN {SetReg([SetSt(c, g.t, "temporary_unreachable")
                       EXCEPT !.dev = IF Status(c, g.t) = "reachable" THEN @ \cup {"S20"} ELSE @],
                      g, [g EXCEPT !.pc = "err"])}
         ELSE {SetReg(c, g, [g EXCEPT !.pc = "err"])}

\* C14 RegRecorded: only a receipt that verifies under the tower id and strictly extends what is known is recorded
RegApply(st, t, r, port) ==
    IF r.cls = "accept" /\ RegAccepted(st, t, r.slots, r.expiry)
    THEN AddUpdateTower(st, t, port, r.slots, r.start, r.expiry) ELSE st

RegRecv(c, g) ==
    IF g.pc # "got" THEN {}
    ELSE IF c.poisoned THEN {Die([c EXCEPT !.regs = @ \ {g}])}
    ELSE LET ok == g.rep.cls = "accept" /\ RegAccepted(c.st, g.t, g.rep.slots, g.rep.expiry)
         IN {[SetReg(c, g, [g EXCEPT !.pc = IF ok THEN "ok" ELSE "err"]) EXCEPT !.st = RegApply(@, g.t, g.rep, g.port)]}

RegCanRet(c, g, res) == g.pc = res /\ res \in {"ok", "err"}
RegRet(c, g) == [c EXCEPT !.regs = @ \ {g}]

-----------------------------------------------------------------------------
(* Retry manager: RetryManager::manage_retry                               *)

SetRt(c, t, r) == [c EXCEPT !.rt[t] = r]

MgrDies(c) == [Die(c) EXCEPT !.mgr = FALSE]

\* One round of the manager loop takes everything that is queued (try_recv until the queue is empty), then looks after
\* the retriers and sleeps for a second: rounds are tm.tick apart (trace validation; 0 in model checking).
MgrDrain(c, tm) ==
    IF ~c.mgr \/ c.chan = {} \/ tm.now < c.mgrN THEN {}
    ELSE IF c.poisoned THEN {MgrDies(c)}
    ELSE LET Has(t) == \E m \in c.chan : m.t = t
             HasNone(t) == \E m \in c.chan : m.t = t /\ m.k = "none"
             D(t) == UNION {m.ls : m \in {x \in c.chan : x.t = t}}
             Woken(t) == Has(t) /\ Known(c, t) /\ c.rt[t].s = "idle" /\ HasNone(t)
             NewRt(t) ==
                 LET r == c.rt[t] IN
                 IF ~Has(t) \/ ~Known(c, t) THEN r                  \* (messages for an abandoned tower are dropped)
                 ELSE IF r.s = "idle"
                      \* a manual retry wakes it (pending data reloaded from disk); data sent to an idle retrier is dropped
                      THEN (IF HasNone(t) THEN [r EXCEPT !.s = "stopped", !.pend = @ \cup PendOf(c.st.db, t) \cup D(t)] ELSE r)
                 ELSE IF r.s = "absent" THEN (IF D(t) = {} THEN r ELSE [RetAbsent EXCEPT !.s = "stopped", !.pend = D(t)])
                 ELSE [r EXCEPT !.pend = @ \cup D(t)]
         IN {[c EXCEPT !.chan = {}, !.rt = [t \in Towers |-> NewRt(t)],
                       !.inmap = [t \in Towers |-> IF Woken(t) THEN "none" ELSE @[t]],
                       !.mgrN = (tm.prev \div 300) * 300 + tm.tick]}

\* the queue is empty: forget retriers that failed or have nothing to do
MgrDrop(c, t) ==
    LET r == c.rt[t] IN
    IF ~c.mgr \/ c.chan # {} THEN {}
    ELSE IF r.s = "failed" THEN (IF c.poisoned THEN {MgrDies(c)} ELSE {[c EXCEPT !.rt[t] = RetAbsent, !.inmap[t] = "none"]})
    ELSE IF r.s = "stopped" /\ r.pend = {} THEN {[c EXCEPT !.rt[t] = RetAbsent]}
    ELSE {}

\* ... start those that have
MgrStart(c, t, tm) ==
    LET r == c.rt[t] IN
    IF ~c.mgr \/ c.chan # {} \/ r.s # "stopped" \/ r.pend = {} THEN {}
    ELSE IF c.poisoned THEN {MgrDies(c)}
    ELSE IF ~Known(c, t) THEN {[c EXCEPT !.rt[t] = RetAbsent]}
    \* a tower proven misbehaving is not retried (a handler working on an older copy of the statuses may still have
    \* asked for it).  S18: the code runs the loop and sends.
    \* (it is either not started at all, or started only to find out at once - RunBegin - that there is nothing to do)
    ELSE (IF Status(c, t) = "misbehaving" /\ ~Dev("S18") THEN {[c EXCEPT !.rt[t] = RetAbsent]} ELSE {})
         \cup {[(IF Status(c, t) = "subscription_error" THEN c ELSE SetSt(c, t, "temporary_unreachable"))
                EXCEPT !.rt[t].s = "running", !.rt[t].pc = "begin", !.rt[t].nf = 0, !.rt[t].nbf = 0, !.rt[t].ft = 0, !.rt[t].seq = 0,
                       !.inmap[t] = "running", !.ntask[t] = @ + 1]}

\* ... and wake the idle ones whose delay has elapsed (pending data is reloaded from disk)
MgrWake(c, t, tm) ==
    IF ~c.mgr \/ c.chan # {} \/ c.rt[t].s # "idle" \/ tm.now < c.rt[t].nbf THEN {}
    ELSE IF c.poisoned THEN {MgrDies(c)}
    ELSE {[c EXCEPT !.rt[t].s = "stopped", !.rt[t].pend = @ \cup PendOf(c.st.db, t), !.inmap[t] = "none"]}

-----------------------------------------------------------------------------
(* Retrier: Retrier::start / run                                           *)

Running(c, t) == c.alive /\ c.rt[t].s = "running"

\* the task aborted: the retrier stays "running" for ever
RunDies(c, t) == [Die(c) EXCEPT !.rt[t].pc = "dead", !.rt[t].rep = NoRep, !.ntask[t] = IF @ > 0 THEN @ - 1 ELSE 0]

RunBegin(c, t) ==
    IF ~Running(c, t) \/ c.rt[t].pc # "begin" THEN {}
    ELSE IF c.poisoned THEN {RunDies(c, t)}
    ELSE IF ~Known(c, t) \/ (Status(c, t) = "misbehaving" /\ ~Dev("S18")) THEN {[c EXCEPT !.rt[t].pc = "end_gone"]}
    ELSE {[c EXCEPT !.rt[t].pc = IF Status(c, t) = "subscription_error" THEN "reg" ELSE "loop"]}

\* what the loop would send next: a registration renewal or one of its pending appointments
RunCanSendReg(c, t, now) == Running(c, t) /\ c.rt[t].pc = "reg" /\ now >= c.rt[t].nbf
\* only what is (still) pending for the tower is sent.  S21: the retrier sends whatever is in its set and still stored
\* (a revocation notified again while the retrier was delivering it comes back to the set after the delivery) and
\* aborts, holding the state mutex, when the appointment is not stored any more.
Sendable(c, t, l) == Dev("S21") \/ (l \in c.st.db.bodies /\ Ref(t, l) \in c.st.db.pend)
\* nothing is sent to a tower proven misbehaving (S18: the loop does not look)
Stopped(c, t) == Known(c, t) /\ Status(c, t) = "misbehaving" /\ ~Dev("S18")
\* the loop decides what to send next (critical section: still pending? tower not flagged?) ...
RunPick(c, t) ==
    IF ~Running(c, t) \/ c.rt[t].pc # "loop" \/ c.poisoned \/ Stopped(c, t) THEN {}
    ELSE {[c EXCEPT !.rt[t].pc = "pick", !.rt[t].cur = l,
                    !.sentMis = IF HasProof(c.st.db, t) THEN @ \cup {t} ELSE @,
                    !.dev = @ \cup (IF HasProof(c.st.db, t) THEN {"S18"} ELSE {})
                              \cup (IF Ref(t, l) \notin c.st.db.pend THEN {"S21"} ELSE {})]
          : l \in {x \in c.rt[t].pend : Sendable(c, t, x)}}
\* ... and the request reaches the tower a little later (whatever happened to the tower's record meanwhile)
RunCanSendAdd(c, t, l, now) == Running(c, t) /\ c.rt[t].pc = "pick" /\ c.rt[t].cur = l /\ now >= c.rt[t].nbf

RunSendReg(c, t, seq) == [c EXCEPT !.rt[t].pc = "regwait", !.rt[t].seq = seq, !.rt[t].nbf = 0, !.rt[t].ft = 0]
RunSendAdd(c, t, l, seq) ==
    [c EXCEPT !.rt[t].pc = "wait", !.rt[t].cur = l, !.rt[t].seq = seq, !.rt[t].nbf = 0, !.rt[t].ft = 0]

\* transient failure at time ft: the strategy sleeps (back-off); minb = minimal back-off
RunFail(c, t, ft, minb) == [c EXCEPT !.rt[t].pc = "fail", !.rt[t].cur = NoLoc, !.rt[t].rep = NoRep, !.rt[t].nf = IF @ < 2 THEN @ + 1 ELSE @,
                                     !.rt[t].nbf = ft + minb, !.rt[t].ft = ft]

\* steps of the loop that need no tower
RunLocal(c, t) ==
    LET r == c.rt[t] IN
    IF ~Running(c, t) THEN {}
    ELSE IF r.pc \in {"reg", "pick"} THEN (IF c.up[t] THEN {} ELSE {RunFail(c, t, 0, 0)})
    ELSE IF r.pc = "loop"
         THEN (IF r.pend = {} THEN {[c EXCEPT !.rt[t].pc = "end_ok"]}
               ELSE IF c.poisoned THEN {RunDies(c, t)}
               ELSE IF Stopped(c, t) THEN {[c EXCEPT !.rt[t].pc = "end_gone"]}
               ELSE (IF c.up[t] THEN {} ELSE {RunFail(c, t, 0, 0)})
                    \* something that is not pending (any more) is not sent: it leaves the set
                    \cup (IF \E l \in r.pend : ~Sendable(c, t, l)
                          THEN {[c EXCEPT !.rt[t].pend = {l \in @ : Sendable(c, t, l)}]}
                          ELSE {})
                    \cup (IF Dev("S21") /\ \E l \in r.pend : l \notin c.st.db.bodies
                          THEN {[RunDies(c, t) EXCEPT !.poisoned = TRUE, !.dev = @ \cup {"S21"}]} ELSE {}))
    ELSE {}

RunRegRecv(c, t, tm) ==
    LET r == c.rt[t] IN
    IF ~Running(c, t) \/ r.pc # "reggot" THEN {}
    ELSE IF r.rep.cls = "garbage" THEN {RunFail(c, t, r.rep.ts, tm.minb)}
    ELSE IF r.rep.cls # "accept" THEN {[c EXCEPT !.rt[t].pc = "end_sub"]}
    ELSE IF c.poisoned THEN {RunDies(c, t)}
    ELSE IF ~Known(c, t) \/ RegAccepted(c.st, t, r.rep.slots, r.rep.expiry)
         \* (the retrier renews through the address it knows)
         THEN {[c EXCEPT !.st = RegApply(@, t, r.rep, IF Known(c, t) THEN Mem(c.st, t).port ELSE 0),
                         !.rt[t].pc = "loop", !.rt[t].rep = NoRep]}
         ELSE {[c EXCEPT !.rt[t].pc = "end_sub"]}

\* an earlier rejection of (t, l) is forgotten (the data stays while something else refers to it)
DropInvalid(st, t, l) ==
    LET db1 == [st.db EXCEPT !.inv = @ \ {Ref(t, l)}]
        db2 == [db1 EXCEPT !.bodies = IF Referenced(db1, l) THEN @ ELSE @ \ {l}]
    IN UpdMem([st EXCEPT !.db = db2], t, LAMBDA m : [m EXCEPT !.invalid = @ \ {l}])

\* first half of a move: the new record is added (one transaction) ...  If the appointment already has a final record
\* (it is being re-delivered after a kill in the middle of an earlier move, or a duplicate got it there) that one stays -
\* or, if it was a rejection and the tower has now signed a receipt, the receipt takes its place.
RunMoveAdd(c, t, l, kind, slots) ==
    LET final == Kinds(c.st.db, t, l) \ {"pending"}
        outs == IF ~Known(c, t) THEN {Ok(c.st)}
                ELSE IF final = {} THEN {Ok(AddKind(c.st, t, l, kind, slots))}
                ELSE {Ok(c.st)}
                     \cup (IF kind = "accepted" /\ final = {"invalid"}
                           THEN {Ok(AddReceipt(DropInvalid(c.st, t, l), t, l, slots))} ELSE {})
                     \cup (IF Dev("S15p") /\ SameRow(c.st.db, t, l, kind) THEN {Poison(c.st)} ELSE {})
                     \cup (IF Dev("S15") /\ ~SameRow(c.st.db, t, l, kind)
                           THEN {OkDev(AddKind(c.st, t, l, kind, slots), "S15")} ELSE {})
    IN {IF o.out = "poison" THEN [RunDies(c, t) EXCEPT !.poisoned = TRUE, !.dev = @ \cup o.dev]
        ELSE [c EXCEPT !.st = o.st, !.rt[t].pc = "got2", !.rt[t].pend = @ \ {l}, !.rt[t].nf = 0,
                       !.moving = IF Known(c, t) THEN @ \cup {<<t, l>>} ELSE @, !.dev = @ \cup o.dev] : o \in outs}

RunRecv(c, t, tm) ==
    LET r == c.rt[t] l == r.cur IN
    IF ~Running(c, t) \/ r.pc # "got" THEN {}
    ELSE CASE r.rep.cls = "accept" -> (IF c.poisoned THEN {RunDies(c, t)} ELSE RunMoveAdd(c, t, l, "accepted", r.rep.slots))
           [] r.rep.cls = "reject" -> (IF c.poisoned THEN {RunDies(c, t)} ELSE RunMoveAdd(c, t, l, "invalid", 0))
           [] r.rep.cls = "sub_error" ->
                (IF c.poisoned THEN {RunDies(c, t)}
                 ELSE {SetSt(RunFail(c, t, r.rep.ts, tm.minb), t, "subscription_error")})
           [] r.rep.cls = "badsig" -> {[c EXCEPT !.rt[t].pc = "end_misb"]}
           [] r.rep.cls = "garbage" ->
                ({RunFail(c, t, r.rep.ts, tm.minb)}
                 \cup (IF Dev("S13") THEN {[c EXCEPT !.rt[t].pc = "loop", !.rt[t].cur = NoLoc, !.rt[t].rep = NoRep,
                                                      !.rt[t].nf = IF @ < 2 THEN @ + 1 ELSE @, !.dev = @ \cup {"S13"}]}
                       ELSE {}))
           [] r.rep.cls = "malsig" ->
                ({RunFail(c, t, r.rep.ts, tm.minb), [c EXCEPT !.rt[t].pc = "end_misb"]}
                 \cup (IF Dev("S14") THEN {[RunDies(c, t) EXCEPT !.dev = @ \cup {"S14"}]} ELSE {}))
           [] OTHER -> {}

\* ... second half: the pending reference goes (another transaction, same critical section)
RunMove(c, t) ==
    LET r == c.rt[t] IN
    IF ~Running(c, t) \/ r.pc # "got2" THEN {}
    ELSE {[c EXCEPT !.st = RemovePending(@, t, r.cur), !.rt[t].pc = "loop", !.rt[t].cur = NoLoc, !.rt[t].rep = NoRep,
                    !.moving = @ \ {<<t, r.cur>>}]}

\* BackoffWait: the sleep is over, next attempt
RunRetry(c, t) ==
    IF ~Running(c, t) \/ c.rt[t].pc # "fail" THEN {}
    ELSE {[c EXCEPT !.rt[t].pc = "begin", !.rt[t].nf = 0]}

\* the strategy is exhausted: idle, data only on disk, tower shown unreachable
GiveUp(c, t, tm) ==
    IF ~Running(c, t) \/ c.rt[t].pc # "fail" THEN {}
    ELSE IF c.poisoned THEN {RunDies(c, t)}
    ELSE {SetSt([c EXCEPT !.rt[t] = [RetAbsent EXCEPT !.s = "idle", !.nbf = c.rt[t].ft + tm.wake],
                          !.inmap[t] = "idle", !.ntask[t] = @ - 1],
                t, "unreachable")}

RunEnd(c, t) ==
    LET r == c.rt[t] done == [c EXCEPT !.ntask[t] = @ - 1] IN
    IF ~Running(c, t) \/ r.pc \notin {"end_ok", "end_sub", "end_misb", "end_gone"} THEN {}
    ELSE IF c.poisoned THEN {RunDies(c, t)}
    ELSE CASE r.pc = "end_ok" ->
                \* (a stopped retrier with nothing to do is forgotten by the manager: the same as none at all)
                {SetSt([done EXCEPT !.rt[t] = IF r.pend = {} THEN RetAbsent ELSE [RetAbsent EXCEPT !.s = "stopped", !.pend = r.pend],
                                    !.inmap[t] = "none"], t, "reachable")}
           [] r.pc = "end_sub" ->
                {SetSt([done EXCEPT !.rt[t] = [RetAbsent EXCEPT !.s = "failed"]], t, "subscription_error")}
           [] r.pc = "end_misb" ->
                (IF Known(c, t) /\ (HasRcpt(c.st.db, t, r.cur) \/ HasProof(c.st.db, t)) /\ Dev("S15p")
                 THEN {[RunDies(c, t) EXCEPT !.poisoned = TRUE, !.dev = @ \cup {"S15"}]} ELSE {})
                \cup {[done EXCEPT !.st = FlagO(c, t, r.cur).st, !.dev = @ \cup FlagO(c, t, r.cur).dev,
                                   !.rt[t] = [RetAbsent EXCEPT !.s = "failed"]]}
           [] r.pc = "end_gone" -> {[done EXCEPT !.rt[t] = [RetAbsent EXCEPT !.s = "failed"]]}

-----------------------------------------------------------------------------
(* The wire: a request reaches a tower, the tower answers                   *)

\* who may be the sender of a request (ep, l) that reaches tower t
SendSet(c, t, ep, l, seq, now) ==
    IF ~c.alive THEN {}
    ELSE IF ep = "add"
    THEN {NotifySend(c, n, t, seq) : n \in {x \in c.nots : x.l = l /\ NotifyCanSend(c, x, t)}}
         \cup (IF RunCanSendAdd(c, t, l, now) THEN {RunSendAdd(c, t, l, seq)} ELSE {})
    ELSE {RegSend(c, g, seq) : g \in {x \in c.regs : x.t = t /\ RegCanSend(c, x)}}
         \cup (IF RunCanSendReg(c, t, now) THEN {RunSendReg(c, t, seq)} ELSE {})

\* the tower answers the request seq with r (its sender may have been killed meanwhile: then nothing happens)
ReplySet(c, t, seq, r) ==
    LET A == {SetNot(c, n, [n EXCEPT !.pc = "got", !.rep = r, !.seq = 0]) : n \in {x \in c.nots : x.pc = "wait" /\ x.cur = t /\ x.seq = seq}}
             \cup {SetReg(c, g, [g EXCEPT !.pc = "got", !.rep = r, !.seq = 0]) : g \in {x \in c.regs : x.pc = "wait" /\ x.t = t /\ x.seq = seq}}
             \cup (IF Running(c, t) /\ c.rt[t].pc \in {"wait", "regwait"} /\ c.rt[t].seq = seq
                   THEN {[c EXCEPT !.rt[t].pc = IF @ = "wait" THEN "got" ELSE "reggot", !.rt[t].rep = r, !.rt[t].seq = 0]} ELSE {})
    IN IF A = {} THEN {c} ELSE A

-----------------------------------------------------------------------------
(* The user and the environment                                            *)

\* C13 ManualRetryGate: the documented answer of retrytower
RetryAnswer(c, t) ==
    IF ~Known(c, t) THEN "unknown"
    ELSE IF c.inmap[t] = "idle" THEN "ok"
    ELSE IF c.inmap[t] = "running" THEN "busy"
    ELSE IF Status(c, t) \in {"unreachable", "subscription_error"} THEN "ok"
    ELSE "badstatus"

\* {<<state, answer>>}
ManualRetry(c, t) ==
    IF ~c.alive \/ c.poisoned THEN {}
    ELSE LET a == RetryAnswer(c, t) IN
         {<<IF a # "ok" THEN c
            ELSE IF c.inmap[t] = "idle" THEN [c EXCEPT !.chan = @ \cup {[t |-> t, k |-> "none", ls |-> {}]}]
            ELSE [c EXCEPT !.chan = @ \cup {[t |-> t, k |-> "stale", ls |-> Mem(c.st, t).pending]}], a>>}

Abandon(c, t) ==
    IF ~c.alive \/ c.poisoned THEN {}
    ELSE IF ~Known(c, t) THEN {<<c, "unknown">>}
    ELSE {<<[c EXCEPT !.st = s2, !.done = {x \in @ : x[1] # t}, !.moving = {x \in @ : x[1] # t}], "ok">> :
            s2 \in RemoveTowerSuccessors(c.st, t)}

SetUp(c, t, b) == [c EXCEPT !.up[t] = b]

\* SIGKILL: everything that is not on disk is gone (transactions are atomic: every step above has at most one)
Kill(c) ==
    [c EXCEPT !.st.mem = {}, !.rt = [t \in Towers |-> RetAbsent], !.inmap = [t \in Towers |-> "none"], !.chan = {},
              !.nots = {}, !.regs = {}, !.rpc = {}, !.alive = FALSE, !.poisoned = FALSE, !.mgr = FALSE, !.mgrN = 0,
              !.ntask = [t \in Towers |-> 0]]

\* start: summaries rebuilt from disk; the retriers of the towers with pending data are told
Restart(c) ==
    LET st2 == Reload(c.st) IN
    [c EXCEPT !.st = st2, !.alive = TRUE, !.mgr = TRUE,
              !.chan = {[t |-> m.t, k |-> "stale", ls |-> m.pending] : m \in StaleOnReload(c.st)}]

-----------------------------------------------------------------------------
(* Hidden steps of the client (everything the rig cannot see directly)     *)

Hidden(c, tm) ==
    IF ~c.alive THEN {}
    ELSE UNION {NotifySnap(c, n) : n \in {x \in c.nots : x.pc = "new"}}
         \cup UNION {NotifyLocal(c, n) : n \in c.nots}
         \cup UNION {NotifyRecv(c, n) : n \in c.nots}
         \cup UNION {RegRefused(c, g) : g \in c.regs}
         \cup UNION {RegRecv(c, g) : g \in c.regs}
         \cup MgrDrain(c, tm)
         \cup UNION {MgrDrop(c, t) \cup MgrStart(c, t, tm) \cup MgrWake(c, t, tm) \cup RunBegin(c, t) \cup RunLocal(c, t)
                     \cup RunPick(c, t)
                     \cup RunRegRecv(c, t, tm) \cup RunRecv(c, t, tm) \cup RunMove(c, t) \cup RunRetry(c, t)
                     \cup GiveUp(c, t, tm) \cup RunEnd(c, t) : t \in Towers}

-----------------------------------------------------------------------------
(* The properties as predicates on a state                                 *)

Healthy(db, t) == t \in {r.t : r \in db.towers} /\ ~HasProof(db, t)

\* C05
NeverLost(c) == \A x \in c.done : Healthy(c.st.db, x[1]) => Kinds(c.st.db, x[1], x[2]) # {}
ExactlyOne(c) == \A t \in Towers, l \in Locators :
                    (Healthy(c.st.db, t) /\ <<t, l>> \notin c.moving) => Cardinality(Kinds(c.st.db, t, l)) <= 1
DataForResend(c) == \A r \in c.st.db.pend \cup c.st.db.inv : r.l \in c.st.db.bodies

\* C13
OneLoop(c) == \A t \in Towers : c.ntask[t] <= 1
NoFlood(c) == \A t \in Towers : c.rt[t].nf <= 1
EndsUnreachable(c) == \A t \in Towers :
                         (c.alive /\ c.rt[t].s = "idle" /\ Known(c, t) /\ ~c.poisoned) =>
                            \* GiveUp leaves it "unreachable"; handlers that were in flight may still report what they
                            \* saw (no connection, subscription error), nobody reports it reachable
                            /\ Status(c, t) # "reachable"
                            /\ c.inmap[t] = "idle" /\ c.rt[t].pend = {}
\* retriers known to the handlers are those of the manager
MapSound(c) == \A t \in Towers :
                  (c.alive /\ ~c.poisoned) =>
                     /\ (c.inmap[t] = "idle") = (c.rt[t].s = "idle")
                     /\ (c.inmap[t] = "running") = (c.rt[t].s \in {"running", "failed"})
\* C14
BadSig(c) == c.sentMis = {}
Misbehaving(c) == \A m \in c.st.mem : (m.status = "misbehaving") <=> HasProof(c.st.db, m.t)
Survives(c) == c.died = 0 /\ ~c.poisoned
=============================================================================
