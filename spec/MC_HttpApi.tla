----------------------------- MODULE MC_HttpApi -----------------------------
(***************************************************************************)
(* Enumeration of the abstract request space of HttpApi.tla (C15): every   *)
(* abstract request is an initial state; the obligations on the decision   *)
(* table are invariants; with Emit, one CASE line (JSON) per abstract       *)
(* request carries the allowed outcome set and the documented reply shape. *)
(* lib/c15.py concretises every case several times, harness/api_rig sends   *)
(* the bytes to the real router and the observation is compared with the    *)
(* allowed set of the case.                                                 *)
(***************************************************************************)
EXTENDS HttpApi, Json

CONSTANTS Emit,        \* TRUE: print META and CASE lines
          Families     \* which families to enumerate

VARIABLE req

Init == req \in {r \in Domain : r.fam \in Families}
Next == UNCHANGED req
Spec == Init /\ [][Next]_req

TypeOK == /\ req.path \in Paths /\ req.method \in Methods /\ req.size \in SizeClasses
          /\ req.node \in {"up", "down"} /\ DOMAIN req.fc = AllFields
          /\ req.ctype \in CtypeClasses \cup {"json"}

TableTotal == Total(req)
TableNever5xx == Never5xx(req)
TableNeverUnexpected == NeverUnexpected(req)
TableJsonErrorBody == JsonErrorBody(req)
TableOkOnlyIfValid == OkOnlyIfValid(req)
TableDefectsRefused == DefectsRefused(req)
TableUnavailable == UnavailableOnlyWhenDown(req) /\ DownMeansUnavailable(req)

Meta == [limits |-> Limit, prompt_ms |-> PromptMs, documented_codes |-> DocumentedCodes,
         fields |-> [ep \in Endpoints |-> FieldsOf(ep)], inner |-> Inner, kinds |-> Kind]

ASSUME Emit => PrintT(<<"META", ToJson(Meta)>>)

EmitInv ==
    Emit => PrintT(<<"CASE", ToJson([fam |-> req.fam, method |-> req.method, path |-> req.path, size |-> req.size,
                                     body |-> req.body, fc |-> req.fc, signer |-> req.signer, loc |-> req.loc,
                                     node |-> req.node, ctype |-> req.ctype, addressed |-> Addressed(req), allowed |-> Allowed(req),
                                     reply_keys |-> ReplyKeys(req), reply_inner |-> ReplyInner(req),
                                     reply_status |-> ReplyStatus(req)])>>)
=============================================================================
