CONSTANTS
  Towers = {"t1", "t2"}
  Locators = {"l1", "l2", "l3", "l4"}
  DEVIATIONS = {"S19", "S20"}
  MINB = 240
  SLACK = 2500
  PROC = 3000
  CAP = 5000
SPECIFICATION Spec
CHECK_DEADLOCK FALSE
