CONSTANTS
  Towers = {"t1", "t2"}
  Locators = {"l1", "l2", "l3", "l4"}
  DEVIATIONS = {"S12", "S13", "S14", "S15", "S16", "S18", "S19"}
  MINB = 240
  SLACK = 2500
  CAP = 5000
SPECIFICATION Spec
CHECK_DEADLOCK FALSE
