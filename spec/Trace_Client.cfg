CONSTANTS
  Towers = {"t1", "t2"}
  Locators = {"l1", "l2", "l3", "l4"}
  DEVIATIONS = {"S15", "S18", "S19", "S20", "S21", "S22"}
  MINB = 240
  SLACK = 2500
  CAP = 5000
SPECIFICATION Spec
CHECK_DEADLOCK FALSE
