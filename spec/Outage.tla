------------------------------- MODULE Outage -------------------------------
(***************************************************************************)
(* The reachability protocol between the Carrier (teos/src/carrier.rs),    *)
(* the ChainMonitor (chain_monitor.rs) and the public API (C12), at the    *)
(* granularity of lock acquisitions and waits.                             *)
(*                                                                         *)
(* Threads: A = an API thread answering a late appointment (holds the      *)
(* locator-cache lock K while the Responder talks to the node); M = the    *)
(* chain-monitor thread (polls; for every new block the Watcher needs K    *)
(* and may have to submit a penalty).  flag = bitcoind_reachable: cleared  *)
(* by whoever sees a transport error (Carrier) or a failed poll (M), set   *)
(* at the end of a successful poll.  Before every node RPC the Carrier     *)
(* waits while the flag is down.                                           *)
(*                                                                         *)
(* SelfProbe = TRUE: a waiting Carrier checks by itself, every now and     *)
(* then, whether the node is back and then raises the flag (the code after *)
(* the C12 repair).  SelfProbe = FALSE is the protocol before the repair:  *)
(* TLC then finds the threads blocked for ever (M waiting for a flag only  *)
(* M can raise; A waiting while holding K that M needs to finish its poll).*)
(***************************************************************************)
EXTENDS Naturals

CONSTANTS SelfProbe, MaxBlocks

VARIABLES nodeUp, flag, kHolder,   \* "none" | "A" | "M"
          a,                       \* A: "idle" | "rpc" (holding K, about to call) | "wait" (holding K, flag down) | "done"
          m,                       \* M: "idle" | "wantK" | "rpc" | "wait" | "endpoll"
          pending,                 \* blocks mined and not yet processed by the tower
          mined, downs, submitted  \* counters: blocks mined, outages left, penalties submitted by <<A, M>>

vars == <<nodeUp, flag, kHolder, a, m, pending, mined, downs, submitted>>

Init ==
    /\ nodeUp = TRUE /\ flag = TRUE /\ kHolder = "none" /\ a = "idle" /\ m = "idle"
    /\ pending = 0 /\ mined = 0 /\ downs = 2 /\ submitted = <<0, 0>>

\* ---- environment
NodeDown == nodeUp /\ downs > 0 /\ nodeUp' = FALSE /\ downs' = downs - 1 /\ UNCHANGED <<flag, kHolder, a, m, pending, mined, submitted>>
NodeUp == ~nodeUp /\ nodeUp' = TRUE /\ UNCHANGED <<flag, kHolder, a, m, pending, mined, downs, submitted>>
Mine == nodeUp /\ mined < MaxBlocks /\ mined' = mined + 1 /\ pending' = pending + 1
        /\ UNCHANGED <<nodeUp, flag, kHolder, a, m, downs, submitted>>

\* ---- API thread: add_appointment whose dispute is in the cache
AStart == a = "idle" /\ flag /\ kHolder = "none" /\ kHolder' = "A" /\ a' = "rpc"
          /\ UNCHANGED <<nodeUp, flag, m, pending, mined, downs, submitted>>
ARpc ==
    /\ a = "rpc"
    /\ IF ~flag THEN a' = "wait" /\ UNCHANGED <<flag, kHolder, submitted>>            \* hang_until_bitcoind_reachable
       ELSE IF nodeUp THEN a' = "done" /\ kHolder' = "none" /\ submitted' = <<submitted[1] + 1, submitted[2]>> /\ UNCHANGED flag
       ELSE a' = "wait" /\ flag' = FALSE /\ UNCHANGED <<kHolder, submitted>>          \* transport error: flag down, retry
    /\ UNCHANGED <<nodeUp, m, pending, mined, downs>>
AWake == a = "wait" /\ flag /\ a' = "rpc" /\ UNCHANGED <<nodeUp, flag, kHolder, m, pending, mined, downs, submitted>>
AProbe == SelfProbe /\ a = "wait" /\ ~flag /\ nodeUp /\ flag' = TRUE /\ a' = "rpc"
          /\ UNCHANGED <<nodeUp, kHolder, m, pending, mined, downs, submitted>>

\* ---- chain monitor thread
MPoll ==
    /\ m = "idle"
    /\ IF ~nodeUp THEN flag' = FALSE /\ m' = "idle"                                  \* transient error
       ELSE IF pending = 0 THEN flag' = TRUE /\ m' = "idle"                            \* common tip: reachable, notify
       ELSE m' = "wantK" /\ UNCHANGED flag
    /\ UNCHANGED <<nodeUp, kHolder, a, pending, mined, downs, submitted>>
MTakeK == m = "wantK" /\ kHolder = "none" /\ kHolder' = "M" /\ m' = "rpc"
          /\ UNCHANGED <<nodeUp, flag, a, pending, mined, downs, submitted>>
MRpc ==
    /\ m = "rpc"
    /\ IF ~flag THEN m' = "wait" /\ UNCHANGED <<flag, kHolder, pending, submitted>>
       ELSE IF nodeUp THEN /\ kHolder' = "none" /\ pending' = pending - 1 /\ submitted' = <<submitted[1], submitted[2] + 1>>
                           /\ m' = IF pending = 1 THEN "endpoll" ELSE "wantK"
                           /\ UNCHANGED flag
       ELSE m' = "wait" /\ flag' = FALSE /\ UNCHANGED <<kHolder, pending, submitted>>
    /\ UNCHANGED <<nodeUp, a, mined, downs>>
MWake == m = "wait" /\ flag /\ m' = "rpc" /\ UNCHANGED <<nodeUp, flag, kHolder, a, pending, mined, downs, submitted>>
MProbe == SelfProbe /\ m = "wait" /\ ~flag /\ nodeUp /\ flag' = TRUE /\ m' = "rpc"
          /\ UNCHANGED <<nodeUp, kHolder, a, pending, mined, downs, submitted>>
MEnd == m = "endpoll" /\ flag' = TRUE /\ m' = "idle" /\ UNCHANGED <<nodeUp, kHolder, a, pending, mined, downs, submitted>>

\* quiescence: everything answered, nothing left to do (explicit stuttering so that TLC's deadlock check means "stuck")
Quiet == /\ a \in {"idle", "done"} /\ m = "idle" /\ pending = 0 /\ nodeUp /\ flag /\ mined = MaxBlocks
         /\ UNCHANGED vars

Tower == AStart \/ ARpc \/ AWake \/ AProbe \/ MPoll \/ MTakeK \/ MRpc \/ MWake \/ MProbe \/ MEnd
Next == NodeDown \/ NodeUp \/ Mine \/ Tower \/ Quiet

Spec == Init /\ [][Next]_vars /\ WF_vars(Tower) /\ WF_vars(NodeUp) /\ WF_vars(Mine)

\* ---- properties
TypeOK == kHolder \in {"none", "A", "M"} /\ pending <= MaxBlocks
\* the public API refuses new work exactly while the flag is down (AStart is guarded by flag): by construction
\* NoDrop: an interrupted submission is never abandoned: a thread leaves "rpc"/"wait" only by submitting
NoDrop == (a = "done" => submitted[1] = 1) /\ submitted[2] = mined - pending
\* Recovers: once the node stays reachable, every thread gets unblocked, the flag is raised and the backlog is processed
Stuck == a = "wait" \/ m \in {"wait", "wantK", "rpc", "endpoll"} \/ ~flag \/ pending > 0
Recovers == <>[](nodeUp) => <>[](~Stuck \/ ENABLED Tower)
RecoversStrong == [](nodeUp /\ downs = 0 => <>(flag /\ a # "wait" /\ m # "wait"))
=============================================================================
