//! tower-rig: the real Watcher / Responder / Gatekeeper / Carrier / ChainMonitor / InternalAPI built in-process over an
//! on-disk SQLite file and the simulated bitcoind, mirroring teos/src/main.rs step by step, with one trace event per
//! specification action (DESIGN.md section 4.1).

use std::collections::HashMap;
use std::panic::{catch_unwind, AssertUnwindSafe};
use std::path::PathBuf;
use std::sync::{Arc, Mutex};

use teos::verif_sync::{Condvar as TCondvar, Mutex as TMutex};

use bitcoin::block::Block;
use bitcoin::consensus;
use bitcoin::hashes::Hash;
use bitcoin::secp256k1::{PublicKey, Secp256k1, SecretKey};
use bitcoin::{BlockHash, Network, Transaction, Txid};
use lightning::chain;
use lightning_block_sync::poll::{ChainPoller, Poll, Validate, ValidatedBlock, ValidatedBlockHeader};
use lightning_block_sync::{BlockSource, SpvClient, UnboundedCache};
use serde_json::{json, Value};
use tonic::{Code, Request};

use teos::api::internal::InternalAPI;
use teos::carrier::Carrier;
use teos::chain_monitor::ChainMonitor;
use teos::dbm::DBM;
use teos::gatekeeper::Gatekeeper;
use teos::protos as msgs;
use teos::protos::private_tower_services_server::PrivateTowerServices;
use teos::protos::public_tower_services_server::PublicTowerServices;
use teos::responder::{ConfirmationStatus, Responder};
use teos::watcher::Watcher;
use teos_common::appointment::Locator;
use teos_common::cryptography;
use teos_common::protos as common_msgs;
use teos_common::receipts::{AppointmentReceipt, RegistrationReceipt};
use teos_common::{TowerId, UserId};

use crate::chain::{spend_tx, unique_tx};
use crate::simnode::{rpc_client, Node, SimSource};
use crate::trace::TraceWriter;

// ---------------------------------------------------------------------------------------------------
// panic capture: a panic in the code under test is data

pub static LAST_PANIC: std::sync::Mutex<Option<(String, u32, String)>> = std::sync::Mutex::new(None);

pub fn install_panic_hook() {
    std::panic::set_hook(Box::new(|info| {
        let (file, line) = info
            .location()
            .map(|l| (l.file().to_string(), l.line()))
            .unwrap_or(("?".into(), 0));
        let msg = if let Some(s) = info.payload().downcast_ref::<&str>() {
            s.to_string()
        } else if let Some(s) = info.payload().downcast_ref::<String>() {
            s.clone()
        } else {
            "?".to_string()
        };
        if let Ok(mut g) = LAST_PANIC.lock() {
            // keep the FIRST panic of an action (later ones are poisoned-mutex echoes)
            if g.is_none() {
                *g = Some((file, line, msg));
            }
        }
    }));
}

/// file.rs:kind - stable across line-number changes
pub fn take_abort_class() -> (String, String) {
    let p = LAST_PANIC.lock().unwrap().take();
    match p {
        None => ("?:panic".into(), "?".into()),
        Some((file, line, msg)) => {
            let base = file.rsplit('/').next().unwrap_or("?").to_string();
            if msg.starts_with(teos_common::verif::CRASH_MSG) {
                return ("crash".into(), msg);
            }
            let kind = if msg.contains("called `Option::unwrap()` on a `None` value") {
                "unwrap_none".to_string()
            } else if let Some(i) = msg.find("on an `Err` value: ") {
                let rest = &msg[i + "on an `Err` value: ".len()..];
                let ident: String = rest.chars().take_while(|c| c.is_alphanumeric() || *c == '_').collect();
                format!("unwrap_err:{ident}")
            } else if msg.contains("attempt to") && msg.contains("overflow") {
                "overflow".to_string()
            } else {
                "panic".to_string()
            };
            (format!("{base}:{kind}"), format!("{file}:{line}: {}", msg.chars().take(160).collect::<String>()))
        }
    }
}

// ---------------------------------------------------------------------------------------------------
// symbol tables: concrete keys / transactions / blocks <-> small integers

#[derive(Clone, Copy, Debug)]
pub struct Cfg {
    /// slot counts are logged divided by this (1 normally; 2^20 for the slot-overflow scenarios, where every balance
    /// is a multiple of it, because TLC integers are 32-bit signed)
    pub scale: u32,
    pub slots: u32,
    pub duration: u32,
    pub grace: u32,
    pub cache_n: usize,
    pub idx_n: usize,
}

pub struct Sym {
    pub users: Vec<(SecretKey, PublicKey)>,
    pub user_sym: HashMap<Vec<u8>, i64>,
    pub tx_sym: HashMap<Txid, i64>,
    pub tx_by_sym: HashMap<i64, Transaction>,
    pub loc_sym: HashMap<Vec<u8>, i64>,
    pub block_sym: HashMap<BlockHash, i64>,
    pub blobs: HashMap<Vec<u8>, (i64, i64)>,
    pub sigs: HashMap<String, i64>,
    pub garbled: i64,
}

pub const MAX_DISPUTES: i64 = 60;

impl Sym {
    pub fn new() -> Self {
        let secp = Secp256k1::new();
        let mut users = Vec::new();
        let mut user_sym = HashMap::new();
        for i in 1..=8u8 {
            // user 2's key is the negation of user 1's: same x coordinate, other parity byte (two distinct users whose
            // identifiers differ in one byte only; seeded change c06c-1)
            let sk = if i == 2 { SecretKey::from_slice(&[1u8; 32]).unwrap().negate() } else { SecretKey::from_slice(&[i; 32]).unwrap() };
            let pk = PublicKey::from_secret_key(&secp, &sk);
            user_sym.insert(pk.serialize().to_vec(), i as i64);
            users.push((sk, pk));
        }
        Sym {
            users,
            user_sym,
            tx_sym: HashMap::new(),
            tx_by_sym: HashMap::new(),
            loc_sym: HashMap::new(),
            block_sym: HashMap::new(),
            blobs: HashMap::new(),
            sigs: HashMap::new(),
            garbled: 0,
        }
    }

    pub fn user(&self, u: i64) -> &(SecretKey, PublicKey) {
        &self.users[(u - 1) as usize]
    }

    fn intern(&mut self, s: i64, tx: Transaction) -> Transaction {
        let txid = tx.compute_txid();
        self.tx_sym.insert(txid, s);
        self.loc_sym.insert(Locator::new(txid).to_vec(), s);
        self.tx_by_sym.insert(s, tx.clone());
        tx
    }

    /// Transaction with symbolic id `s`: 10*i = dispute i; 10*i+v (v in 1..=9) = penalty variant v spending dispute i.
    /// Variants 2..=5 are padded so that the encrypted blob is exactly 2048 / 2049 / 4096 / 4097 bytes long.
    pub fn tx(&mut self, s: i64) -> Transaction {
        if let Some(t) = self.tx_by_sym.get(&s) {
            return t.clone();
        }
        let i = s / 10;
        let v = s % 10;
        if v == 0 {
            let t = unique_tx(0xd1, i as u64);
            return self.intern(s, t);
        }
        let d = self.tx(10 * i);
        let target = match v {
            2 => Some(2048usize),
            3 => Some(2049),
            4 => Some(4096),
            5 => Some(4097),
            _ => None,
        };
        let t = match target {
            None => spend_tx(&d, v as u64, 0),
            Some(target) => {
                let mut found = None;
                for pad in (target.saturating_sub(400))..target {
                    let t = spend_tx(&d, v as u64, pad);
                    if consensus::serialize(&t).len() + 16 == target {
                        found = Some(t);
                        break;
                    }
                }
                found.expect("cannot pad penalty to the target size")
            }
        };
        self.intern(s, t)
    }

    pub fn sym_of_txid(&self, txid: &Txid) -> i64 {
        *self.tx_sym.get(txid).unwrap_or(&-1)
    }

    pub fn block(&mut self, h: &BlockHash) -> i64 {
        let n = self.block_sym.len() as i64 + 1;
        *self.block_sym.entry(*h).or_insert(n)
    }

    /// the non-filler transactions of a block, as symbols
    pub fn block_keys(&self, b: &Block) -> Vec<i64> {
        let mut v: Vec<i64> = b.txdata.iter().filter_map(|t| self.tx_sym.get(&t.compute_txid()).cloned()).collect();
        v.sort();
        v
    }

    pub fn ver_of(&mut self, sig: &str) -> i64 {
        let n = self.sigs.len() as i64 + 1;
        *self.sigs.entry(sig.to_string()).or_insert(n)
    }
}

// ---------------------------------------------------------------------------------------------------
// recorder: projection of the abstract state + event emission

pub struct Comps {
    pub gatekeeper: Arc<Gatekeeper>,
    pub watcher: Arc<Watcher>,
    pub responder: Arc<Responder>,
    pub reachable: Arc<(TMutex<bool>, TCondvar)>,
}

pub struct Recorder {
    pub tw: TraceWriter,
    pub sym: Sym,
    pub node: Node,
    pub db_path: PathBuf,
    pub comps: Option<Comps>,
    pub rpc_mark: usize,
    pub last_mem: Value,
    pub rdb: Option<rusqlite::Connection>,
    /// the tip the tower's SpvClient is synchronised to (tracked from the observed connect / disconnect calls)
    pub spv_tip: Option<BlockHash>,
    /// UUID -> (user, locator) for every appointment row ever seen (rows may be gone when a UUID is still referenced)
    pub uuid_map: HashMap<Vec<u8>, (i64, i64)>,
    /// an abort of this poll was already reported by one of the observing listeners
    pub abort_reported: bool,
    pub scale: i64,
    /// class of the last abort recorded ("" if none since it was last cleared)
    pub last_abort: String,
    /// durable part of the last projection
    pub last_db: Value,
    /// while a tower thread may be blocked inside the code under test the snapshot hooks (which take the same locks) are
    /// not used: the last memory snapshot is reported, with the reachability flag read directly
    pub frozen: bool,
    /// attribute the node RPCs of this thread to the next event (a joined asynchronous call)
    pub rpc_thread: Option<std::thread::ThreadId>,
    /// during a scheduled concurrent run the observing listeners only collect the chain events
    pub quiet: bool,
    pub conc_chain: Vec<Value>,
}

pub type Rec = Arc<Mutex<Recorder>>;

fn status_row(s: &ConfirmationStatus) -> (String, i64) {
    match s {
        ConfirmationStatus::InMempoolSince(h) => ("ok".into(), *h as i64),
        ConfirmationStatus::ConfirmedIn(h) => ("conf".into(), *h as i64),
        ConfirmationStatus::IrrevocablyResolved => ("res".into(), 0),
        ConfirmationStatus::Rejected(_) => ("rej".into(), 0),
    }
}

impl Recorder {
    fn rdb(&mut self) -> &rusqlite::Connection {
        if self.rdb.is_none() {
            let c = rusqlite::Connection::open_with_flags(
                &self.db_path,
                rusqlite::OpenFlags::SQLITE_OPEN_READ_ONLY | rusqlite::OpenFlags::SQLITE_OPEN_NO_MUTEX,
            )
            .expect("cannot open the tower database read-only");
            self.rdb = Some(c);
        }
        self.rdb.as_ref().unwrap()
    }

    /// rows of the durable tables mapped to symbols
    pub fn project_db(&mut self) -> Value {
        let mut users: Vec<Vec<i64>> = Vec::new();
        let mut appts: Vec<Vec<i64>> = Vec::new();
        let mut trackers: Vec<Vec<i64>> = Vec::new();
        let mut last_known: i64 = 0;
        let mut last_known_hash: Option<BlockHash> = None;
        let by_uuid_out: HashMap<Vec<u8>, (i64, i64)>;
        {
            let sym_users = self.sym.user_sym.clone();
            let loc_sym = self.sym.loc_sym.clone();
            let blobs = self.sym.blobs.clone();
            let sigs = self.sym.sigs.clone();
            let tx_sym = self.sym.tx_sym.clone();
            let block_sym = self.sym.block_sym.clone();
            let scale = self.scale;
            let db = self.rdb();
            let us = |raw: &Vec<u8>| *sym_users.get(raw).unwrap_or(&-1);
            {
                let mut st = db.prepare("SELECT user_id, available_slots, subscription_start, subscription_expiry FROM users").unwrap();
                let mut rows = st.query([]).unwrap();
                while let Ok(Some(r)) = rows.next() {
                    let id: Vec<u8> = r.get(0).unwrap();
                    users.push(vec![us(&id), r.get::<_, i64>(1).unwrap() / scale, r.get::<_, i64>(2).unwrap(), r.get::<_, i64>(3).unwrap()]);
                }
            }
            // UUID -> (user, locator) through the appointments table
            let mut by_uuid: HashMap<Vec<u8>, (i64, i64)> = HashMap::new();
            {
                let mut st = db
                    .prepare("SELECT UUID, locator, encrypted_blob, to_self_delay, user_signature, start_block, user_id FROM appointments")
                    .unwrap();
                let mut rows = st.query([]).unwrap();
                while let Ok(Some(r)) = rows.next() {
                    let uuid: Vec<u8> = r.get(0).unwrap();
                    let loc: Vec<u8> = r.get(1).unwrap();
                    let blob: Vec<u8> = r.get(2).unwrap();
                    let tsd: i64 = r.get(3).unwrap();
                    let sig: String = r.get(4).unwrap_or_else(|_| {
                        let b: Vec<u8> = r.get(4).unwrap_or_default();
                        String::from_utf8_lossy(&b).to_string()
                    });
                    let start: i64 = r.get(5).unwrap();
                    let uid: Vec<u8> = r.get(6).unwrap();
                    let u = us(&uid);
                    let l = *loc_sym.get(&loc).unwrap_or(&-1);
                    let (key, pay) = *blobs.get(&blob).unwrap_or(&(-999, -999));
                    let ver = *sigs.get(&sig).unwrap_or(&-1);
                    by_uuid.insert(uuid, (u, l));
                    appts.push(vec![u, l, key, pay, blob.len() as i64, tsd, ver, start]);
                }
            }
            {
                let mut st = db.prepare("SELECT UUID, dispute_tx, penalty_tx, height, confirmed FROM trackers").unwrap();
                let mut rows = st.query([]).unwrap();
                while let Ok(Some(r)) = rows.next() {
                    let uuid: Vec<u8> = r.get(0).unwrap();
                    let d: Vec<u8> = r.get(1).unwrap();
                    let p: Vec<u8> = r.get(2).unwrap();
                    let h: i64 = r.get(3).unwrap();
                    let c: bool = r.get(4).unwrap();
                    let ds = consensus::deserialize::<Transaction>(&d).map(|t| *tx_sym.get(&t.compute_txid()).unwrap_or(&-1)).unwrap_or(-1);
                    let ps = consensus::deserialize::<Transaction>(&p).map(|t| *tx_sym.get(&t.compute_txid()).unwrap_or(&-1)).unwrap_or(-1);
                    let (u, l) = *by_uuid.get(&uuid).unwrap_or(&(-1, -1));
                    trackers.push(vec![u, l, ds, ps, h, c as i64]);
                }
            }
            by_uuid_out = by_uuid.clone();
            {
                let mut st = db.prepare("SELECT block_hash FROM last_known_block WHERE id=0").unwrap();
                if let Ok(raw) = st.query_row([], |r| r.get::<_, Vec<u8>>(0)) {
                    if let Ok(bh) = BlockHash::from_slice(&raw) {
                        last_known = *block_sym.get(&bh).unwrap_or(&-1);
                        last_known_hash = Some(bh);
                    }
                }
            }
        }
        users.sort();
        appts.sort();
        trackers.sort();
        for (k, v) in by_uuid_out {
            self.uuid_map.insert(k, v);
        }
        if let Some(h) = last_known_hash {
            last_known = self.sym.block(&h);
        }
        // block ids are assigned in order of first sight and differ between runs: the height identifies the block on the active chain
        let last_known_h: i64 = last_known_hash
            .and_then(|h| self.node.lock().unwrap().known.get(&h).map(|(_, x)| *x as i64))
            .unwrap_or(0);
        json!({"users": users, "appts": appts, "trackers": trackers, "lastKnown": last_known, "lastKnownH": last_known_h})
    }

    /// in-memory copies through the verif hooks; falls back to the last snapshot when a mutex is poisoned
    pub fn project_mem(&mut self) -> Value {
        let comps = match &self.comps {
            Some(c) => c,
            None => return self.last_mem.clone(),
        };
        if self.frozen {
            let mut v = self.last_mem.clone();
            // the flag mutex is only ever held for an instant (waiters release it inside the condition variable)
            if let Ok(g) = comps.reachable.0.lock() {
                v["reachable"] = json!(*g);
            }
            self.last_mem = v.clone();
            return v;
        }
        let sym = &self.sym;
        let scale = self.scale;
        let r = catch_unwind(AssertUnwindSafe(|| {
            let (gk_h, gk_users) = comps.gatekeeper.verif_state();
            let mut gk: Vec<Vec<i64>> = gk_users
                .iter()
                .map(|(id, s, st, e)| vec![*sym.user_sym.get(&id.to_vec()).unwrap_or(&-1), *s as i64 / scale, *st as i64, *e as i64])
                .collect();
            gk.sort();
            let (cache, w_h) = comps.watcher.verif_state();
            // the cache maps locators to transactions; report (tx, block holding it) for the known transactions
            let rs = comps.responder.verif_state();
            let mut index: Vec<Vec<i64>> = rs
                .index
                .iter()
                .filter_map(|(txid, bh, h)| {
                    sym.tx_sym.get(txid).map(|s| vec![*s, *sym.block_sym.get(bh).unwrap_or(&-1), h.map(|x| x as i64).unwrap_or(0)])
                })
                .collect();
            index.sort();
            let mut cache_rows: Vec<Vec<i64>> = cache
                .iter()
                .filter_map(|(loc, txid)| {
                    let by_loc = sym.loc_sym.get(&loc.to_vec());
                    by_loc.map(|s| vec![*s, if sym.tx_sym.get(txid) == Some(s) { 1 } else { 0 }])
                })
                .collect();
            cache_rows.sort();
            let mut memo: Vec<Value> = rs
                .carrier_receipts
                .iter()
                .map(|(txid, st)| {
                    let (v, h) = status_row(st);
                    json!([sym.sym_of_txid(txid), v, h])
                })
                .collect();
            memo.sort_by_key(|v| v[0].as_i64());
            let reachable = *comps.reachable.0.lock().unwrap();
            (gk_h, gk, w_h, cache_rows, index, rs.reorged.clone(), rs.carrier_height, memo, reachable)
        }));
        match r {
            Ok((gk_h, gk, w_h, cache_rows, index, reorged_raw, c_h, memo, reachable)) => {
                // reorged uuids -> (u,l) through the map of every appointment row seen so far
                let mut reorged: Vec<Vec<i64>> = reorged_raw
                    .iter()
                    .map(|uuid| {
                        let (u, l) = *self.uuid_map.get(uuid).unwrap_or(&(-1, -1));
                        vec![u, l]
                    })
                    .collect();
                reorged.sort();
                let v = json!({"gk": gk, "gkH": gk_h, "wH": w_h, "cH": c_h, "cache": cache_rows, "index": index,
                               "reorged": reorged, "memo": memo, "reachable": reachable});
                self.last_mem = v.clone();
                v
            }
            Err(_) => {
                let _ = LAST_PANIC.lock().map(|mut g| g.take());
                self.last_mem.clone()
            }
        }
    }

    /// The node RPCs made by thread `tid` (default: the calling thread) that were not yet attributed to an event.
    pub fn rpc_delta(&mut self, tid: Option<std::thread::ThreadId>) -> Vec<Value> {
        let tid = tid.unwrap_or_else(|| std::thread::current().id());
        let mut node = self.node.lock().unwrap();
        let mut out = Vec::new();
        for e in node.rpc_log.iter_mut() {
            if !e.taken && e.tid == tid {
                e.taken = true;
                out.push(json!([e.method, self.sym.sym_of_txid(&e.txid), e.verdict]));
            }
        }
        out
    }

    /// Emits one event: `fields` must contain "act" and the action's arguments / reply.
    pub fn emit(&mut self, mut fields: Value, abort: &str) {
        let db = self.project_db();
        self.last_db = db.clone();
        if !abort.is_empty() {
            self.last_abort = abort.to_string();
        }
        let mem = self.project_mem();
        let mut post = db;
        for (k, v) in mem.as_object().unwrap() {
            post[k] = v.clone();
        }
        let tid = self.rpc_thread.take();
        fields["rpc"] = Value::Array(self.rpc_delta(tid));
        fields["abort"] = json!(abort);
        fields["frozen"] = json!(self.frozen);
        fields["post"] = post;
        self.tw.emit(&fields);
    }

    pub fn emit_plain(&mut self, fields: Value) {
        self.tw.emit(&fields);
    }

    pub fn blk_json(&mut self, b: &Block, h: u32) -> Value {
        let id = self.sym.block(&b.block_hash());
        json!({"id": id, "h": h, "keys": self.sym.block_keys(b)})
    }
}

// ---------------------------------------------------------------------------------------------------
// observing listeners: one event per chain::Listen call of each component, in main.rs' order

/// listener calls started / completed during a scheduled concurrent run (real-time order of the operations against the
/// critical sections of the chain event: an operation invoked after k listener calls had returned is linearized after them)
pub static CONC_STARTED: std::sync::atomic::AtomicUsize = std::sync::atomic::AtomicUsize::new(0);
pub static CONC_DONE: std::sync::atomic::AtomicUsize = std::sync::atomic::AtomicUsize::new(0);
/// invocation / return order of the operations among themselves
pub static CONC_CLOCK: std::sync::atomic::AtomicUsize = std::sync::atomic::AtomicUsize::new(0);

pub struct Obs<L: chain::Listen> {
    pub inner: Arc<L>,
    pub name: &'static str,
    pub rec: Rec,
}

impl<L: chain::Listen> chain::Listen for Obs<L> {
    fn filtered_block_connected(&self, header: &bitcoin::block::Header, txdata: &chain::transaction::TransactionData, height: u32) {
        if self.rec.lock().unwrap().quiet {
            if self.name == "Gk" {
                let mut rec = self.rec.lock().unwrap();
                let block = { rec.node.lock().unwrap().known.get(&header.block_hash()).map(|(b, _)| b.clone()) };
                if let Some(b) = block {
                    let blk = rec.blk_json(&b, height);
                    rec.conc_chain.push(json!(["conn", blk]));
                }
            }
            CONC_STARTED.fetch_add(1, std::sync::atomic::Ordering::SeqCst);
            self.inner.filtered_block_connected(header, txdata, height);
            CONC_DONE.fetch_add(1, std::sync::atomic::Ordering::SeqCst);
            if self.name == "R" {
                self.rec.lock().unwrap().spv_tip = Some(header.block_hash());
            }
            return;
        }
        let r = catch_unwind(AssertUnwindSafe(|| self.inner.filtered_block_connected(header, txdata, height)));
        let abort = if r.is_err() { take_abort_class().0 } else { String::new() };
        {
            let mut rec = self.rec.lock().unwrap();
            let block = { rec.node.lock().unwrap().known.get(&header.block_hash()).map(|(b, _)| b.clone()) };
            let blk = match block {
                Some(b) => rec.blk_json(&b, height),
                None => json!({"id": -1, "h": height, "keys": []}),
            };
            rec.emit(json!({"act": format!("{}Connect", self.name), "blk": blk}), &abort);
            if r.is_err() {
                rec.abort_reported = true;
            }
            if self.name == "R" {
                rec.spv_tip = Some(header.block_hash());
            }
        }
        if let Err(e) = r {
            std::panic::resume_unwind(e);
        }
    }

    fn block_disconnected(&self, header: &bitcoin::block::Header, height: u32) {
        if self.rec.lock().unwrap().quiet {
            if self.name == "Gk" {
                let mut rec = self.rec.lock().unwrap();
                let block = { rec.node.lock().unwrap().known.get(&header.block_hash()).map(|(b, _)| b.clone()) };
                if let Some(b) = block {
                    let blk = rec.blk_json(&b, height);
                    rec.conc_chain.push(json!(["disc", blk]));
                }
            }
            CONC_STARTED.fetch_add(1, std::sync::atomic::Ordering::SeqCst);
            self.inner.block_disconnected(header, height);
            CONC_DONE.fetch_add(1, std::sync::atomic::Ordering::SeqCst);
            if self.name == "R" {
                self.rec.lock().unwrap().spv_tip = Some(header.prev_blockhash);
            }
            return;
        }
        let r = catch_unwind(AssertUnwindSafe(|| self.inner.block_disconnected(header, height)));
        let abort = if r.is_err() { take_abort_class().0 } else { String::new() };
        {
            let mut rec = self.rec.lock().unwrap();
            let block = { rec.node.lock().unwrap().known.get(&header.block_hash()).map(|(b, _)| b.clone()) };
            let blk = match block {
                Some(b) => rec.blk_json(&b, height),
                None => json!({"id": -1, "h": height, "keys": []}),
            };
            rec.emit(json!({"act": format!("{}Disc", self.name), "blk": blk}), &abort);
            if r.is_err() {
                rec.abort_reported = true;
            }
            if self.name == "R" {
                rec.spv_tip = Some(header.prev_blockhash);
            }
        }
        if let Err(e) = r {
            std::panic::resume_unwind(e);
        }
    }
}

type Inner = (Arc<Obs<Watcher>>, Arc<Obs<Responder>>);
type Listener = (Arc<Obs<Gatekeeper>>, &'static Inner);
type Monitor = ChainMonitor<'static, ChainPoller<Arc<SimSource>, SimSource>, UnboundedCache, &'static Listener>;

pub struct Tower {
    pub dbm: Arc<TMutex<DBM>>,
    pub gatekeeper: Arc<Gatekeeper>,
    pub responder: Arc<Responder>,
    pub watcher: Arc<Watcher>,
    pub api: Arc<InternalAPI>,
    pub monitor: Option<Monitor>,
    pub reachable: Arc<(TMutex<bool>, TCondvar)>,
    pub tower_pk: PublicKey,
}

pub struct AsyncCall {
    pub tid: Option<std::thread::ThreadId>,
    pub rx: std::sync::mpsc::Receiver<(Value, Option<Monitor>, std::thread::ThreadId)>,
    pub fields: Value,
    pub kind: &'static str,
}

pub struct Rig {
    pub calls: HashMap<String, AsyncCall>,
    pub rec: Rec,
    pub node: Node,
    pub cfg: Cfg,
    pub rt: tokio::runtime::Runtime,
    pub tower: Option<Tower>,
    pub db_path: PathBuf,
}

async fn get_last_n_blocks(
    poller: &mut ChainPoller<Arc<SimSource>, SimSource>,
    mut last_known_block: ValidatedBlockHeader,
    n: usize,
) -> Result<Vec<ValidatedBlock>, lightning_block_sync::BlockSourceError> {
    let mut last_n_blocks = Vec::with_capacity(n);
    for _ in 0..n {
        let block = poller.fetch_block(&last_known_block).await?;
        last_known_block = poller.look_up_previous_header(&last_known_block).await?;
        last_n_blocks.push(block);
    }
    Ok(last_n_blocks)
}

fn code_of(status: &tonic::Status) -> Value {
    match status.code() {
        Code::Unavailable => json!({"code": "unavailable"}),
        Code::InvalidArgument => json!({"code": "invalid"}),
        Code::ResourceExhausted => json!({"code": "maxslots"}),
        Code::AlreadyExists => json!({"code": "triggered"}),
        Code::NotFound => json!({"code": "notfound"}),
        Code::Unauthenticated => {
            let m = status.message();
            if let Some(rest) = m.strip_prefix("Your subscription expired at ") {
                json!({"code": "expired", "expiry": rest.trim().parse::<i64>().unwrap_or(-1)})
            } else {
                json!({"code": "auth"})
            }
        }
        other => json!({"code": format!("other:{:?}", other)}),
    }
}

impl Rig {
    pub fn new(trace_path: &str, db_path: PathBuf, cfg: Cfg, node: Node) -> Self {
        let rec = Arc::new(Mutex::new(Recorder {
            tw: TraceWriter::create(trace_path),
            sym: Sym::new(),
            node: node.clone(),
            db_path: db_path.clone(),
            comps: None,
            rpc_mark: 0,
            last_mem: json!({"gk": [], "gkH": 0, "wH": 0, "cH": 0, "cache": [], "index": [], "reorged": [], "memo": [], "reachable": true}),
            rdb: None,
            spv_tip: None,
            uuid_map: HashMap::new(),
            abort_reported: false,
            scale: cfg.scale as i64,
            last_abort: String::new(),
            last_db: json!({}),
            frozen: false,
            rpc_thread: None,
            quiet: false,
            conc_chain: Vec::new(),
        }));
        Rig {
            calls: HashMap::new(),
            rec,
            node,
            cfg,
            rt: tokio::runtime::Builder::new_current_thread().enable_all().build().unwrap(),
            tower: None,
            db_path,
        }
    }

    /// Fresh database + fresh trace segment.
    pub fn reset(&mut self, db_path: PathBuf, cfg: Cfg, node: Node) {
        self.tower = None;
        self.cfg = cfg;
        self.node = node.clone();
        self.db_path = db_path.clone();
        let mut rec = self.rec.lock().unwrap();
        rec.comps = None;
        rec.node = node;
        rec.db_path = db_path;
        rec.rdb = None;
                rec.sym = Sym::new();
        rec.spv_tip = None;
        rec.uuid_map = HashMap::new();
        rec.scale = cfg.scale as i64;
    }

    /// Mirrors teos/src/main.rs from "open the database" to "build interfaces" (without the catch-up poll).
    /// Emits the Boot event. Returns false (and records the abort) when the bootstrap panics.
    pub fn boot(&mut self) -> bool {
        self.tower = None;
        let cfg = self.cfg;
        let node = self.node.clone();
        let rec = self.rec.clone();
        let db_path = self.db_path.clone();
        let r = catch_unwind(AssertUnwindSafe(|| {
            self.rt.block_on(async {
                let dbm = Arc::new(TMutex::new(DBM::new(db_path.clone()).unwrap()));
                let (tower_sk, tower_pk) = {
                    let locked_db = dbm.lock().unwrap();
                    if let Some(sk) = locked_db.load_tower_key() {
                        (sk, PublicKey::from_secret_key(&Secp256k1::new(), &sk))
                    } else {
                        let (sk, pk) = cryptography::get_random_keypair();
                        locked_db.store_tower_key(&sk).unwrap();
                        (sk, pk)
                    }
                };
                let reachable = Arc::new((TMutex::new(true), TCondvar::new()));
                let rpc = Arc::new(rpc_client(&node));
                let src = Arc::new(SimSource(node.clone()));
                let last_known_block = dbm.lock().unwrap().load_last_known_block();
                let tip = if let Some(block_hash) = last_known_block {
                    src.get_header(&block_hash, None).await.unwrap().validate(block_hash).unwrap()
                } else {
                    let best = lightning_block_sync::init::validate_best_block_header(&*src).await.unwrap();
                    dbm.lock().unwrap().store_last_known_block(&best.header.block_hash()).unwrap();
                    best
                };
                let gatekeeper = Arc::new(Gatekeeper::new(tip.height, cfg.slots, cfg.duration, cfg.grace, dbm.clone()));
                let mut poller = ChainPoller::new(src.clone(), Network::Regtest);
                let last_n_blocks = get_last_n_blocks(&mut poller, tip, cfg.idx_n).await.unwrap();
                let responder = Arc::new(Responder::new(
                    &last_n_blocks,
                    tip.height,
                    Carrier::new(rpc, reachable.clone(), tip.height),
                    gatekeeper.clone(),
                    dbm.clone(),
                ));
                let watcher = Arc::new(Watcher::new(
                    gatekeeper.clone(),
                    responder.clone(),
                    &last_n_blocks[0..cfg.cache_n],
                    tip.height,
                    tower_sk,
                    TowerId(tower_pk),
                    dbm.clone(),
                ));
                let inner: &'static Inner = Box::leak(Box::new((
                    Arc::new(Obs { inner: watcher.clone(), name: "W", rec: rec.clone() }),
                    Arc::new(Obs { inner: responder.clone(), name: "R", rec: rec.clone() }),
                )));
                let listener: &'static Listener =
                    Box::leak(Box::new((Arc::new(Obs { inner: gatekeeper.clone(), name: "Gk", rec: rec.clone() }), inner)));
                let cache: &'static mut UnboundedCache = Box::leak(Box::new(UnboundedCache::new()));
                let spv_client = SpvClient::new(tip, poller, cache, listener);
                let (shutdown_trigger, shutdown_signal) = triggered::trigger();
                let monitor = ChainMonitor::new(spv_client, tip, dbm.clone(), 1, shutdown_signal, reachable.clone()).await;
                let api = Arc::new(InternalAPI::new(
                    watcher.clone(),
                    vec![msgs::NetworkAddress::from_ipv4("127.0.0.1".to_string(), 9814)],
                    reachable.clone(),
                    shutdown_trigger,
                ));
                (
                    Tower { dbm, gatekeeper, responder, watcher, api, monitor: Some(monitor), reachable, tower_pk },
                    tip,
                    last_n_blocks,
                )
            })
        }));
        match r {
            Ok((tower, tip, last_n)) => {
                let mut rec = self.rec.lock().unwrap();
                rec.comps = Some(Comps {
                    gatekeeper: tower.gatekeeper.clone(),
                    watcher: tower.watcher.clone(),
                    responder: tower.responder.clone(),
                    reachable: tower.reachable.clone(),
                });
                rec.spv_tip = Some(tip.header.block_hash());
                // boot blocks oldest first
                let mut blocks = Vec::new();
                let n = last_n.len();
                for (i, vb) in last_n.iter().rev().enumerate() {
                    let b = match &**vb {
                        lightning_block_sync::BlockData::FullBlock(b) => b.clone(),
                        _ => unreachable!(),
                    };
                    let h = tip.height + 1 + i as u32 - n as u32;
                    blocks.push(rec.blk_json(&b, h));
                }
                let tid = tower.tower_pk.to_string();
                rec.emit(json!({"act": "Boot", "blocks": blocks, "tipH": tip.height, "tower_id": tid}), "");
                drop(rec);
                self.tower = Some(tower);
                true
            }
            Err(_) => {
                let (cls, detail) = take_abort_class();
                let mut rec = self.rec.lock().unwrap();
                rec.comps = None;
                rec.emit(json!({"act": "Boot", "blocks": [], "tipH": 0, "tower_id": "", "detail": detail}), &cls);
                false
            }
        }
    }

    /// Drops every in-memory object of the tower (a stop / crash between actions).
    pub fn crash(&mut self) {
        self.tower = None;
        let mut rec = self.rec.lock().unwrap();
        rec.comps = None;
        rec.emit_plain(json!({"act": "Crash"}));
    }

    fn api(&self) -> Arc<InternalAPI> {
        self.tower.as_ref().expect("tower not booted").api.clone()
    }

    fn finish_call(&mut self, mut fields: Value, r: std::thread::Result<Value>) -> Value {
        let (reply, abort) = match r {
            Ok(v) => (v, String::new()),
            Err(_) => (json!({"code": "abort"}), take_abort_class().0),
        };
        fields["reply"] = reply.clone();
        self.rec.lock().unwrap().emit(fields, &abort);
        reply
    }

    pub fn register(&mut self, u: i64) -> Value {
        let api = self.api();
        let pk = self.rec.lock().unwrap().sym.user(u).1;
        let tower_id = TowerId(self.tower.as_ref().unwrap().tower_pk);
        let scale = self.cfg.scale;
        let r = catch_unwind(AssertUnwindSafe(|| {
            self.rt.block_on(async {
                match api.register(Request::new(common_msgs::RegisterRequest { user_id: pk.serialize().to_vec() })).await {
                    Ok(resp) => {
                        let m = resp.into_inner();
                        let ok = UserId::from_slice(&m.user_id)
                            .map(|id| {
                                id.0 == pk
                                    && RegistrationReceipt::with_signature(
                                        id,
                                        m.available_slots,
                                        m.subscription_start,
                                        m.subscription_expiry,
                                        m.subscription_signature.clone(),
                                    )
                                    .verify(&tower_id)
                            })
                            .unwrap_or(false);
                        json!({"code": "ok", "slots": m.available_slots / scale, "start": m.subscription_start, "expiry": m.subscription_expiry, "sig_ok": ok})
                    }
                    Err(s) => code_of(&s),
                }
            })
        }));
        self.finish_call(json!({"act": "Register", "u": u}), r)
    }

    /// Builds the signature of class `cls` over `msg` for user `u`; returns (signature, who it recovers to among the
    /// registered users by construction: u for "valid", 0 otherwise).
    pub fn sign_class(&self, u: i64, msg: &[u8], other_msg: &[u8], cls: &str) -> (String, i64) {
        let rec = self.rec.lock().unwrap();
        let sk = rec.sym.user(u).0;
        match cls {
            "valid" => (cryptography::sign(msg, &sk), u),
            "other_msg" => (cryptography::sign(other_msg, &sk), 0),
            "unregistered" => (cryptography::sign(msg, &SecretKey::from_slice(&[0x77; 32]).unwrap()), 0),
            "truncated" => {
                let s = cryptography::sign(msg, &sk);
                (s[..s.len() - 7].to_string(), 0)
            }
            "bitflip" => {
                let s = cryptography::sign(msg, &sk);
                // change one zbase32 character in the middle to a different valid one
                let mut chars: Vec<char> = s.chars().collect();
                let i = chars.len() / 2;
                chars[i] = if chars[i] == 'y' { 'b' } else { 'y' };
                (chars.into_iter().collect(), 0)
            }
            "not_zbase32" => ("!!!!not-zbase32-####".to_string(), 0),
            "empty" => (String::new(), 0),
            _ => panic!("unknown signature class {cls}"),
        }
    }

    /// blob spec: {"kind":"valid","d":30,"p":31} encrypt tx p under dispute d's txid | {"kind":"garbled","size":n}
    pub fn make_blob(&mut self, spec: &Value) -> (Vec<u8>, i64, i64) {
        let mut rec = self.rec.lock().unwrap();
        match spec["kind"].as_str().unwrap() {
            "valid" => {
                let d = spec["d"].as_i64().unwrap();
                let p = spec["p"].as_i64().unwrap();
                let dtx = rec.sym.tx(d);
                let ptx = rec.sym.tx(p);
                let blob = cryptography::encrypt(&ptx, &dtx.compute_txid()).unwrap();
                rec.sym.blobs.insert(blob.clone(), (d, p));
                if p % 10 != 0 {
                    let parent = rec.sym.tx((p / 10) * 10);
                    rec.node.lock().unwrap().parent.insert(ptx.compute_txid(), parent.compute_txid());
                }
                (blob, d, p)
            }
            "trailing" | "truncated" => {
                // a blob that authenticates under the dispute id but whose plaintext is not exactly one transaction:
                // a serialized penalty followed by extra bytes / cut short. It must be treated as undecryptable.
                use chacha20poly1305::aead::{Aead, NewAead};
                use bitcoin::hashes::{sha256, Hash as _};
                let d = spec["d"].as_i64().unwrap();
                let p = spec["p"].as_i64().unwrap();
                let dtx = rec.sym.tx(d);
                let ptx = rec.sym.tx(p);
                let mut plain = consensus::serialize(&ptx);
                if spec["kind"] == "trailing" {
                    plain.extend(vec![0x42u8; spec["extra"].as_u64().unwrap_or(7) as usize]);
                } else {
                    let cut = spec["cut"].as_u64().unwrap_or(3) as usize;
                    plain.truncate(plain.len().saturating_sub(cut));
                }
                let k = sha256::Hash::hash(dtx.compute_txid().as_byte_array());
                let cipher = chacha20poly1305::ChaCha20Poly1305::new(chacha20poly1305::Key::from_slice(k.as_byte_array()));
                let blob = cipher.encrypt(&chacha20poly1305::Nonce::default(), plain.as_ref()).unwrap();
                if let Some((k, p)) = rec.sym.blobs.get(&blob).cloned() {
                    return (blob, k, p); // the same bytes were built before (encryption is deterministic): same identity
                }
                rec.sym.garbled += 1;
                let g = rec.sym.garbled;
                rec.sym.blobs.insert(blob.clone(), (-g, 0));
                (blob, -g, 0)
            }
            "garbled" => {
                let n = spec["size"].as_u64().unwrap() as usize;
                rec.sym.garbled += 1;
                let g = rec.sym.garbled;
                let mut blob = vec![0x5au8; n];
                for (i, b) in g.to_le_bytes().iter().enumerate() {
                    if i < n {
                        blob[i] = *b ^ 0xa5;
                    }
                }
                rec.sym.blobs.insert(blob.clone(), (-g, 0));
                (blob, -g, 0)
            }
            k => panic!("unknown blob kind {k}"),
        }
    }

    pub fn add(&mut self, u: i64, l: i64, blob_spec: &Value, tsd: u32, sig_cls: &str) -> Value {
        let api = self.api();
        let (blob, key, pay) = self.make_blob(blob_spec);
        let ltx = self.rec.lock().unwrap().sym.tx(l);
        let locator = Locator::new(ltx.compute_txid());
        let appointment = teos_common::appointment::Appointment::new(locator, blob.clone(), tsd);
        let mut other = appointment.to_vec();
        other.push(0x01);
        let (sig, who) = self.sign_class(u, &appointment.to_vec(), &other, sig_cls);
        let ver = self.rec.lock().unwrap().sym.ver_of(&sig);
        let tower_id = TowerId(self.tower.as_ref().unwrap().tower_pk);
        let sig2 = sig.clone();
        let scale = self.cfg.scale;
        let r = catch_unwind(AssertUnwindSafe(|| {
            self.rt.block_on(async {
                let req = common_msgs::AddAppointmentRequest {
                    appointment: Some(common_msgs::Appointment { locator: locator.to_vec(), encrypted_blob: blob.clone(), to_self_delay: tsd }),
                    signature: sig2.clone(),
                };
                match api.add_appointment(Request::new(req)).await {
                    Ok(resp) => {
                        let m = resp.into_inner();
                        let ok = m.locator == locator.to_vec()
                            && AppointmentReceipt::with_signature(sig2.clone(), m.start_block, m.signature.clone()).verify(&tower_id);
                        json!({"code": "ok", "start": m.start_block, "slots": m.available_slots / scale, "expiry": m.subscription_expiry, "sig_ok": ok})
                    }
                    Err(s) => code_of(&s),
                }
            })
        }));
        let mut r2 = r;
        if let Ok(v) = &mut r2 {
            if v["code"] == "ok" {
                v["ver"] = json!(ver);
            }
        }
        self.finish_call(
            json!({"act": "Add", "who": who, "u": u, "cls": sig_cls, "l": l, "key": key, "pay": pay, "size": blob.len(), "tsd": tsd, "ver": ver}),
            r2,
        )
    }

    pub fn get(&mut self, u: i64, l: i64, sig_cls: &str) -> Value {
        let api = self.api();
        let ltx = self.rec.lock().unwrap().sym.tx(l);
        let locator = Locator::new(ltx.compute_txid());
        let msg = format!("get appointment {locator}");
        let (sig, who) = self.sign_class(u, msg.as_bytes(), b"get subscription info", sig_cls);
        let rec = self.rec.clone();
        let r = catch_unwind(AssertUnwindSafe(|| {
            self.rt.block_on(async {
                match api.get_appointment(Request::new(common_msgs::GetAppointmentRequest { locator: locator.to_vec(), signature: sig })).await {
                    Ok(resp) => {
                        let m = resp.into_inner();
                        let rec = rec.lock().unwrap();
                        match m.appointment_data.and_then(|d| d.appointment_data) {
                            Some(common_msgs::appointment_data::AppointmentData::Appointment(a)) => {
                                let (key, pay) = *rec.sym.blobs.get(&a.encrypted_blob).unwrap_or(&(-999, -999));
                                let status = if m.status == 1 { "watched" } else { "other" };
                                json!({"code": "ok", "status": status, "key": key, "pay": pay, "size": a.encrypted_blob.len(), "tsd": a.to_self_delay,
                                       "bytes_ok": a.locator == locator.to_vec() && key != -999})
                            }
                            Some(common_msgs::appointment_data::AppointmentData::Tracker(t)) => {
                                let d = Txid::from_slice(&t.dispute_txid).map(|x| rec.sym.sym_of_txid(&x)).unwrap_or(-1);
                                let p = Txid::from_slice(&t.penalty_txid).map(|x| rec.sym.sym_of_txid(&x)).unwrap_or(-1);
                                let raw_ok = consensus::deserialize::<Transaction>(&t.penalty_rawtx)
                                    .map(|x| rec.sym.sym_of_txid(&x.compute_txid()) == p)
                                    .unwrap_or(false);
                                let status = if m.status == 2 { "responded" } else { "other" };
                                json!({"code": "ok", "status": status, "d": d, "p": if raw_ok { p } else { -2 }})
                            }
                            None => json!({"code": "ok", "status": "none"}),
                        }
                    }
                    Err(s) => code_of(&s),
                }
            })
        }));
        self.finish_call(json!({"act": "Get", "who": who, "u": u, "cls": sig_cls, "l": l}), r)
    }

    /// The operator's view (private API behind teos-cli): tower info, user ids, every user, every appointment and tracker.
    /// One Cli event carrying all of it; read-only.
    pub fn cli(&mut self, users: &[i64]) -> Value {
        let api = self.api();
        let rec = self.rec.clone();
        let scale = self.cfg.scale;
        let pks: Vec<(i64, PublicKey)> = users.iter().map(|u| (*u, self.rec.lock().unwrap().sym.user(*u).1)).collect();
        let r = catch_unwind(AssertUnwindSafe(|| {
            self.rt.block_on(async {
                let info = match PrivateTowerServices::get_tower_info(&api, Request::new(())).await {
                    Ok(x) => x.into_inner(),
                    Err(s) => return code_of(&s),
                };
                let ids = match PrivateTowerServices::get_users(&api, Request::new(())).await {
                    Ok(x) => x.into_inner().user_ids,
                    Err(s) => return code_of(&s),
                };
                let all = match PrivateTowerServices::get_all_appointments(&api, Request::new(())).await {
                    Ok(x) => x.into_inner().appointments,
                    Err(s) => return code_of(&s),
                };
                let mut per_user = Vec::new();
                for (u, pk) in pks.iter() {
                    match PrivateTowerServices::get_user(&api, Request::new(msgs::GetUserRequest { user_id: pk.serialize().to_vec() })).await {
                        Ok(x) => {
                            let m = x.into_inner();
                            let rec = rec.lock().unwrap();
                            let mut ls: Vec<i64> = m.appointments.iter().map(|uuid| rec.uuid_map.get(uuid).map(|x| x.1).unwrap_or(-1)).collect();
                            ls.sort();
                            per_user.push(json!([u, "ok", m.available_slots / scale, m.subscription_expiry, ls]));
                        }
                        Err(s) => per_user.push(json!([u, if s.code() == tonic::Code::NotFound { "notfound" } else { "error" }, 0, 0, []])),
                    }
                }
                let rec = rec.lock().unwrap();
                let mut known: Vec<i64> = Vec::new();
                for id in ids.iter() {
                    known.push(pks.iter().find(|(_, pk)| pk.serialize().to_vec() == *id).map(|(u, _)| *u).unwrap_or(-1));
                }
                known.sort();
                let (mut appts, mut trackers) = (Vec::new(), Vec::new());
                for d in all.into_iter() {
                    match d.appointment_data {
                        Some(common_msgs::appointment_data::AppointmentData::Appointment(a)) => {
                            let (key, pay) = *rec.sym.blobs.get(&a.encrypted_blob).unwrap_or(&(-999, -999));
                            let l = *rec.sym.loc_sym.get(&a.locator).unwrap_or(&-1);
                            appts.push(json!([l, key, pay, a.encrypted_blob.len(), a.to_self_delay]));
                        }
                        Some(common_msgs::appointment_data::AppointmentData::Tracker(t)) => {
                            let d = Txid::from_slice(&t.dispute_txid).map(|x| rec.sym.sym_of_txid(&x)).unwrap_or(-1);
                            let p = Txid::from_slice(&t.penalty_txid).map(|x| rec.sym.sym_of_txid(&x)).unwrap_or(-1);
                            trackers.push(json!([d, p]));
                        }
                        None => {}
                    }
                }
                appts.sort_by_key(|x| x.to_string());
                trackers.sort_by_key(|x| x.to_string());
                json!({"code": "ok", "n_users": info.n_registered_users, "n_appts": info.n_watcher_appointments, "n_trackers": info.n_responder_trackers,
                       "reachable": info.bitcoind_reachable, "users": known, "per_user": per_user, "appts": appts, "trackers": trackers})
            })
        }));
        self.finish_call(json!({"act": "Cli", "asked": users}), r)
    }

    pub fn sub(&mut self, u: i64, sig_cls: &str) -> Value {
        let api = self.api();
        let (sig, who) = self.sign_class(u, b"get subscription info", b"get appointment 00", sig_cls);
        let rec = self.rec.clone();
        let scale = self.cfg.scale;
        let r = catch_unwind(AssertUnwindSafe(|| {
            self.rt.block_on(async {
                match api.get_subscription_info(Request::new(common_msgs::GetSubscriptionInfoRequest { signature: sig })).await {
                    Ok(resp) => {
                        let m = resp.into_inner();
                        let rec = rec.lock().unwrap();
                        let mut locs: Vec<i64> = m.locators.iter().map(|l| *rec.sym.loc_sym.get(l).unwrap_or(&-1)).collect();
                        locs.sort();
                        json!({"code": "ok", "slots": m.available_slots / scale, "expiry": m.subscription_expiry, "locators": locs})
                    }
                    Err(s) => code_of(&s),
                }
            })
        }));
        self.finish_call(json!({"act": "Sub", "who": who, "u": u, "cls": sig_cls}), r)
    }

    /// One ChainMonitor::poll_best_tip. The sub-events are emitted by the observing listeners; PollEnd here.
    pub fn poll(&mut self) -> bool {
        // what the environment offers to this poll (inputs, not observations of the tower)
        let (best_ok, node_tip, node_tip_h) = {
            let node = self.node.lock().unwrap();
            (node.up && node.faults.best_fail == 0 && node.faults.header_fail == 0, node.tip().block_hash(), node.height())
        };
        let spv_before = self.rec.lock().unwrap().spv_tip;
        let spv_h = spv_before.and_then(|h| self.node.lock().unwrap().known.get(&h).map(|(_, x)| *x)).unwrap_or(0);
        let mut tower = self.tower.take().expect("tower not booted");
        let r = catch_unwind(AssertUnwindSafe(|| {
            self.rt.block_on(tower.monitor.as_mut().expect("chain monitor is busy on another thread").poll_best_tip());
        }));
        self.tower = Some(tower);
        let reported = std::mem::replace(&mut self.rec.lock().unwrap().abort_reported, false);
        let abort = if r.is_err() && !reported { take_abort_class().0 } else { String::new() };
        if r.is_err() && reported {
            let _ = take_abort_class();
        }
        let res = if !best_ok {
            "transient"
        } else if Some(node_tip) == spv_before {
            "common"
        } else if node_tip_h > spv_h {
            "ok"
        } else {
            "worse"
        };
        let mut rec = self.rec.lock().unwrap();
        let synced = rec.spv_tip == Some(node_tip);
        let tip = rec.sym.block(&node_tip);
        // the block the listeners were actually brought to (the polled tip when every block could be delivered)
        let spv = match rec.spv_tip {
            Some(h) => rec.sym.block(&h),
            None => 0,
        };
        rec.emit(json!({"act": "PollEnd", "res": res, "tip": tip, "spv": spv, "synced": synced, "propagated": r.is_err() && reported}), &abort);
        r.is_ok()
    }

    /// Liveness probe after an abort: does the tower still answer a request and report its state?
    pub fn probe(&mut self) -> bool {
        let api = match &self.tower {
            Some(t) => t.api.clone(),
            None => return false,
        };
        let pk = self.rec.lock().unwrap().sym.user(8).1;
        let r = catch_unwind(AssertUnwindSafe(|| {
            self.rt.block_on(async {
                let _ = api.register(Request::new(common_msgs::RegisterRequest { user_id: pk.serialize().to_vec() })).await;
                let _ = api
                    .get_subscription_info(Request::new(common_msgs::GetSubscriptionInfoRequest { signature: "x".into() }))
                    .await;
            })
        }));
        let alive = r.is_ok();
        if !alive {
            let _ = take_abort_class();
        }
        self.rec.lock().unwrap().emit_plain(json!({"act": "Probe", "alive": alive}));
        alive
    }
}


// ---------------------------------------------------------------------------------------------------
// requests and polls on their own threads (C12: outages; the caller may block inside the code under test)

impl Rig {
    /// add_appointment on its own thread. The Add event is emitted when the call is joined.
    pub fn spawn_add(&mut self, name: &str, u: i64, l: i64, blob_spec: &Value, tsd: u32) {
        let api = self.api();
        let (blob, key, pay) = self.make_blob(blob_spec);
        let ltx = self.rec.lock().unwrap().sym.tx(l);
        let locator = Locator::new(ltx.compute_txid());
        let appointment = teos_common::appointment::Appointment::new(locator, blob.clone(), tsd);
        let (sig, who) = self.sign_class(u, &appointment.to_vec(), b"", "valid");
        let ver = self.rec.lock().unwrap().sym.ver_of(&sig);
        let tower_id = TowerId(self.tower.as_ref().unwrap().tower_pk);
        let scale = self.cfg.scale;
        let (tx, rx) = std::sync::mpsc::channel();
        let size = blob.len();
        let (idtx, idrx) = std::sync::mpsc::channel();
        std::thread::spawn(move || {
            crate::simnode::inflight_enter();
            let _ = idtx.send(std::thread::current().id());
            let rt = tokio::runtime::Builder::new_current_thread().enable_all().build().unwrap();
            let r = catch_unwind(AssertUnwindSafe(|| {
                rt.block_on(async {
                    let req = common_msgs::AddAppointmentRequest {
                        appointment: Some(common_msgs::Appointment { locator: locator.to_vec(), encrypted_blob: blob.clone(), to_self_delay: tsd }),
                        signature: sig.clone(),
                    };
                    match api.add_appointment(Request::new(req)).await {
                        Ok(resp) => {
                            let m = resp.into_inner();
                            let ok = m.locator == locator.to_vec()
                                && AppointmentReceipt::with_signature(sig.clone(), m.start_block, m.signature.clone()).verify(&tower_id);
                            json!({"code": "ok", "start": m.start_block, "slots": m.available_slots / scale, "expiry": m.subscription_expiry, "sig_ok": ok, "ver": ver})
                        }
                        Err(s) => code_of(&s),
                    }
                })
            }));
            let v = match r {
                Ok(v) => v,
                Err(_) => json!({"code": "abort"}),
            };
            crate::simnode::inflight_exit();
            let _ = tx.send((v, None, std::thread::current().id()));
        });
        let tid = idrx.recv().ok();
        self.rec.lock().unwrap().frozen = true;
        self.rec.lock().unwrap().emit_plain(json!({"act": "Note", "what": "spawn", "thread": name, "op": "add"}));
        self.calls.insert(
            name.to_string(),
            AsyncCall {
                tid,
                rx,
                kind: "add",
                fields: json!({"act": "Add", "who": who, "u": u, "cls": "valid", "l": l, "key": key, "pay": pay, "size": size, "tsd": tsd, "ver": ver}),
            },
        );
    }

    /// ChainMonitor::poll_best_tip on its own thread (the chain monitor thread of the real daemon).
    pub fn spawn_poll(&mut self, name: &str) {
        let (best_ok, node_tip, node_tip_h) = {
            let node = self.node.lock().unwrap();
            (node.up && node.faults.best_fail == 0 && node.faults.header_fail == 0, node.tip().block_hash(), node.height())
        };
        let spv_before = self.rec.lock().unwrap().spv_tip;
        let spv_h = spv_before.and_then(|h| self.node.lock().unwrap().known.get(&h).map(|(_, x)| *x)).unwrap_or(0);
        let res = if !best_ok {
            "transient"
        } else if Some(node_tip) == spv_before {
            "common"
        } else if node_tip_h > spv_h {
            "ok"
        } else {
            "worse"
        };
        let tip = self.rec.lock().unwrap().sym.block(&node_tip);
        let mut monitor = self.tower.as_mut().expect("tower not booted").monitor.take().expect("chain monitor busy");
        let (tx, rx) = std::sync::mpsc::channel();
        // the observing listeners read memory through the hooks: they run on the polling thread itself, which is fine
        let (idtx, idrx) = std::sync::mpsc::channel();
        std::thread::spawn(move || {
            crate::simnode::inflight_enter();
            let _ = idtx.send(std::thread::current().id());
            let rt = tokio::runtime::Builder::new_current_thread().enable_all().build().unwrap();
            let r = catch_unwind(AssertUnwindSafe(|| {
                rt.block_on(monitor.poll_best_tip());
            }));
            crate::simnode::inflight_exit();
            let _ = tx.send((json!({"ok": r.is_ok()}), Some(monitor), std::thread::current().id()));
        });
        let tid = idrx.recv().ok();
        self.rec.lock().unwrap().frozen = true;
        self.rec.lock().unwrap().emit_plain(json!({"act": "Note", "what": "spawn", "thread": name, "op": "poll"}));
        self.calls.insert(
            name.to_string(),
            AsyncCall { tid, rx, kind: "poll", fields: json!({"act": "PollEnd", "res": res, "tip": tip, "node_tip": node_tip.to_string()}) },
        );
    }

    /// Waits (bounded) until the reachability flag has the wanted value; emits a Flag event when it is observed.
    pub fn wait_flag(&mut self, want: bool, timeout_ms: u64) -> bool {
        let reachable = self.tower.as_ref().unwrap().reachable.clone();
        let t0 = std::time::Instant::now();
        loop {
            let v = *reachable.0.lock().unwrap();
            if v == want {
                self.rec.lock().unwrap().emit_plain(json!({"act": "Flag", "reachable": want}));
                return true;
            }
            if t0.elapsed().as_millis() as u64 > timeout_ms {
                return false;
            }
            std::thread::sleep(std::time::Duration::from_millis(2));
        }
    }

    /// Joins a spawned call. Returns false when it is still blocked after `timeout_ms` (a Hung event is emitted).
    pub fn join(&mut self, name: &str, timeout_ms: u64) -> bool {
        let call = match self.calls.remove(name) {
            Some(c) => c,
            None => return true,
        };
        // the call may have been held at a node RPC since the node came back: it goes on now
        if let Some(t) = call.tid {
            crate::simnode::release(t);
        }
        match call.rx.recv_timeout(std::time::Duration::from_millis(timeout_ms)) {
            Ok((v, monitor, tid)) => {
                if self.calls.is_empty() {
                    self.rec.lock().unwrap().frozen = false;
                }
                if call.kind == "poll" {
                    if let (Some(t), Some(m)) = (self.tower.as_mut(), monitor) {
                        t.monitor = Some(m);
                    }
                    let ok = v["ok"].as_bool().unwrap_or(false);
                    let mut rec = self.rec.lock().unwrap();
                    let reported = std::mem::replace(&mut rec.abort_reported, false);
                    let abort = if !ok && !reported { take_abort_class().0 } else { String::new() };
                    let node_tip: BlockHash = call.fields["node_tip"].as_str().unwrap().parse().unwrap();
                    let synced = rec.spv_tip == Some(node_tip);
                    let mut f = call.fields.clone();
                    f["synced"] = json!(synced);
                    f["spv"] = json!(match rec.spv_tip {
                        Some(h) => rec.sym.block(&h),
                        None => 0,
                    });
                    f["propagated"] = json!(!ok && reported);
                    f.as_object_mut().unwrap().remove("node_tip");
                    rec.emit(f, &abort);
                } else {
                    let mut f = call.fields.clone();
                    let abort = if v["code"] == "abort" { take_abort_class().0 } else { String::new() };
                    f["reply"] = v;
                    let mut rec = self.rec.lock().unwrap();
                    rec.rpc_thread = Some(tid);
                    rec.emit(f, &abort);
                }
                true
            }
            Err(_) => {
                // still blocked: the thread (and whatever it holds) is abandoned
                self.rec.lock().unwrap().emit_plain(json!({"act": "Hung", "thread": name, "op": call.kind}));
                false
            }
        }
    }

    /// Forget a tower some of whose threads are blocked forever (they keep their references alive).
    pub fn abandon(&mut self) {
        if let Some(t) = self.tower.take() {
            std::mem::forget(t);
        }
        self.calls.clear();
        crate::simnode::release_all();
        let mut rec = self.rec.lock().unwrap();
        rec.comps = None;
        rec.frozen = false;
        rec.emit_plain(json!({"act": "Crash"}));
    }
}


// ---------------------------------------------------------------------------------------------------
// scheduled concurrent runs (C10 / C11)

pub struct ConcOutcome {
    pub decisions: Vec<crate::conc::Decision>,
    pub deadlock: bool,
    pub timeout: bool,
}

type Job = Box<dyn FnOnce() -> (Value, Option<Monitor>) + Send + 'static>;

impl Rig {
    /// Restores a checkpoint: the database file and the node state; the symbol tables are kept.
    pub fn restore(&mut self, db_checkpoint: &std::path::Path, node: crate::simnode::NodeState) {
        self.tower = None;
        std::fs::copy(db_checkpoint, &self.db_path).expect("cannot restore the database checkpoint");
        let node = Arc::new(Mutex::new(node));
        self.node = node.clone();
        let mut rec = self.rec.lock().unwrap();
        rec.comps = None;
        rec.node = node;
        rec.rdb = None;
        rec.frozen = false;
        rec.quiet = false;
        rec.emit_plain(json!({"act": "Restore"}));
    }

    fn job_for(&mut self, op: &Value) -> (Value, Job) {
        let api = self.api();
        let tower_id = TowerId(self.tower.as_ref().unwrap().tower_pk);
        let scale = self.cfg.scale;
        match op["op"].as_str().unwrap() {
            "register" => {
                let u = op["u"].as_i64().unwrap();
                let pk = self.rec.lock().unwrap().sym.user(u).1;
                let job: Job = Box::new(move || {
                    let rt = tokio::runtime::Builder::new_current_thread().enable_all().build().unwrap();
                    let v = rt.block_on(async {
                        match api.register(Request::new(common_msgs::RegisterRequest { user_id: pk.serialize().to_vec() })).await {
                            Ok(resp) => {
                                let m = resp.into_inner();
                                let ok = UserId::from_slice(&m.user_id)
                                    .map(|id| {
                                        RegistrationReceipt::with_signature(id, m.available_slots, m.subscription_start, m.subscription_expiry, m.subscription_signature.clone())
                                            .verify(&tower_id)
                                    })
                                    .unwrap_or(false);
                                json!({"code": "ok", "slots": m.available_slots / scale, "start": m.subscription_start, "expiry": m.subscription_expiry, "sig_ok": ok})
                            }
                            Err(s) => code_of(&s),
                        }
                    });
                    (v, None)
                });
                (json!({"op": "register", "u": u}), job)
            }
            "add" => {
                let u = op["u"].as_i64().unwrap();
                let l = op["l"].as_i64().unwrap();
                let tsd = op["tsd"].as_u64().unwrap_or(42) as u32;
                let (blob, key, pay) = self.make_blob(&op["blob"]);
                let ltx = self.rec.lock().unwrap().sym.tx(l);
                let locator = Locator::new(ltx.compute_txid());
                let appointment = teos_common::appointment::Appointment::new(locator, blob.clone(), tsd);
                let (sig, who) = self.sign_class(u, &appointment.to_vec(), b"", "valid");
                let ver = self.rec.lock().unwrap().sym.ver_of(&sig);
                let size = blob.len();
                let job: Job = Box::new(move || {
                    let rt = tokio::runtime::Builder::new_current_thread().enable_all().build().unwrap();
                    let v = rt.block_on(async {
                        let req = common_msgs::AddAppointmentRequest {
                            appointment: Some(common_msgs::Appointment { locator: locator.to_vec(), encrypted_blob: blob.clone(), to_self_delay: tsd }),
                            signature: sig.clone(),
                        };
                        match api.add_appointment(Request::new(req)).await {
                            Ok(resp) => {
                                let m = resp.into_inner();
                                let ok = AppointmentReceipt::with_signature(sig.clone(), m.start_block, m.signature.clone()).verify(&tower_id);
                                json!({"code": "ok", "start": m.start_block, "slots": m.available_slots / scale, "expiry": m.subscription_expiry, "sig_ok": ok, "ver": ver})
                            }
                            Err(s) => code_of(&s),
                        }
                    });
                    (v, None)
                });
                (json!({"op": "add", "who": who, "l": l, "key": key, "pay": pay, "size": size, "tsd": tsd, "ver": ver}), job)
            }
            "get" => {
                let u = op["u"].as_i64().unwrap();
                let l = op["l"].as_i64().unwrap();
                let ltx = self.rec.lock().unwrap().sym.tx(l);
                let locator = Locator::new(ltx.compute_txid());
                let msg = format!("get appointment {locator}");
                let (sig, who) = self.sign_class(u, msg.as_bytes(), b"", "valid");
                let rec = self.rec.clone();
                let job: Job = Box::new(move || {
                    let rt = tokio::runtime::Builder::new_current_thread().enable_all().build().unwrap();
                    let v = rt.block_on(async {
                        match api.get_appointment(Request::new(common_msgs::GetAppointmentRequest { locator: locator.to_vec(), signature: sig })).await {
                            Ok(resp) => {
                                let m = resp.into_inner();
                                let rec = rec.lock().unwrap();
                                match m.appointment_data.and_then(|d| d.appointment_data) {
                                    Some(common_msgs::appointment_data::AppointmentData::Appointment(a)) => {
                                        let (key, pay) = *rec.sym.blobs.get(&a.encrypted_blob).unwrap_or(&(-999, -999));
                                        json!({"code": "ok", "status": "watched", "key": key, "pay": pay, "size": a.encrypted_blob.len(), "tsd": a.to_self_delay})
                                    }
                                    Some(common_msgs::appointment_data::AppointmentData::Tracker(t)) => {
                                        let d = Txid::from_slice(&t.dispute_txid).map(|x| rec.sym.sym_of_txid(&x)).unwrap_or(-1);
                                        let p = Txid::from_slice(&t.penalty_txid).map(|x| rec.sym.sym_of_txid(&x)).unwrap_or(-1);
                                        json!({"code": "ok", "status": "responded", "d": d, "p": p})
                                    }
                                    None => json!({"code": "ok", "status": "none"}),
                                }
                            }
                            Err(s) => code_of(&s),
                        }
                    });
                    (v, None)
                });
                (json!({"op": "get", "who": who, "l": l}), job)
            }
            "sub" => {
                let u = op["u"].as_i64().unwrap();
                let (sig, who) = self.sign_class(u, b"get subscription info", b"", "valid");
                let rec = self.rec.clone();
                let job: Job = Box::new(move || {
                    let rt = tokio::runtime::Builder::new_current_thread().enable_all().build().unwrap();
                    let v = rt.block_on(async {
                        match api.get_subscription_info(Request::new(common_msgs::GetSubscriptionInfoRequest { signature: sig })).await {
                            Ok(resp) => {
                                let m = resp.into_inner();
                                let rec = rec.lock().unwrap();
                                let mut locs: Vec<i64> = m.locators.iter().map(|l| *rec.sym.loc_sym.get(l).unwrap_or(&-1)).collect();
                                locs.sort();
                                json!({"code": "ok", "slots": m.available_slots / scale, "expiry": m.subscription_expiry, "locators": locs})
                            }
                            Err(s) => code_of(&s),
                        }
                    });
                    (v, None)
                });
                (json!({"op": "sub", "who": who}), job)
            }
            "poll" => {
                let mut monitor = self.tower.as_mut().unwrap().monitor.take().expect("chain monitor busy");
                let job: Job = Box::new(move || {
                    let rt = tokio::runtime::Builder::new_current_thread().enable_all().build().unwrap();
                    rt.block_on(monitor.poll_best_tip());
                    (json!({"code": "ok"}), Some(monitor))
                });
                (json!({"op": "poll"}), job)
            }
            o => panic!("unknown concurrent op {o}"),
        }
    }

    /// Runs the operations concurrently under the scheduler, following `prefix` and then the default (no preemption) or
    /// random policy. Emits one Conc event. The tower is abandoned when the run deadlocks or times out.
    pub fn run_conc(&mut self, ops: &[Value], prefix: Vec<usize>, random: Option<u64>) -> ConcOutcome {
        let n = ops.len();
        let mut descs = Vec::new();
        let mut jobs: Vec<Job> = Vec::new();
        for op in ops {
            let (d, j) = self.job_for(op);
            descs.push(d);
            jobs.push(j);
        }
        let node_tip = { self.node.lock().unwrap().tip().block_hash() };
        let sched = crate::conc::Sched::new(n, prefix, random);
        CONC_STARTED.store(0, std::sync::atomic::Ordering::SeqCst);
        CONC_DONE.store(0, std::sync::atomic::Ordering::SeqCst);
        CONC_CLOCK.store(0, std::sync::atomic::Ordering::SeqCst);
        {
            let mut rec = self.rec.lock().unwrap();
            rec.quiet = true;
            rec.conc_chain.clear();
        }
        teos::verif_sync::install(Some(sched.clone()));
        *crate::conc::ACTIVE.lock().unwrap() = Some(sched.clone());
        let (tx, rx) = std::sync::mpsc::channel();
        let mut tids = Vec::new();
        for (i, job) in jobs.into_iter().enumerate() {
            let tx = tx.clone();
            let sched = sched.clone();
            let h = std::thread::spawn(move || {
                sched.enter(i);
                // invoked now: after `lo` listener calls had returned; returned before the call number `hi + 1` started
                let lo = CONC_DONE.load(std::sync::atomic::Ordering::SeqCst);
                let inv = CONC_CLOCK.fetch_add(1, std::sync::atomic::Ordering::SeqCst);
                let r = catch_unwind(AssertUnwindSafe(job));
                let ret = CONC_CLOCK.fetch_add(1, std::sync::atomic::Ordering::SeqCst);
                let hi = CONC_STARTED.load(std::sync::atomic::Ordering::SeqCst);
                let (mut v, mon, abort) = match r {
                    Ok((v, m)) => (v, m, String::new()),
                    Err(_) => (json!({"code": "abort"}), None, take_abort_class().0),
                };
                if v.is_object() {
                    v["__lo"] = json!(lo);
                    v["__hi"] = json!(hi);
                    v["__inv"] = json!(inv);
                    v["__ret"] = json!(ret);
                }
                sched.exit(i);
                let _ = tx.send((i, v, mon, abort, std::thread::current().id()));
            });
            tids.push(h.thread().id());
        }
        sched.start();
        let t0 = std::time::Instant::now();
        let mut results: Vec<Option<(Value, String)>> = vec![None; n];
        let mut got = 0;
        let mut timeout = false;
        while got < n {
            match rx.recv_timeout(std::time::Duration::from_millis(50)) {
                Ok((i, v, mon, abort, _tid)) => {
                    if let (Some(t), Some(m)) = (self.tower.as_mut(), mon) {
                        t.monitor = Some(m);
                    }
                    results[i] = Some((v, abort));
                    got += 1;
                }
                Err(_) => {
                    if sched.deadlocked() {
                        break;
                    }
                    if t0.elapsed().as_secs() >= 15 {
                        timeout = true;
                        break;
                    }
                }
            }
        }
        teos::verif_sync::install(None);
        *crate::conc::ACTIVE.lock().unwrap() = None;
        let deadlock = sched.deadlocked();
        let decisions = sched.decisions();
        let mut ops_out = Vec::new();
        let mut aborts = Vec::new();
        for (i, d) in descs.iter().enumerate() {
            let mut o = d.clone();
            match &results[i] {
                Some((v, abort)) => {
                    let mut v = v.clone();
                    if let Some(m) = v.as_object_mut() {
                        if let (Some(lo), Some(hi)) = (m.remove("__lo"), m.remove("__hi")) {
                            o["lo"] = lo;
                            o["hi"] = hi;
                        }
                        if let (Some(a), Some(b)) = (m.remove("__inv"), m.remove("__ret")) {
                            o["inv"] = a;
                            o["ret"] = b;
                        }
                    }
                    o["reply"] = v.clone();
                    if !abort.is_empty() {
                        aborts.push(json!([i, abort]));
                    }
                }
                None => {
                    o["reply"] = json!({"code": "blocked"});
                }
            }
            ops_out.push(o);
        }
        let mut rec = self.rec.lock().unwrap();
        rec.quiet = false;
        let chain = std::mem::take(&mut rec.conc_chain);
        let tip = rec.sym.block(&node_tip);
        // node RPCs of all operation threads, in call order
        let mut rpc = Vec::new();
        {
            let mut node = rec.node.lock().unwrap();
            let entries: Vec<(String, bitcoin::Txid, String)> = node
                .rpc_log
                .iter_mut()
                .filter(|e| !e.taken && tids.contains(&e.tid))
                .map(|e| {
                    e.taken = true;
                    (e.method.to_string(), e.txid, e.verdict.clone())
                })
                .collect();
            drop(node);
            for (m, txid, v) in entries {
                rpc.push(json!([m, rec.sym.sym_of_txid(&txid), v]));
            }
        }
        let schedule: Vec<usize> = decisions.iter().map(|d| d.chosen).collect();
        let wait_for: Vec<Value> = sched.wait_for().iter().map(|(t, l, o)| json!([t, l, o])).collect();
        let edges: Vec<Value> = sched.lock_order_edges().iter().map(|(t, a, b)| json!([t, a, b])).collect();
        if deadlock || timeout {
            rec.frozen = true; // some locks are held for ever: durable state only
        }
        let fields = json!({"act": "Conc", "ops": ops_out, "chain": chain, "tip": tip, "schedule": schedule, "deadlock": deadlock,
                            "timeout": timeout, "aborts": aborts, "wait_for": wait_for, "lock_order": edges});
        let mut f = fields;
        let db = rec.project_db();
        let mem = rec.project_mem();
        let mut post = db;
        for (k, v) in mem.as_object().unwrap() {
            post[k] = v.clone();
        }
        f["rpc"] = Value::Array(rpc);
        f["abort"] = json!("");
        f["frozen"] = json!(rec.frozen);
        f["post"] = post;
        rec.tw.emit(&f);
        rec.frozen = false;
        drop(rec);
        if deadlock || timeout {
            if let Some(t) = self.tower.take() {
                std::mem::forget(t);
            }
            self.rec.lock().unwrap().comps = None;
        }
        ConcOutcome { decisions, deadlock, timeout }
    }
}
