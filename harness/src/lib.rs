//! Shared code of the verification harnesses (see /verif/DESIGN.md section 4).
pub mod chain;
pub mod conc;
pub mod simnode;
pub mod tower;
pub mod trace;
