//! Construction of real, PoW-valid (minimum difficulty) blocks and of dispute / penalty transactions.

use bitcoin::absolute::LockTime;
use bitcoin::block::{Block, Header, Version};
use bitcoin::blockdata::constants::genesis_block;
use bitcoin::blockdata::script::{Builder, ScriptBuf};
use bitcoin::blockdata::transaction::{OutPoint, Transaction, TxIn, TxOut};
use bitcoin::hashes::Hash;
use bitcoin::merkle_tree::calculate_root;
use bitcoin::{Amount, BlockHash, Network, Sequence, Txid, Witness};

/// A transaction with no relation to anything else, unique per `(tag, n)`.
pub fn unique_tx(tag: u8, n: u64) -> Transaction {
    let mut prev = [0u8; 32];
    prev[0] = tag;
    prev[8..16].copy_from_slice(&n.to_be_bytes());
    Transaction {
        version: bitcoin::transaction::Version(2),
        lock_time: LockTime::ZERO,
        input: vec![TxIn {
            previous_output: OutPoint::new(Txid::from_slice(&prev).unwrap(), 0),
            script_sig: ScriptBuf::new(),
            witness: Witness::new(),
            sequence: Sequence(0),
        }],
        output: vec![TxOut {
            script_pubkey: Builder::new().push_int(1).into_script(),
            value: Amount::from_sat(1_000_000 + n),
        }],
    }
}

/// A transaction spending output 0 of `parent`, unique per `variant` (and padded to roughly `pad` extra bytes).
pub fn spend_tx(parent: &Transaction, variant: u64, pad: usize) -> Transaction {
    let mut script = Builder::new().push_int(variant as i64);
    if pad > 0 {
        // OP_RETURN-like padding through several pushes (each push <= 520 bytes is fine for our purposes).
        let mut left = pad;
        while left > 0 {
            let n = left.min(500);
            let data: Vec<u8> = vec![0xab; n];
            let pb: &bitcoin::script::PushBytes = data.as_slice().try_into().unwrap();
            script = script.push_slice(pb);
            left -= n;
        }
    }
    Transaction {
        version: bitcoin::transaction::Version(2),
        lock_time: LockTime::ZERO,
        input: vec![TxIn {
            previous_output: OutPoint::new(parent.compute_txid(), 0),
            script_sig: ScriptBuf::new(),
            witness: Witness::new(),
            sequence: Sequence(0),
        }],
        output: vec![TxOut {
            script_pubkey: script.into_script(),
            value: Amount::from_sat(900_000 + variant),
        }],
    }
}

pub fn genesis() -> Block {
    genesis_block(Network::Regtest)
}

/// Builds a PoW-valid block on top of `prev` (regtest-like minimum difficulty).
/// `salt` makes otherwise identical blocks (same parent, same txs) distinct.
pub fn make_block(prev: &Header, salt: u64, txs: Vec<Transaction>) -> Block {
    let bits = bitcoin::Target::from_be_bytes([0xff; 32]).to_compact_lossy();
    let mut txdata = vec![unique_tx(0xc0, salt)];
    txdata.extend(txs);
    let hashes = txdata.iter().map(|tx| tx.compute_txid().to_raw_hash());
    let mut header = Header {
        version: Version::from_consensus(0),
        prev_blockhash: prev.block_hash(),
        merkle_root: calculate_root(hashes).unwrap().into(),
        time: prev.time + 1,
        bits,
        nonce: 0,
    };
    while header.validate_pow(header.target()).is_err() {
        header.nonce += 1;
    }
    Block { header, txdata }
}

pub fn block_hash_hex(h: &BlockHash) -> String {
    h.to_string()
}
