//! conc-rig: deterministic scheduling of REAL tower threads at lock-acquisition granularity (DESIGN.md section 4.1, C10/C11).
//!
//! Every operation runs on its own OS thread. Through the `verif_sync` hook a registered thread stops before every lock
//! acquisition (and before every node RPC, and when it ends); the scheduler lets exactly one registered thread run at a time
//! and only lets a thread proceed to `lock()` when that lock is free, so the real mutexes are never contended and a state in
//! which no thread can be chosen while some are unfinished is a genuine circular wait (or a self-deadlock).
//! A schedule is the sequence of thread choices at the decision points; exploration is a DFS over schedules with a bound on
//! the number of preemptions, plus random schedules.

use std::collections::HashMap;
use std::panic::Location;
use std::sync::{Arc, Condvar, Mutex};
use std::thread::ThreadId;

use teos::verif_sync::SyncHook;

#[derive(Clone, Debug, PartialEq)]
enum Status {
    NotStarted,
    Running,
    /// parked before `lock()` of this lock
    Want(usize),
    /// parked at a plain yield point (node RPC)
    Yield,
    Done,
}

#[derive(Clone, Debug)]
pub struct Decision {
    pub runnable: Vec<usize>,
    pub chosen: usize,
    /// the thread that was running when the decision was taken (None at the start / after a thread ended)
    pub running: Option<usize>,
}

struct St {
    status: Vec<Status>,
    by_os: HashMap<ThreadId, usize>,
    current: Option<usize>,
    owners: HashMap<usize, usize>,
    prefix: Vec<usize>,
    decisions: Vec<Decision>,
    /// (thread, lock, held locks at that moment, site) for every acquisition: the lock-order graph is built from it
    pub acquisitions: Vec<(usize, usize, Vec<usize>, String)>,
    lock_names: HashMap<usize, String>,
    deadlock: bool,
    rng_state: u64,
    random: bool,
}

pub struct Sched {
    m: Mutex<St>,
    cv: Condvar,
}

impl Sched {
    pub fn new(n: usize, prefix: Vec<usize>, random_seed: Option<u64>) -> Arc<Self> {
        Arc::new(Sched {
            m: Mutex::new(St {
                status: vec![Status::NotStarted; n],
                by_os: HashMap::new(),
                current: None,
                owners: HashMap::new(),
                prefix,
                decisions: Vec::new(),
                acquisitions: Vec::new(),
                lock_names: HashMap::new(),
                deadlock: false,
                rng_state: random_seed.unwrap_or(0).wrapping_mul(6364136223846793005).wrapping_add(1442695040888963407),
                random: random_seed.is_some(),
            }),
            cv: Condvar::new(),
        })
    }

    fn runnable(st: &St) -> Vec<usize> {
        let mut r = Vec::new();
        for (i, s) in st.status.iter().enumerate() {
            match s {
                Status::NotStarted | Status::Yield => r.push(i),
                Status::Want(l) => {
                    if !st.owners.contains_key(l) {
                        r.push(i)
                    }
                }
                Status::Running | Status::Done => {}
            }
        }
        r
    }

    /// Takes a decision (the caller `me`, if any, is parked in a non-Running status) and returns the chosen thread.
    fn decide(st: &mut St, me: Option<usize>) -> Option<usize> {
        let r = Self::runnable(st);
        if r.is_empty() {
            if st.status.iter().any(|s| *s != Status::Done) {
                st.deadlock = true;
            }
            st.current = None;
            return None;
        }
        let k = st.decisions.len();
        let chosen = if k < st.prefix.len() && r.contains(&st.prefix[k]) {
            st.prefix[k]
        } else if st.random {
            st.rng_state = st.rng_state.wrapping_mul(6364136223846793005).wrapping_add(1442695040888963407);
            r[((st.rng_state >> 33) as usize) % r.len()]
        } else if let Some(m) = me.filter(|m| r.contains(m)) {
            m // default policy: keep running the same thread (no preemption)
        } else {
            r[0]
        };
        st.decisions.push(Decision { runnable: r, chosen, running: me });
        st.current = Some(chosen);
        Some(chosen)
    }

    fn park_until_chosen<'a>(&'a self, mut g: std::sync::MutexGuard<'a, St>, me: usize) -> std::sync::MutexGuard<'a, St> {
        while g.current != Some(me) && !g.deadlock {
            g = self.cv.wait(g).unwrap();
        }
        g
    }

    /// Called first thing by operation thread `i`.
    pub fn enter(&self, i: usize) {
        let mut g = self.m.lock().unwrap();
        g.by_os.insert(std::thread::current().id(), i);
        g = self.park_until_chosen(g, i);
        if g.deadlock {
            // never chosen: the run is over; block for ever (the thread is abandoned)
            drop(g);
            loop {
                std::thread::park();
            }
        }
        g.status[i] = Status::Running;
    }

    /// Called last thing by operation thread `i`.
    pub fn exit(&self, i: usize) {
        let mut g = self.m.lock().unwrap();
        g.status[i] = Status::Done;
        g.by_os.remove(&std::thread::current().id());
        Self::decide(&mut g, None);
        self.cv.notify_all();
    }

    /// Starts the run: the first decision.
    pub fn start(&self) {
        let mut g = self.m.lock().unwrap();
        Self::decide(&mut g, None);
        self.cv.notify_all();
    }

    fn me(st: &St) -> Option<usize> {
        st.by_os.get(&std::thread::current().id()).cloned()
    }

    /// A decision point that is not a lock acquisition (node RPC).
    pub fn yield_point(&self) {
        let mut g = self.m.lock().unwrap();
        let me = match Self::me(&g) {
            Some(m) => m,
            None => return,
        };
        g.status[me] = Status::Yield;
        Self::decide(&mut g, Some(me));
        self.cv.notify_all();
        g = self.park_until_chosen(g, me);
        if g.deadlock {
            drop(g);
            loop {
                std::thread::park();
            }
        }
        g.status[me] = Status::Running;
    }

    pub fn finished(&self) -> bool {
        let g = self.m.lock().unwrap();
        g.deadlock || g.status.iter().all(|s| *s == Status::Done)
    }

    pub fn deadlocked(&self) -> bool {
        self.m.lock().unwrap().deadlock
    }

    pub fn decisions(&self) -> Vec<Decision> {
        self.m.lock().unwrap().decisions.clone()
    }

    /// who waits for which lock held by whom (when deadlocked)
    pub fn wait_for(&self) -> Vec<(usize, String, Option<usize>)> {
        let g = self.m.lock().unwrap();
        g.status
            .iter()
            .enumerate()
            .filter_map(|(i, s)| match s {
                Status::Want(l) => Some((i, g.lock_names.get(l).cloned().unwrap_or_default(), g.owners.get(l).cloned())),
                _ => None,
            })
            .collect()
    }

    /// lock-order edges (held -> acquired) per thread, with lock names
    pub fn lock_order_edges(&self) -> Vec<(usize, String, String)> {
        let g = self.m.lock().unwrap();
        let mut out = Vec::new();
        for (t, l, held, _) in g.acquisitions.iter() {
            for h in held {
                let e = (*t, g.lock_names.get(h).cloned().unwrap_or_default(), g.lock_names.get(l).cloned().unwrap_or_default());
                if !out.contains(&e) {
                    out.push(e);
                }
            }
        }
        out
    }
}

fn short(loc: &'static Location<'static>) -> String {
    let f = loc.file().rsplit('/').next().unwrap_or("?");
    format!("{}:{}", f, loc.line())
}

impl SyncHook for Sched {
    fn before_lock(&self, lock: usize, created_at: &'static Location<'static>, at: &'static Location<'static>) {
        let mut g = self.m.lock().unwrap();
        let me = match Self::me(&g) {
            Some(m) => m,
            None => return, // threads the scheduler does not know pass through
        };
        g.lock_names.entry(lock).or_insert_with(|| short(created_at));
        g.status[me] = Status::Want(lock);
        Self::decide(&mut g, Some(me));
        self.cv.notify_all();
        g = self.park_until_chosen(g, me);
        if g.deadlock {
            drop(g);
            loop {
                std::thread::park();
            }
        }
        // chosen: the lock is free by construction
        let held: Vec<usize> = g.owners.iter().filter(|(_, t)| **t == me).map(|(l, _)| *l).collect();
        g.acquisitions.push((me, lock, held, short(at)));
        g.owners.insert(lock, me);
        g.status[me] = Status::Running;
    }

    fn after_lock(&self, _lock: usize) {}

    fn after_unlock(&self, lock: usize) {
        let mut g = self.m.lock().unwrap();
        if let Some(me) = Self::me(&g) {
            if g.owners.get(&lock) == Some(&me) {
                g.owners.remove(&lock);
            }
        }
    }
}

/// The scheduler the simulated node yields to before answering an RPC (set for the duration of a scheduled run).
pub static ACTIVE: Mutex<Option<Arc<Sched>>> = Mutex::new(None);

pub fn rpc_yield() {
    let s = ACTIVE.lock().unwrap().clone();
    if let Some(s) = s {
        s.yield_point();
    }
}
