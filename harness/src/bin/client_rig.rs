//! C05 / C13 / C14: binds spec/Client.tla to the REAL `watchtower-client` binary (crate watchtower-plugin).
//!
//! `client_rig run <scenarios.ndjson> <outdir> --client <bin> [--jobs N]`
//!     every line of the scenario file is one script {"name", "towers":["t1",..], "cfg":{"max_retry","auto_retry",
//!     "max_interval"}, "steps":[{"op":..}]} with the steps register / mode / queue / down / up / notify / await / release
//!     / wait_held / wait_req / wait_state / sleep / retry / abandon / probe / kill / kill_on / wait_dead / restart (see
//!     `Exec::run_step`; lib/clientlib.py builds them); each is executed against a fresh client process
//!     (CLN plugin stdio protocol, messages framed by "\n\n") and a set of scripted FAKE TOWERS (HTTP/1.1 servers on
//!     127.0.0.1, one key each, able to sign valid receipts exactly as the real tower does).  One ndjson trace per
//!     scenario is written to <outdir>/<name>.ndjson for spec/Trace_Client.tla; the client's stderr and log
//!     notifications go to <outdir>/<name>.stderr / .log.  A one-line JSON summary is printed on stdout.
//!
//! Trace events (field "ev"); "ts" is milliseconds since the start of the scenario, "i" the global sequence number.  An
//! event is written BEFORE the rig does what it announces (call, rep, env down, kill holds the trace lock) or right
//! after it observed it (req, ret, obs), so that the order of the lines is an order in which things can have happened:
//!   start    first line: name and script of the scenario
//!   boot     client process started and initialised (also after a restart); cfg = retry options (seconds)
//!   call     the rig is about to write a request to the client's stdin   {id, m, t?, l?}
//!   ret      the client answered it                                       {id, m, res, msg}
//!   noret    no answer: why = timeout | panic (a handler aborted meanwhile) | dead (process gone)
//!   req      a fake tower received a request (before answering)           {seq, t, ep, l, beh, cls}
//!   rep      the fake tower is about to write its answer                  {seq, t, ep, l, cls:[class read off the
//!            bytes sent], slots, start, expiry}
//!   env      tower switched up / down {t, up};  mode: what a tower is set to answer from now on {t, ep, cls, queued}
//!   obs      the observable state: db (rows of the SQLite file, second read-only connection, one read transaction)
//!            and mem (listtowers; memok = it answered); same = the state was read again and has not changed
//!   probe    listtowers + gettowerinfo of every tower: answered?
//!   abort    a panic message appeared on the client's stderr              {site, msg, poison}
//!   kill     SIGKILL delivered
//!   waited / note / skipped / other_req   bookkeeping of the script (not judged)
//!   end      end of the scenario; inconclusive = timing assumptions that could not be met
//! Names: towers t1.., locators l1.. (anything unknown is reported with its hex value prefixed by '?').

use std::collections::{HashMap, VecDeque};
use std::fs::{self, File};
use std::io::{BufRead, BufReader, Read, Write};
use std::net::{TcpListener, TcpStream};
use std::path::{Path, PathBuf};
use std::process::{Child, ChildStdin, Command, Stdio};
use std::str::FromStr;
use std::sync::atomic::{AtomicBool, AtomicU64, Ordering};
use std::sync::mpsc::{channel, Receiver, RecvTimeoutError, Sender};
use std::sync::{Arc, Condvar, Mutex};
use std::thread;
use std::time::{Duration, Instant};

use bitcoin::absolute::LockTime;
use bitcoin::hashes::{sha256d, Hash};
use bitcoin::secp256k1::{PublicKey, Secp256k1, SecretKey};
use bitcoin::transaction::Version;
use bitcoin::{Amount, OutPoint, ScriptBuf, Sequence, Transaction, TxIn, TxOut, Txid, Witness};
use rusqlite::{Connection, OpenFlags};
use serde_json::{json, Map, Value};

use teos_common::appointment::Locator;
use teos_common::cryptography;
use teos_common::receipts::{AppointmentReceipt, RegistrationReceipt};
use teos_common::{TowerId, UserId};

// ---------------------------------------------------------------------------------------------------------------------
// small helpers

fn sha(data: &[u8]) -> [u8; 32] {
    sha256d::Hash::hash(data).to_byte_array()
}

fn key_from(label: &str) -> (SecretKey, PublicKey) {
    let mut n = 0u32;
    loop {
        let h = sha(format!("client_rig:{label}:{n}").as_bytes());
        if let Ok(sk) = SecretKey::from_slice(&h) {
            return (sk, PublicKey::from_secret_key(&Secp256k1::new(), &sk));
        }
        n += 1;
    }
}

fn jstr<'a>(v: &'a Value, k: &str) -> &'a str {
    v.get(k).and_then(|x| x.as_str()).unwrap_or("")
}

fn ju64(v: &Value, k: &str, d: u64) -> u64 {
    v.get(k).and_then(|x| x.as_u64()).unwrap_or(d)
}

fn jbool(v: &Value, k: &str, d: bool) -> bool {
    v.get(k).and_then(|x| x.as_bool()).unwrap_or(d)
}

// ---------------------------------------------------------------------------------------------------------------------
// names <-> concrete values

#[derive(Default)]
struct Names {
    tower_by_hex: HashMap<String, String>,
    loc_by_hex: HashMap<String, String>,
    /// every tower listens on two addresses: port -> 1 (the one it is first registered through) | 2 (the other one)
    addr_by_port: HashMap<u16, i64>,
}

impl Names {
    fn tower(&self, hex: &str) -> String {
        self.tower_by_hex
            .get(hex)
            .cloned()
            .unwrap_or_else(|| format!("?{hex}"))
    }
    /// 1 | 2 for the addresses of the fake towers, 0 for anything else
    fn addr(&self, net_addr: &str) -> i64 {
        net_addr
            .rsplit(':')
            .next()
            .and_then(|p| p.parse::<u16>().ok())
            .and_then(|p| self.addr_by_port.get(&p).copied())
            .unwrap_or(0)
    }
    fn loc(&self, hex: &str) -> String {
        self.loc_by_hex
            .get(hex)
            .cloned()
            .unwrap_or_else(|| format!("?{hex}"))
    }
}

/// commitment txid and penalty transaction of the symbolic locator `l` in scenario `scn`
fn revocation_of(scn: &str, l: &str) -> (Txid, Transaction) {
    let txid = Txid::from_byte_array(sha(format!("commitment:{scn}:{l}").as_bytes()));
    let penalty = Transaction {
        version: Version::TWO,
        lock_time: LockTime::ZERO,
        input: vec![TxIn {
            previous_output: OutPoint { txid, vout: 0 },
            script_sig: ScriptBuf::new(),
            sequence: Sequence::MAX,
            witness: Witness::new(),
        }],
        output: vec![TxOut {
            value: Amount::from_sat(10_000 + (sha(l.as_bytes())[0] as u64)),
            script_pubkey: ScriptBuf::from_bytes(vec![0x51]),
        }],
    };
    (txid, penalty)
}

// ---------------------------------------------------------------------------------------------------------------------
// trace

struct TraceInner {
    file: File,
    n: u64,
    /// the last observation written (one that repeats it is written as a short "same" event, and only if something
    /// else was logged in between)
    last_obs: Option<String>,
    dirty: bool,
}

struct Trace {
    out: Mutex<TraceInner>,
    t0: Instant,
}

/// TLC's Json module has no null: every null becomes the string "none"
fn no_nulls(v: &mut Value) {
    match v {
        Value::Null => *v = json!("none"),
        Value::Array(a) => a.iter_mut().for_each(no_nulls),
        Value::Object(o) => o.values_mut().for_each(no_nulls),
        _ => {}
    }
}

fn write_event(g: &mut TraceInner, t0: &Instant, mut ev: Value) -> u64 {
    no_nulls(&mut ev);
    // every event carries the fields the validator may look at
    for (k, d) in [("t", json!("-")), ("l", json!("-")), ("id", json!(0)), ("m", json!("-")), ("res", json!("-")), ("port", json!(0))] {
        if ev.get(k).is_none() {
            ev[k] = d;
        }
    }
    g.n += 1;
    g.dirty = true;
    let i = g.n;
    let o = ev.as_object_mut().unwrap();
    o.insert("i".into(), json!(i));
    if !o.contains_key("ts") {
        o.insert("ts".into(), json!(t0.elapsed().as_millis() as u64));
    }
    let line = serde_json::to_string(&ev).unwrap();
    g.file.write_all(line.as_bytes()).unwrap();
    g.file.write_all(b"\n").unwrap();
    g.file.flush().unwrap();
    i
}

impl Trace {
    fn new(path: &Path) -> Self {
        Trace {
            out: Mutex::new(TraceInner { file: File::create(path).expect("trace file"), n: 0, last_obs: None, dirty: false }),
            t0: Instant::now(),
        }
    }
    fn ms(&self) -> u64 {
        self.t0.elapsed().as_millis() as u64
    }
    fn emit(&self, ev: Value) -> u64 {
        let mut g = self.out.lock().unwrap();
        write_event(&mut g, &self.t0, ev)
    }
    fn events(&self) -> u64 {
        self.out.lock().unwrap().n
    }
}

// ---------------------------------------------------------------------------------------------------------------------
// fake tower

#[derive(Clone, Debug)]
struct Beh(Value);

impl Beh {
    fn kind(&self) -> String {
        jstr(&self.0, "k").to_owned()
    }
}

struct TowerState {
    up: bool,
    bound: bool,
    mode: HashMap<String, Beh>,
    queue: HashMap<String, VecDeque<Beh>>,
    /// subscription the tower believes the user has
    slots: u32,
    start: u32,
    expiry: u32,
    nreq: u64,
    held: u64,
    release: u64,
    /// answer to give to the held request number .. (set by the release step)
    override_beh: HashMap<u64, Beh>,
    inflight: u64,
    /// kill the client when the next request (after `skip` more) arrives / has been answered
    kill_on: Option<(String, u64, u64)>, // (when, skip, delay_us)
    stop: bool,
}

struct Tower {
    name: String,
    sk: SecretKey,
    other_sk: SecretKey,
    id: TowerId,
    port: u16,
    /// second address of the same tower (registertower through another address)
    alt_port: u16,
    st: Mutex<TowerState>,
    cv: Condvar,
}

struct Shared {
    scn: String,
    trace: Trace,
    names: Mutex<Names>,
    towers: Vec<Arc<Tower>>,
    client: Mutex<Option<Arc<Client>>>,
    db_path: PathBuf,
    /// listtowers stopped answering after a panic was reported: the state mutex is poisoned for good
    wedged: AtomicBool,
    seq: AtomicU64,
    user_id: Mutex<Option<UserId>>,
    inconclusive: Mutex<Vec<String>>,
    done: AtomicBool,
}

impl Shared {
    fn tower(&self, name: &str) -> Arc<Tower> {
        self.towers
            .iter()
            .find(|t| t.name == name)
            .unwrap_or_else(|| panic!("unknown tower {name}"))
            .clone()
    }
    fn client(&self) -> Option<Arc<Client>> {
        self.client.lock().unwrap().clone()
    }
}

fn http_reply(stream: &mut TcpStream, status: u16, ctype: &str, body: &[u8]) {
    let head = format!(
        "HTTP/1.1 {status} X\r\nContent-Type: {ctype}\r\nContent-Length: {}\r\nConnection: close\r\n\r\n",
        body.len()
    );
    let _ = stream.write_all(head.as_bytes());
    let _ = stream.write_all(body);
    let _ = stream.flush();
}

fn read_http_request(stream: &mut TcpStream) -> Option<(String, String, Vec<u8>)> {
    stream.set_read_timeout(Some(Duration::from_secs(5))).ok()?;
    let mut buf = Vec::new();
    let mut tmp = [0u8; 4096];
    let head_end;
    loop {
        let n = stream.read(&mut tmp).ok()?;
        if n == 0 {
            return None;
        }
        buf.extend_from_slice(&tmp[..n]);
        if let Some(p) = buf.windows(4).position(|w| w == b"\r\n\r\n") {
            head_end = p + 4;
            break;
        }
        if buf.len() > 1 << 20 {
            return None;
        }
    }
    let head = String::from_utf8_lossy(&buf[..head_end]).to_string();
    let mut lines = head.split("\r\n");
    let first = lines.next()?.to_owned();
    let mut parts = first.split(' ');
    let method = parts.next()?.to_owned();
    let path = parts.next()?.to_owned();
    let mut clen = 0usize;
    for l in lines {
        let ll = l.to_ascii_lowercase();
        if let Some(v) = ll.strip_prefix("content-length:") {
            clen = v.trim().parse().unwrap_or(0);
        }
    }
    let mut body = buf[head_end..].to_vec();
    while body.len() < clen {
        let n = stream.read(&mut tmp).ok()?;
        if n == 0 {
            break;
        }
        body.extend_from_slice(&tmp[..n]);
    }
    Some((method, path, body))
}

/// Abstract reply classes a behaviour may be read as by a conforming client (what Client.tla calls the reply class).
/// what a tower set to `beh` counts as for the timing obligations ("mode" events): a tower that holds its answers is
/// not well-behaved
fn mode_classes(ep: &str, beh: &Beh) -> Vec<String> {
    if jbool(&beh.0, "hold", false) {
        vec!["hold".to_owned()]
    } else {
        classes_of(ep, beh)
    }
}

fn classes_of(ep: &str, beh: &Beh) -> Vec<String> {
    if let Some(c) = beh.0.get("cls").and_then(|c| c.as_array()) {
        return c.iter().map(|x| x.as_str().unwrap_or("").to_owned()).collect();
    }
    let k = beh.kind();
    let c = match (ep, k.as_str()) {
        (_, "accept") => "accept",
        (_, "sub_error") => {
            if ep == "add" {
                "sub_error"
            } else {
                "garbage"
            }
        }
        (_, "reject") => {
            if ep == "add" {
                "reject"
            } else {
                "garbage"
            }
        }
        (_, "badsig") => "badsig",
        (_, "malsig") => "malsig",
        _ => "garbage",
    };
    vec![c.to_owned()]
}

fn as_u32(v: Option<&Value>) -> Option<u32> {
    let v = v?;
    if v.is_f64() {
        return None;
    }
    v.as_u64().and_then(|x| u32::try_from(x).ok())
}

fn is_hex(v: Option<&Value>) -> bool {
    v.and_then(|x| x.as_str()).map(|s| hex::decode(s).is_ok()).unwrap_or(false)
}

/// What the bytes of an answer ARE for a client that parses them as the protocol says (serde shapes of
/// teos_common::protos and watchtower_plugin::net::http::ApiError; signatures judged with teos_common's own
/// verifier): (class, slots, start, expiry).  Classes: accept | sub_error | reject | badsig | malsig | garbage.
fn classify_answer(ep: &str, bytes: &[u8], user_sig: &str, user_id: Option<UserId>, tower: &TowerId) -> (String, u32, u32, u32) {
    let garbage = ("garbage".to_owned(), 0, 0, 0);
    let v: Value = match serde_json::from_slice(bytes) {
        Ok(v) => v,
        Err(_) => return garbage,
    };
    let o = match v.as_object() {
        Some(o) => o,
        None => return garbage,
    };
    if ep == "add" {
        let resp = (
            is_hex(o.get("locator")),
            as_u32(o.get("start_block")),
            o.get("signature").and_then(|x| x.as_str()),
            as_u32(o.get("available_slots")),
            as_u32(o.get("subscription_expiry")),
        );
        if let (true, Some(sb), Some(sig), Some(slots), Some(_)) = resp {
            let receipt = AppointmentReceipt::with_signature(user_sig.to_owned(), sb, sig.to_owned());
            return match cryptography::recover_pk(&receipt.to_vec(), sig) {
                Ok(pk) if TowerId(pk) == *tower => ("accept".to_owned(), slots, 0, 0),
                Ok(_) => ("badsig".to_owned(), slots, 0, 0),
                Err(_) => ("malsig".to_owned(), slots, 0, 0),
            };
        }
        let code = o.get("error_code").filter(|c| !c.is_f64()).and_then(|c| c.as_u64()).filter(|c| *c <= 255);
        if let (Some(_), Some(code)) = (o.get("error").and_then(|e| e.as_str()), code) {
            return (if code == 7 { "sub_error" } else { "reject" }.to_owned(), 0, 0, 0);
        }
        garbage
    } else {
        let resp = (
            is_hex(o.get("user_id")),
            as_u32(o.get("available_slots")),
            as_u32(o.get("subscription_start")),
            as_u32(o.get("subscription_expiry")),
            o.get("subscription_signature").and_then(|x| x.as_str()),
        );
        if let (true, Some(slots), Some(start), Some(expiry), Some(sig)) = resp {
            let ok = user_id
                .map(|uid| RegistrationReceipt::with_signature(uid, slots, start, expiry, sig.to_owned()).verify(tower))
                .unwrap_or(false);
            return (if ok { "accept" } else { "badsig" }.to_owned(), slots, start, expiry);
        }
        garbage
    }
}

const MALFORMED_SIGS: [&str; 6] = [
    "",
    "!!!! not zbase32 !!!!",
    "d75ygmfz",
    // zbase32 alphabet, right length (104 characters), but not a valid recoverable signature header
    "yyyyyyyyyyyyyyyyyyyyyyyyyyyyyyyyyyyyyyyyyyyyyyyyyyyyyyyyyyyyyyyyyyyyyyyyyyyyyyyyyyyyyyyyyyyyyyyyyyyyyyyy",
    "9999999999999999999999999999999999999999999999999999999999999999999999999999999999999999999999999999999",
    "d75ygmfzk3x1pwbnrzh8q6hxmgggwqk5dzpn9r77t4xqo1rwsdmzfm4pye1srmbxgn5zdmo4cy8wupkeu7kgrhuwmgxx9mapz8yepb1f4u",
];

impl Tower {
    fn handle(self: &Arc<Self>, sh: &Arc<Shared>, mut stream: TcpStream) {
        let (method, path, body) = match read_http_request(&mut stream) {
            Some(x) => x,
            None => return,
        };
        let ep = match path.as_str() {
            "/register" => "reg",
            "/add_appointment" => "add",
            other => {
                // not part of the model (ping, get_appointment, ...): answered 404, logged for the record only
                sh.trace.emit(json!({"ev":"other_req","t":self.name,"path":other,"method":method}));
                http_reply(&mut stream, 404, "application/json", b"{\"error\":\"not found\",\"error_code\":1}");
                return;
            }
        };
        let jb: Value = serde_json::from_slice(&body).unwrap_or(Value::Null);
        let mut lname = String::new();
        let mut user_sig = String::new();
        if ep == "add" {
            let lhex = jb
                .get("appointment")
                .and_then(|a| a.get("locator"))
                .and_then(|l| l.as_str())
                .unwrap_or("")
                .to_owned();
            lname = sh.names.lock().unwrap().loc(&lhex);
            user_sig = jstr(&jb, "signature").to_owned();
        } else if let Ok(uid) = UserId::from_str(jstr(&jb, "user_id")) {
            *sh.user_id.lock().unwrap() = Some(uid);
        }
        // choose the behaviour, note the request
        let (beh, seq, kill, from_queue) = {
            let mut st = self.st.lock().unwrap();
            st.nreq += 1;
            st.inflight += 1;
            let popped = st.queue.get_mut(ep).and_then(|q| q.pop_front());
            let from_queue = popped.is_some();
            if popped.is_some() {
                let left = st.queue.get(ep).map(|q| q.len()).unwrap_or(0);
                let dflt = st.mode.get(ep).cloned().unwrap_or(Beh(json!({"k":"accept"})));
                sh.trace.emit(json!({"ev":"mode","t":self.name,"ep":ep,"cls":mode_classes(ep, &dflt),"queued":left}));
            }
            let beh = popped
                .or_else(|| st.mode.get(ep).cloned())
                .unwrap_or(Beh(json!({"k":"accept"})));
            let kill = match st.kill_on.clone() {
                Some((w, 0, d)) => {
                    st.kill_on = None;
                    Some((w, d))
                }
                Some((w, n, d)) => {
                    st.kill_on = Some((w, n - 1, d));
                    None
                }
                None => None,
            };
            (beh, sh.seq.fetch_add(1, Ordering::SeqCst) + 1, kill, from_queue)
        };
        let cls = classes_of(ep, &beh);
        let k = beh.kind();
        let lfield = if ep == "add" { lname.clone() } else { "-".to_owned() };
        sh.trace.emit(json!({"ev":"req","seq":seq,"t":self.name,"ep":ep,"l":lfield,"beh":beh.0,"cls":cls}));
        if let Some((w, _)) = &kill {
            if w == "arrival" {
                do_kill(sh, "on request arrival");
            }
        }
        // the state the client is in while it waits for this answer
        emit_obs(sh, "req");
        let (beh, cls, k) = if jbool(&beh.0, "hold", false) {
            let mut st = self.st.lock().unwrap();
            st.held += 1;
            let my = st.held;
            self.cv.notify_all();
            // held until the script releases it - or until the tower is no longer set to hold its answers (a request
            // that arrived just before "mode ..; release" must not be left behind)
            while st.release < my && !st.stop {
                let still = from_queue || st.mode.get(ep).map(|b| jbool(&b.0, "hold", false)).unwrap_or(false);
                if !still {
                    break;
                }
                st = self.cv.wait_timeout(st, Duration::from_millis(50)).unwrap().0;
            }
            // the script may decide the answer when it releases the request
            match st.override_beh.remove(&my) {
                Some(b) => {
                    let c = classes_of(ep, &b);
                    let k = b.kind();
                    (b, c, k)
                }
                None => (beh, cls, k),
            }
        } else {
            (beh, cls, k)
        };
        let d = ju64(&beh.0, "delay_ms", 0);
        if d > 0 {
            thread::sleep(Duration::from_millis(d));
        }
        // build the answer
        let status = ju64(&beh.0, "status", 0) as u16;
        let mut rep_ev = json!({"ev":"rep","seq":seq,"t":self.name,"ep":ep,"l":lfield,"cls":cls,"k":k,
                                "slots":0,"start":0,"expiry":0,"sigok":true});
        let (code, ctype, bytes): (u16, String, Vec<u8>) = if ep == "reg" {
            self.answer_register(&beh, &jb, &mut rep_ev)
        } else {
            self.answer_add(&beh, &jb, &user_sig, &mut rep_ev)
        };
        let code = if status != 0 { status } else { code };
        // the class of the answer is read off the bytes that are sent (unless the script insists)
        if beh.0.get("cls").is_none() {
            let uid = *sh.user_id.lock().unwrap();
            let (c, slots, start, expiry) = if k == "reset" || k == "nothttp" {
                ("garbage".to_owned(), 0, 0, 0)
            } else {
                classify_answer(ep, &bytes, &user_sig, uid, &self.id)
            };
            rep_ev["cls"] = json!([c]);
            rep_ev["slots"] = json!(slots);
            rep_ev["start"] = json!(start);
            rep_ev["expiry"] = json!(expiry);
        }
        if k == "reset" {
            // the connection is closed without an answer
            sh.trace.emit(rep_ev);
            drop(stream);
        } else if k == "nothttp" {
            // what answers is not HTTP at all (e.g. a TLS alert, another service on that port)
            sh.trace.emit(rep_ev);
            let _ = stream.write_all(b"\x15\x03\x01\x00\x02\x02\x28 this is not an HTTP response\r\n\r\n");
            let _ = stream.flush();
            drop(stream);
        } else {
            sh.trace.emit(rep_ev);
            http_reply(&mut stream, code, &ctype, &bytes);
            drop(stream);
        }
        {
            let mut st = self.st.lock().unwrap();
            st.inflight -= 1;
            self.cv.notify_all();
        }
        if let Some((w, delay_us)) = kill {
            if w == "replied" {
                if delay_us > 0 {
                    thread::sleep(Duration::from_micros(delay_us));
                }
                do_kill(sh, "after the tower answered");
            }
        }
    }

    fn answer_register(&self, beh: &Beh, req: &Value, rep_ev: &mut Value) -> (u16, String, Vec<u8>) {
        let k = beh.kind();
        let uid_hex = jstr(req, "user_id").to_owned();
        let user_id = UserId::from_str(&uid_hex).ok();
        match k.as_str() {
            "accept" | "badsig" | "malsig" | "mutate" => {
                let (slots, start, expiry) = {
                    let mut st = self.st.lock().unwrap();
                    // absolute values win; otherwise the subscription grows by (ds, de)
                    let slots = beh.0.get("slots").and_then(|x| x.as_u64()).map(|x| x as u32).unwrap_or_else(|| {
                        st.slots.saturating_add(ju64(&beh.0, "ds", 100) as u32)
                    });
                    let expiry = beh.0.get("expiry").and_then(|x| x.as_u64()).map(|x| x as u32).unwrap_or_else(|| {
                        st.expiry.saturating_add(ju64(&beh.0, "de", 100) as u32)
                    });
                    let start = beh.0.get("start").and_then(|x| x.as_u64()).map(|x| x as u32).unwrap_or(
                        if st.start == 0 { 1000 } else { st.start });
                    if k == "accept" {
                        st.slots = slots;
                        st.start = start;
                        st.expiry = expiry;
                    }
                    (slots, start, expiry)
                };
                let sig = match (k.as_str(), user_id) {
                    ("malsig", _) => MALFORMED_SIGS[(ju64(&beh.0, "variant", 1) as usize) % MALFORMED_SIGS.len()].to_owned(),
                    (_, Some(uid)) => {
                        let mut r = RegistrationReceipt::new(uid, slots, start, expiry);
                        r.sign(if k == "badsig" { &self.other_sk } else { &self.sk });
                        r.signature().unwrap()
                    }
                    _ => String::new(),
                };
                let sigok = user_id
                    .map(|uid| RegistrationReceipt::with_signature(uid, slots, start, expiry, sig.clone()).verify(&self.id))
                    .unwrap_or(false);
                let mut body = json!({"user_id": uid_hex, "available_slots": slots, "subscription_start": start,
                                      "subscription_expiry": expiry, "subscription_signature": sig});
                apply_mutation(&mut body, beh);
                rep_ev["slots"] = json!(slots);
                rep_ev["start"] = json!(start);
                rep_ev["expiry"] = json!(expiry);
                rep_ev["sigok"] = json!(sigok);
                (200, "application/json".into(), serde_json::to_vec(&body).unwrap())
            }
            _ => garbage_answer(beh),
        }
    }

    fn answer_add(&self, beh: &Beh, req: &Value, user_sig: &str, rep_ev: &mut Value) -> (u16, String, Vec<u8>) {
        let k = beh.kind();
        match k.as_str() {
            "accept" | "badsig" | "malsig" | "mutate" => {
                let (slots, start_block, expiry) = {
                    let mut st = self.st.lock().unwrap();
                    if k == "accept" {
                        st.slots = st.slots.saturating_sub(1);
                    }
                    let slots = beh.0.get("slots").and_then(|x| x.as_u64()).map(|x| x as u32).unwrap_or(st.slots);
                    (slots, ju64(&beh.0, "start_block", 1001) as u32, st.expiry)
                };
                let mut receipt = AppointmentReceipt::new(user_sig.to_owned(), start_block);
                receipt.sign(if k == "badsig" { &self.other_sk } else { &self.sk });
                let sig = if k == "malsig" {
                    MALFORMED_SIGS[(ju64(&beh.0, "variant", 1) as usize) % MALFORMED_SIGS.len()].to_owned()
                } else {
                    receipt.signature().unwrap()
                };
                let locator = req.get("appointment").and_then(|a| a.get("locator")).cloned().unwrap_or(json!(""));
                let mut body = json!({"locator": locator, "start_block": start_block, "signature": sig,
                                      "available_slots": slots, "subscription_expiry": expiry});
                apply_mutation(&mut body, beh);
                rep_ev["slots"] = json!(slots);
                (200, "application/json".into(), serde_json::to_vec(&body).unwrap())
            }
            "sub_error" => (
                401,
                "application/json".into(),
                serde_json::to_vec(&json!({"error":"subscription error","error_code":7})).unwrap(),
            ),
            "reject" => (
                400,
                "application/json".into(),
                serde_json::to_vec(&json!({"error":"rejected","error_code": ju64(&beh.0, "code", 9)})).unwrap(),
            ),
            _ => garbage_answer(beh),
        }
    }
}

/// structured mutation of a valid answer: {"set":{field:value}} and {"del":[field]}
fn apply_mutation(body: &mut Value, beh: &Beh) {
    if let Some(set) = beh.0.get("set").and_then(|s| s.as_object()) {
        for (k, v) in set {
            body[k] = v.clone();
        }
    }
    if let Some(del) = beh.0.get("del").and_then(|s| s.as_array()) {
        for k in del {
            if let Some(k) = k.as_str() {
                body.as_object_mut().unwrap().remove(k);
            }
        }
    }
}

/// answers that are neither a valid response nor (unless said so) an API error object
fn garbage_answer(beh: &Beh) -> (u16, String, Vec<u8>) {
    let k = beh.kind();
    let json_ct = "application/json".to_owned();
    match k.as_str() {
        "raw" => (
            ju64(&beh.0, "code", 200) as u16,
            beh.0.get("ctype").and_then(|c| c.as_str()).unwrap_or("application/json").to_owned(),
            jstr(&beh.0, "body").as_bytes().to_vec(),
        ),
        "json" => (
            ju64(&beh.0, "code", 200) as u16,
            json_ct,
            serde_json::to_vec(beh.0.get("body").unwrap_or(&Value::Null)).unwrap(),
        ),
        "empty" => (200, json_ct, Vec::new()),
        "html" => (
            502,
            "text/html".into(),
            b"<html><head><title>502 Bad Gateway</title></head><body><h1>Bad Gateway</h1></body></html>".to_vec(),
        ),
        "huge" => {
            let n = ju64(&beh.0, "bytes", 3_000_000) as usize;
            let mut v = Vec::with_capacity(n + 16);
            v.extend_from_slice(b"{\"x\":\"");
            v.resize(n, b'a');
            v.extend_from_slice(b"\"}");
            (200, json_ct, v)
        }
        "error" => (
            ju64(&beh.0, "status", 400) as u16,
            json_ct,
            serde_json::to_vec(&json!({"error": "some error", "error_code": ju64(&beh.0, "code", 9)})).unwrap(),
        ),
        // "garbage" and anything unknown
        _ => match ju64(&beh.0, "variant", 0) % 6 {
            0 => (200, json_ct, b"this is not json".to_vec()),
            1 => (200, json_ct, b"{\"unexpected\": \"shape\"}".to_vec()),
            2 => (500, "text/plain".into(), b"Internal Server Error".to_vec()),
            3 => (200, json_ct, b"[1, 2, 3]".to_vec()),
            4 => (200, json_ct, b"{\"error\": \"code out of range\", \"error_code\": 4096}".to_vec()),
            _ => (200, json_ct, b"null".to_vec()),
        },
    }
}

fn tower_acceptor(tw: Arc<Tower>, sh: Arc<Shared>) {
    let mut listener: Option<(TcpListener, TcpListener)> = None;
    let mut bind_failures = 0u32;
    loop {
        let (want_up, stop) = {
            let st = tw.st.lock().unwrap();
            (st.up, st.stop)
        };
        if stop {
            break;
        }
        if want_up && listener.is_none() {
            match TcpListener::bind(("127.0.0.1", tw.port))
                .and_then(|a| TcpListener::bind(("127.0.0.1", tw.alt_port)).map(|b| (a, b)))
            {
                Ok(l) => {
                    l.0.set_nonblocking(true).unwrap();
                    l.1.set_nonblocking(true).unwrap();
                    listener = Some(l);
                    let mut st = tw.st.lock().unwrap();
                    st.bound = true;
                    tw.cv.notify_all();
                }
                Err(e) => {
                    bind_failures += 1;
                    if bind_failures == 400 {
                        sh.inconclusive
                            .lock()
                            .unwrap()
                            .push(format!("tower {} cannot bind port {}: {e}", tw.name, tw.port));
                    }
                    thread::sleep(Duration::from_millis(5));
                    continue;
                }
            }
        } else if !want_up && listener.is_some() {
            listener = None;
            let mut st = tw.st.lock().unwrap();
            st.bound = false;
            tw.cv.notify_all();
        }
        match &listener {
            Some(l) => match l.0.accept().or_else(|_| l.1.accept()) {
                Ok((stream, _)) => {
                    stream.set_nonblocking(false).ok();
                    stream.set_nodelay(true).ok();
                    let tw2 = tw.clone();
                    let sh2 = sh.clone();
                    thread::spawn(move || tw2.handle(&sh2, stream));
                }
                Err(_) => thread::sleep(Duration::from_millis(1)),
            },
            None => thread::sleep(Duration::from_millis(2)),
        }
    }
}

// ---------------------------------------------------------------------------------------------------------------------
// client process

struct Client {
    child: Mutex<Child>,
    stdin: Mutex<ChildStdin>,
    waiting: Arc<Mutex<HashMap<u64, Sender<Value>>>>,
    next_id: AtomicU64,
    dead: Arc<AtomicBool>,
    panics: Arc<Mutex<Vec<String>>>,
}

enum CallErr {
    Timeout,
    Dead,
}

impl Client {
    fn spawn(bin: &Path, data_dir: &Path, sh_trace: Arc<Shared>, stderr_path: &Path, log_path: &Path) -> std::io::Result<Arc<Client>> {
        let mut child = Command::new(bin)
            .env("TOWERS_DATA_DIR", data_dir)
            .env("CLN_PLUGIN_LOG", "debug")
            .env("RUST_BACKTRACE", "0")
            .stdin(Stdio::piped())
            .stdout(Stdio::piped())
            .stderr(Stdio::piped())
            .spawn()?;
        let stdin = child.stdin.take().unwrap();
        let mut stdout = child.stdout.take().unwrap();
        let stderr = child.stderr.take().unwrap();
        let waiting: Arc<Mutex<HashMap<u64, Sender<Value>>>> = Arc::new(Mutex::new(HashMap::new()));
        let dead = Arc::new(AtomicBool::new(false));
        let panics = Arc::new(Mutex::new(Vec::new()));
        // stdout: frames separated by an empty line
        {
            let waiting = waiting.clone();
            let dead = dead.clone();
            let mut logf = fs::OpenOptions::new().create(true).append(true).open(log_path)?;
            let sh = sh_trace.clone();
            thread::spawn(move || {
                let mut buf: Vec<u8> = Vec::new();
                let mut tmp = [0u8; 65536];
                loop {
                    let n = match stdout.read(&mut tmp) {
                        Ok(0) | Err(_) => break,
                        Ok(n) => n,
                    };
                    buf.extend_from_slice(&tmp[..n]);
                    while let Some(p) = buf.windows(2).position(|w| w == b"\n\n") {
                        let frame: Vec<u8> = buf.drain(..p + 2).collect();
                        let v: Value = match serde_json::from_slice(&frame[..p]) {
                            Ok(v) => v,
                            Err(_) => continue,
                        };
                        if let Some(id) = v.get("id").and_then(|i| i.as_u64()) {
                            if let Some(tx) = waiting.lock().unwrap().remove(&id) {
                                let _ = tx.send(v);
                            }
                        } else if jstr(&v, "method") == "log" {
                            let _ = writeln!(logf, "{} {} {}", sh.trace.ms(), jstr(&v["params"], "level"), jstr(&v["params"], "message"));
                        }
                    }
                }
                dead.store(true, Ordering::SeqCst);
                waiting.lock().unwrap().clear();
            });
        }
        // stderr: kept, and watched for panic messages
        {
            let panics = panics.clone();
            let mut errf = fs::OpenOptions::new().create(true).append(true).open(stderr_path)?;
            let sh = sh_trace;
            thread::spawn(move || {
                let rd = BufReader::new(stderr);
                let mut pending: Option<String> = None;
                for line in rd.lines() {
                    let line = match line {
                        Ok(l) => l,
                        Err(_) => break,
                    };
                    let _ = writeln!(errf, "{line}");
                    // "thread .. panicked at <site>:" is followed by the message; poison = the panic is the unwrap() of
                    // a lock() on a mutex another panic has poisoned (a consequence, not a cause)
                    if let Some(site) = pending.take() {
                        let poison = line.contains("PoisonError");
                        sh.trace.emit(json!({"ev":"abort","site":site,"msg":line,"poison":poison}));
                    }
                    if let Some(p) = line.find("panicked at ") {
                        let site = line[p + 12..].trim_end_matches(':').to_owned();
                        panics.lock().unwrap().push(site.clone());
                        pending = Some(site);
                    }
                }
                if let Some(site) = pending.take() {
                    sh.trace.emit(json!({"ev":"abort","site":site,"msg":"","poison":false}));
                }
            });
        }
        Ok(Arc::new(Client {
            child: Mutex::new(child),
            stdin: Mutex::new(stdin),
            waiting,
            next_id: AtomicU64::new(1),
            dead,
            panics,
        }))
    }

    fn send(&self, method: &str, params: Value) -> (u64, Receiver<Value>) {
        self.send_logged(method, params, |_| {})
    }

    /// `before(id)` runs after the id is chosen and before the request is written (the "call" event goes there: what
    /// the client does with the request must come later in the trace)
    fn send_logged<F: FnOnce(u64)>(&self, method: &str, params: Value, before: F) -> (u64, Receiver<Value>) {
        let id = self.next_id.fetch_add(1, Ordering::SeqCst);
        let (tx, rx) = channel();
        self.waiting.lock().unwrap().insert(id, tx);
        before(id);
        let msg = json!({"jsonrpc":"2.0","id":id,"method":method,"params":params});
        let mut s = serde_json::to_vec(&msg).unwrap();
        s.extend_from_slice(b"\n\n");
        let mut g = self.stdin.lock().unwrap();
        let _ = g.write_all(&s);
        let _ = g.flush();
        (id, rx)
    }

    /// waits for the answer; the waiter stays registered on a timeout (call `forget` to drop it)
    fn wait(&self, rx: &Receiver<Value>, timeout: Duration) -> Result<Value, CallErr> {
        let deadline = Instant::now() + timeout;
        loop {
            match rx.recv_timeout(Duration::from_millis(20)) {
                Ok(v) => return Ok(v),
                Err(RecvTimeoutError::Timeout) => {
                    if self.dead.load(Ordering::SeqCst) {
                        return Err(CallErr::Dead);
                    }
                    if Instant::now() > deadline {
                        return Err(CallErr::Timeout);
                    }
                }
                Err(RecvTimeoutError::Disconnected) => return Err(CallErr::Dead),
            }
        }
    }

    fn call(&self, method: &str, params: Value, timeout: Duration) -> Result<Value, CallErr> {
        let (id, rx) = self.send(method, params);
        let r = self.wait(&rx, timeout);
        if r.is_err() {
            self.forget(id);
        }
        r
    }

    fn forget(&self, id: u64) {
        self.waiting.lock().unwrap().remove(&id);
    }

    fn kill(&self) {
        let mut c = self.child.lock().unwrap();
        let _ = c.kill(); // SIGKILL
        let _ = c.wait();
        self.dead.store(true, Ordering::SeqCst);
    }

    fn is_dead(&self) -> bool {
        self.dead.load(Ordering::SeqCst)
    }
}

/// SIGKILL.  The trace is locked meanwhile: no observation is in progress while the process dies, and everything
/// that notices the death is logged after the "kill" line.
fn do_kill(sh: &Arc<Shared>, why: &str) {
    let mut g = sh.trace.out.lock().unwrap();
    let c = sh.client.lock().unwrap().take();
    if let Some(c) = c {
        c.kill();
        write_event(&mut g, &sh.trace.t0, json!({"ev":"kill","why":why}));
    }
}

// ---------------------------------------------------------------------------------------------------------------------
// observation of the client's state

fn read_db(sh: &Shared, path: &Path) -> Result<Value, String> {
    let conn = Connection::open_with_flags(path, OpenFlags::SQLITE_OPEN_READ_ONLY | OpenFlags::SQLITE_OPEN_NO_MUTEX)
        .map_err(|e| format!("open: {e}"))?;
    conn.busy_timeout(Duration::from_secs(5)).ok();
    conn.execute_batch("BEGIN").map_err(|e| format!("begin: {e}"))?;
    let names = sh.names.lock().unwrap();
    let user_id = *sh.user_id.lock().unwrap();
    let hx = |v: Vec<u8>| hex::encode(v);
    let mut out = Map::new();
    let q = |sql: &str, f: &mut dyn FnMut(&rusqlite::Row) -> Value| -> Result<Vec<Value>, String> {
        let mut stmt = conn.prepare(sql).map_err(|e| format!("{sql}: {e}"))?;
        let mut rows = stmt.query([]).map_err(|e| format!("{sql}: {e}"))?;
        let mut v = Vec::new();
        while let Some(r) = rows.next().map_err(|e| format!("{sql}: {e}"))? {
            v.push(f(r));
        }
        v.sort_by_key(|x| x.to_string());
        Ok(v)
    };
    let mut tower_keys: HashMap<String, TowerId> = HashMap::new();
    out.insert(
        "towers".into(),
        Value::Array(q("SELECT tower_id, net_addr, available_slots FROM towers", &mut |r| {
            let t = hx(r.get::<_, Vec<u8>>(0).unwrap_or_default());
            if let Ok(id) = TowerId::from_str(&t) {
                tower_keys.insert(t.clone(), id);
            }
            json!({"t": names.tower(&t), "slots": r.get::<_, i64>(2).unwrap_or(-1),
                   "addr": names.addr(&r.get::<_, String>(1).unwrap_or_default())})
        })?),
    );
    out.insert(
        "regs".into(),
        Value::Array(q(
            "SELECT tower_id, available_slots, subscription_start, subscription_expiry, signature FROM registration_receipts",
            &mut |r| {
                let t = hx(r.get::<_, Vec<u8>>(0).unwrap_or_default());
                let slots = r.get::<_, i64>(1).unwrap_or(-1);
                let start = r.get::<_, i64>(2).unwrap_or(-1);
                let expiry = r.get::<_, i64>(3).unwrap_or(-1);
                let sig: String = r.get::<_, String>(4).unwrap_or_default();
                let ok = match (user_id, TowerId::from_str(&t)) {
                    (Some(uid), Ok(tid)) => {
                        RegistrationReceipt::with_signature(uid, slots as u32, start as u32, expiry as u32, sig).verify(&tid)
                    }
                    _ => false,
                };
                json!({"t": names.tower(&t), "slots": slots, "start": start, "expiry": expiry, "ok": ok})
            },
        )?),
    );
    out.insert(
        "rcpts".into(),
        Value::Array(q(
            "SELECT tower_id, locator, start_block, user_signature, tower_signature FROM appointment_receipts",
            &mut |r| {
                let t = hx(r.get::<_, Vec<u8>>(0).unwrap_or_default());
                let l = hx(r.get::<_, Vec<u8>>(1).unwrap_or_default());
                let sb = r.get::<_, i64>(2).unwrap_or(-1);
                let us: String = r.get::<_, String>(3).unwrap_or_default();
                let ts: String = r.get::<_, String>(4).unwrap_or_default();
                let ok = match TowerId::from_str(&t) {
                    Ok(tid) => AppointmentReceipt::with_signature(us, sb as u32, ts).verify(&tid),
                    _ => false,
                };
                json!({"t": names.tower(&t), "l": names.loc(&l), "ok": ok})
            },
        )?),
    );
    for (name, table) in [("pend", "pending_appointments"), ("inv", "invalid_appointments")] {
        out.insert(
            name.into(),
            Value::Array(q(&format!("SELECT tower_id, locator FROM {table}"), &mut |r| {
                let t = hx(r.get::<_, Vec<u8>>(0).unwrap_or_default());
                let l = hx(r.get::<_, Vec<u8>>(1).unwrap_or_default());
                json!({"t": names.tower(&t), "l": names.loc(&l)})
            })?),
        );
    }
    out.insert(
        "bodies".into(),
        Value::Array(q("SELECT locator, length(encrypted_blob) FROM appointments", &mut |r| {
            let l = hx(r.get::<_, Vec<u8>>(0).unwrap_or_default());
            json!(names.loc(&l))
        })?),
    );
    out.insert(
        "proofs".into(),
        Value::Array(q("SELECT tower_id, locator FROM misbehaving_proofs", &mut |r| {
            let t = hx(r.get::<_, Vec<u8>>(0).unwrap_or_default());
            let l = hx(r.get::<_, Vec<u8>>(1).unwrap_or_default());
            json!({"t": names.tower(&t), "l": names.loc(&l)})
        })?),
    );
    conn.execute_batch("COMMIT").ok();
    Ok(Value::Object(out))
}

/// rows of the client's database.  While the client runs: second, read-only connection.  When it is dead (after a
/// SIGKILL a hot journal may be left behind, which only a writer can roll back): a private copy is opened instead.
fn db_snapshot(sh: &Shared, alive: bool) -> Value {
    if !sh.db_path.exists() {
        return json!({"towers":[],"regs":[],"rcpts":[],"pend":[],"inv":[],"bodies":[],"proofs":[]});
    }
    if alive {
        for _ in 0..3 {
            match read_db(sh, &sh.db_path) {
                Ok(v) => return v,
                Err(_) => thread::sleep(Duration::from_millis(10)),
            }
        }
        // a copy of the files of a running client, taken file by file, is not an observation of anything
        if sh.client().map(|c| !c.is_dead()).unwrap_or(false) {
            sh.inconclusive.lock().unwrap().push("database of the running client cannot be read".into());
        }
    }
    let dir = sh.db_path.parent().unwrap().join("snapcopy");
    let _ = fs::remove_dir_all(&dir);
    let _ = fs::create_dir_all(&dir);
    let base = sh.db_path.file_name().unwrap().to_string_lossy().to_string();
    for suffix in ["", "-journal", "-wal", "-shm"] {
        let src = sh.db_path.parent().unwrap().join(format!("{base}{suffix}"));
        if src.exists() {
            let _ = fs::copy(&src, dir.join(format!("{base}{suffix}")));
        }
    }
    // a read-write open rolls a hot journal back, exactly as the client's own next start would
    let copy = dir.join(&base);
    if let Ok(c) = Connection::open(&copy) {
        let _ = c.query_row("SELECT COUNT(*) FROM sqlite_master", [], |r| r.get::<_, i64>(0));
    }
    read_db(sh, &copy).unwrap_or_else(|e| {
        sh.inconclusive.lock().unwrap().push(format!("database cannot be read: {e}"));
        json!({"towers":[],"regs":[],"rcpts":[],"pend":[],"inv":[],"bodies":[],"proofs":[]})
    })
}

fn mem_snapshot(sh: &Shared, timeout: Duration) -> Value {
    let c = match sh.client() {
        Some(c) if !c.is_dead() => c,
        _ => return Value::Null,
    };
    let v = match c.call("listtowers", json!({}), timeout) {
        Ok(v) => v,
        Err(_) => return Value::Null,
    };
    let res = match v.get("result").and_then(|r| r.as_object()) {
        Some(r) => r,
        None => return Value::Null,
    };
    let names = sh.names.lock().unwrap();
    let mut out: Vec<Value> = Vec::new();
    for (tid, s) in res {
        let locs = |k: &str| -> Vec<Value> {
            let mut v: Vec<String> = s
                .get(k)
                .and_then(|a| a.as_array())
                .map(|a| a.iter().map(|x| names.loc(x.as_str().unwrap_or(""))).collect())
                .unwrap_or_default();
            v.sort();
            v.into_iter().map(Value::String).collect()
        };
        out.push(json!({
            "t": names.tower(tid),
            "addr": names.addr(jstr(s, "net_addr")),
            "status": jstr(s, "status"),
            "slots": s.get("available_slots").and_then(|x| x.as_i64()).unwrap_or(-1),
            "start": s.get("subscription_start").and_then(|x| x.as_i64()).unwrap_or(-1),
            "expiry": s.get("subscription_expiry").and_then(|x| x.as_i64()).unwrap_or(-1),
            "pending": locs("pending_appointments"),
            "invalid": locs("invalid_appointments"),
        }));
    }
    out.sort_by_key(|x| x["t"].to_string());
    Value::Array(out)
}

/// Emits an "obs" event unless nothing changed since the last one (forced when `why` ends with '!').  No other event
/// is written while the state is being read, so the position of an observation in the trace is the moment it was taken.
fn emit_obs(sh: &Shared, why: &str) {
    let mut g = sh.trace.out.lock().unwrap();
    let client = sh.client();
    let alive = client.as_ref().map(|c| !c.is_dead()).unwrap_or(false);
    let mut db = db_snapshot(sh, alive);
    let mut mem = Value::Null;
    if alive && !sh.wedged.load(Ordering::SeqCst) {
        mem = mem_snapshot(sh, Duration::from_millis(1500));
        // The two reads are not one atomic observation: the rows are read from the database file, the memory through
        // listtowers (which waits for the client's state mutex).  A handler that completed between them would show as
        // "memory and disk disagree".  The rows are read again after the memory: if they moved, the observation is retaken.
        let settle = |db: &mut Value, mem: &mut Value| {
            for _ in 0..6 {
                if mem.is_null() {
                    break;
                }
                let db2 = db_snapshot(sh, alive);
                if db2 == *db {
                    break;
                }
                *db = db2;
                *mem = mem_snapshot(sh, Duration::from_millis(1500));
            }
        };
        settle(&mut db, &mut mem);
        if mem.is_null() && !client.as_ref().unwrap().is_dead() {
            // no answer: once more, patiently; then either a reported panic explains it (poisoned state mutex) or the
            // machine is too slow for this scenario to mean anything
            let panicked = !client.as_ref().unwrap().panics.lock().unwrap().is_empty();
            mem = mem_snapshot(sh, Duration::from_millis(if panicked { 1000 } else { 4000 }));
            // the rows were read before the first, unanswered listtowers: they are old by now
            settle(&mut db, &mut mem);
            if mem.is_null() && !client.as_ref().unwrap().is_dead() {
                if client.as_ref().unwrap().panics.lock().unwrap().is_empty() {
                    sh.inconclusive.lock().unwrap().push("listtowers not answered within 4 s and no panic reported".into());
                } else {
                    sh.wedged.store(true, Ordering::SeqCst);
                }
            }
        }
    }
    let key = format!("{db}|{mem}");
    if !why.ends_with('!') && g.last_obs.as_deref() == Some(key.as_str()) {
        if g.dirty {
            write_event(&mut g, &sh.trace.t0, json!({"ev":"same","why":why}));
            g.dirty = false;
        }
        return;
    }
    g.last_obs = Some(key);
    // memok = listtowers answered
    let memok = !mem.is_null();
    let mem = if memok { mem } else { json!([]) };
    write_event(&mut g, &sh.trace.t0, json!({"ev":"obs","why":why.trim_end_matches('!'),"db":db,"mem":mem,"memok":memok}));
    g.dirty = false;
}

// ---------------------------------------------------------------------------------------------------------------------
// scenario execution

struct Exec {
    sh: Arc<Shared>,
    bin: PathBuf,
    data_dir: PathBuf,
    out_base: PathBuf,
    cfg: Value,
    pending_calls: Vec<(String, u64, Receiver<Value>, String)>, // (locator, id, rx, method)
    boots: u32,
}

fn classify_result(method: &str, v: &Value) -> (String, String) {
    if let Some(e) = v.get("error") {
        let msg = jstr(e, "message").to_owned();
        let cls = if method == "retrytower" {
            if msg.contains("already being retried") {
                "busy"
            } else if msg.contains("Unknown tower") {
                "unknown"
            } else {
                "badstatus"
            }
        } else if msg.contains("Unknown tower") || msg.contains("Cannot find") {
            "unknown"
        } else {
            "err"
        };
        (cls.to_owned(), msg)
    } else {
        ("ok".to_owned(), String::new())
    }
}

impl Exec {
    fn boot(&mut self) -> Result<(), String> {
        let sh = self.sh.clone();
        let stderr_path = self.out_base.with_extension("stderr");
        let log_path = self.out_base.with_extension("log");
        let c = Client::spawn(&self.bin, &self.data_dir, sh.clone(), &stderr_path, &log_path).map_err(|e| format!("spawn: {e}"))?;
        let t = Duration::from_secs(20);
        c.call("getmanifest", json!({"allow-deprecated-apis": false}), t)
            .map_err(|_| "getmanifest not answered".to_owned())?;
        let init = json!({
            "options": {
                "watchtower-max-retry-time": ju64(&self.cfg, "max_retry", 3),
                "watchtower-auto-retry-delay": ju64(&self.cfg, "auto_retry", 2),
                "dev-watchtower-max-retry-interval": ju64(&self.cfg, "max_interval", 1),
            },
            "configuration": {
                "lightning-dir": self.data_dir.to_string_lossy(),
                "rpc-file": "lightning-rpc",
                "startup": true,
                "network": "regtest",
                "feature_set": {"init": "", "node": "", "channel": "", "invoice": ""},
            }
        });
        c.call("init", init, t).map_err(|_| "init not answered".to_owned())?;
        sh.wedged.store(false, Ordering::SeqCst);
        self.boots += 1;
        // the "boot" line comes before anybody (the sampler) can observe the new process
        sh.trace.emit(json!({"ev":"boot","n":self.boots,"cfg":self.cfg,
                             "towers": sh.towers.iter().map(|t| t.name.clone()).collect::<Vec<_>>()}));
        *sh.client.lock().unwrap() = Some(c);
        emit_obs(&sh, "boot!");
        Ok(())
    }

    /// a call whose answer is awaited; the answer (or its absence) is logged
    fn call_logged(&mut self, method: &str, params: Value, extra: Value, timeout_ms: u64) -> Option<Value> {
        let sh = self.sh.clone();
        let c = match sh.client() {
            Some(c) => c,
            None => {
                sh.trace.emit(json!({"ev":"skipped","m":method,"why":"client not running"}));
                return None;
            }
        };
        let npanics = c.panics.lock().unwrap().len();
        let (id, rx) = c.send_logged(method, params, |id| {
            let mut ev = json!({"ev":"call","id":id,"m":method});
            for (k, v) in extra.as_object().unwrap() {
                ev[k] = v.clone();
            }
            sh.trace.emit(ev);
        });
        self.finish_call(&c, id, &rx, method, &extra, timeout_ms, npanics)
    }

    #[allow(clippy::too_many_arguments)]
    fn finish_call(&mut self, c: &Arc<Client>, id: u64, rx: &Receiver<Value>, method: &str, extra: &Value, timeout_ms: u64, npanics: usize) -> Option<Value> {
        let sh = self.sh.clone();
        let deadline = Instant::now() + Duration::from_millis(timeout_ms);
        let mut panic_seen: Option<Instant> = None;
        let res = loop {
            match c.wait(rx, Duration::from_millis(40)) {
                Ok(v) => break Ok(v),
                Err(CallErr::Dead) => break Err("dead"),
                Err(CallErr::Timeout) => {
                    if c.panics.lock().unwrap().len() > npanics && panic_seen.is_none() {
                        panic_seen = Some(Instant::now());
                    }
                    if let Some(p) = panic_seen {
                        // a handler panicked while this call was outstanding: give the answer a grace period only
                        if p.elapsed() > Duration::from_millis(700) {
                            break Err("panic");
                        }
                    }
                    if Instant::now() > deadline {
                        break Err("timeout");
                    }
                    continue;
                }
            }
        };
        if res.is_err() {
            c.forget(id);
        }
        let mut ev = match &res {
            Ok(v) => {
                let (cls, msg) = classify_result(method, v);
                json!({"ev":"ret","id":id,"m":method,"res":cls,"msg":msg})
            }
            Err(why) => json!({"ev":"noret","id":id,"m":method,"why":why}),
        };
        for (k, v) in extra.as_object().unwrap() {
            ev[k] = v.clone();
        }
        sh.trace.emit(ev);
        emit_obs(&sh, "ret");
        res.ok()
    }

    fn run_step(&mut self, step: &Value) -> Result<(), String> {
        let sh = self.sh.clone();
        let op = jstr(step, "op").to_owned();
        match op.as_str() {
            "register" => {
                let tw = sh.tower(jstr(step, "t"));
                if let Some(b) = step.get("beh") {
                    let mut st = tw.st.lock().unwrap();
                    let dflt = st.mode.get("reg").cloned().unwrap_or(Beh(json!({"k":"accept"})));
                    let queued = st.queue.get("reg").map(|q| q.len()).unwrap_or(0) + 1;
                    sh.trace.emit(json!({"ev":"mode","t":tw.name,"ep":"reg","cls":mode_classes("reg", &dflt),"queued":queued}));
                    st.queue.entry("reg".into()).or_default().push_back(Beh(b.clone()));
                }
                let id_hex = tw.id.to_string();
                let alt = jbool(step, "alt", false);
                self.call_logged(
                    "registertower",
                    json!([id_hex, "127.0.0.1", if alt { tw.alt_port } else { tw.port }]),
                    json!({"t": tw.name, "port": if alt { 2 } else { 1 }}),
                    ju64(step, "timeout_ms", 5000),
                );
            }
            "mode" => {
                let tw = sh.tower(jstr(step, "t"));
                let b = Beh(step["beh"].clone());
                let ep = jstr(step, "ep").to_owned();
                let mut st = tw.st.lock().unwrap();
                let queued = st.queue.get(&ep).map(|q| q.len()).unwrap_or(0);
                sh.trace.emit(json!({"ev":"mode","t":tw.name,"ep":ep,"cls":mode_classes(&ep, &b),"queued":queued}));
                st.mode.insert(ep, b);
            }
            "queue" => {
                let tw = sh.tower(jstr(step, "t"));
                let behs = step["behs"].as_array().cloned().unwrap_or_default();
                let ep = jstr(step, "ep").to_owned();
                let mut st = tw.st.lock().unwrap();
                let dflt = st.mode.get(&ep).cloned().unwrap_or(Beh(json!({"k":"accept"})));
                let queued = st.queue.get(&ep).map(|q| q.len()).unwrap_or(0) + behs.len();
                sh.trace.emit(json!({"ev":"mode","t":tw.name,"ep":ep,"cls":mode_classes(&ep, &dflt),"queued":queued}));
                let q = st.queue.entry(ep).or_default();
                for b in behs {
                    q.push_back(Beh(b));
                }
            }
            "down" | "up" => {
                let tw = sh.tower(jstr(step, "t"));
                let want = op == "up";
                if !want {
                    // from this line on a connection may be refused (one accepted earlier may still be logged later)
                    sh.trace.emit(json!({"ev":"env","t":tw.name,"up":false}));
                }
                let mut st = tw.st.lock().unwrap();
                st.up = want;
                let deadline = Instant::now() + Duration::from_secs(3);
                while st.bound != want {
                    st = tw.cv.wait_timeout(st, Duration::from_millis(20)).unwrap().0;
                    if Instant::now() > deadline {
                        drop(st);
                        sh.inconclusive.lock().unwrap().push(format!("tower {} did not go {op}", tw.name));
                        return Err("tower switch".into());
                    }
                }
                drop(st);
                if want {
                    sh.trace.emit(json!({"ev":"env","t":tw.name,"up":true}));
                }
            }
            "notify" => {
                let l = jstr(step, "l").to_owned();
                let (txid, penalty) = revocation_of(&sh.scn, &l);
                let lhex = hex::encode(Locator::new(txid).to_vec());
                sh.names.lock().unwrap().loc_by_hex.insert(lhex, l.clone());
                let params = json!({
                    "commitment_txid": txid.to_string(),
                    "penalty_tx": bitcoin::consensus::encode::serialize_hex(&penalty),
                    "channel_id": "0000000000000000000000000000000000000000000000000000000000000001",
                    "commitnum": ju64(step, "commitnum", 1),
                });
                let c = match sh.client() {
                    Some(c) => c,
                    None => {
                        sh.trace.emit(json!({"ev":"skipped","m":"commitment_revocation","why":"client not running"}));
                        return Ok(());
                    }
                };
                let npanics = c.panics.lock().unwrap().len();
                let (id, rx) = c.send_logged("commitment_revocation", params, |id| {
                    sh.trace.emit(json!({"ev":"call","id":id,"m":"notify","l":l}));
                });
                if jbool(step, "wait", true) {
                    self.finish_call(&c, id, &rx, "notify", &json!({"l": l}), ju64(step, "timeout_ms", 5000), npanics);
                } else {
                    self.pending_calls.push((l, id, rx, "notify".into()));
                }
            }
            "await" => {
                let l = jstr(step, "l").to_owned();
                if let Some(p) = self.pending_calls.iter().position(|x| x.0 == l) {
                    let (l, id, rx, m) = self.pending_calls.remove(p);
                    if let Some(c) = sh.client() {
                        let np = c.panics.lock().unwrap().len();
                        self.finish_call(&c, id, &rx, &m, &json!({"l": l}), ju64(step, "timeout_ms", 5000), np);
                    } else {
                        sh.trace.emit(json!({"ev":"noret","id":id,"m":m,"l":l,"why":"dead"}));
                    }
                }
            }
            "release" => {
                let tw = sh.tower(jstr(step, "t"));
                let mut st = tw.st.lock().unwrap();
                if let Some(b) = step.get("beh") {
                    // the oldest held request is answered with this behaviour
                    let next = st.release + 1;
                    st.override_beh.insert(next, Beh(b.clone()));
                    st.release = next;
                } else {
                    st.release = if step.get("n").is_some() { st.release + ju64(step, "n", 1) } else { st.held };
                }
                tw.cv.notify_all();
            }
            "wait_held" => {
                // until a request is being held by tower t
                let tw = sh.tower(jstr(step, "t"));
                let deadline = Instant::now() + Duration::from_millis(ju64(step, "timeout_ms", 6000));
                let mut st = tw.st.lock().unwrap();
                while st.held <= st.release {
                    st = tw.cv.wait_timeout(st, Duration::from_millis(20)).unwrap().0;
                    if Instant::now() > deadline {
                        drop(st);
                        sh.trace.emit(json!({"ev":"note","what":"wait_held timed out","t":tw.name}));
                        return Ok(());
                    }
                }
            }
            "wait_req" => {
                // until tower t has received `count` requests in total
                let tw = sh.tower(jstr(step, "t"));
                let want = ju64(step, "count", 1);
                let deadline = Instant::now() + Duration::from_millis(ju64(step, "timeout_ms", 6000));
                let mut st = tw.st.lock().unwrap();
                while st.nreq < want || st.inflight > 0 && !jbool(step, "arrival", false) {
                    st = tw.cv.wait_timeout(st, Duration::from_millis(20)).unwrap().0;
                    if Instant::now() > deadline {
                        drop(st);
                        sh.trace.emit(json!({"ev":"note","what":"wait_req timed out","t":tw.name}));
                        return Ok(());
                    }
                }
            }
            "wait_state" => {
                let t = jstr(step, "t").to_owned();
                let want: Vec<String> = step["status"].as_array().cloned().unwrap_or_default().iter()
                    .map(|x| x.as_str().unwrap_or("").to_owned()).collect();
                let pend = step.get("pending").and_then(|x| x.as_u64());
                let deadline = Instant::now() + Duration::from_millis(ju64(step, "timeout_ms", 8000));
                let mut ok = false;
                while Instant::now() < deadline {
                    let mem = mem_snapshot(&sh, Duration::from_millis(1000));
                    if mem.is_null() {
                        break;
                    }
                    if let Some(m) = mem.as_array().unwrap().iter().find(|m| jstr(m, "t") == t) {
                        let s_ok = want.is_empty() || want.iter().any(|w| w == jstr(m, "status"));
                        let p_ok = pend.map(|p| m["pending"].as_array().map(|a| a.len() as u64) == Some(p)).unwrap_or(true);
                        if s_ok && p_ok {
                            ok = true;
                            break;
                        }
                    }
                    thread::sleep(Duration::from_millis(40));
                }
                sh.trace.emit(json!({"ev":"waited","t":t,"want":want,"reached":ok}));
                emit_obs(&sh, "wait!");
            }
            "sleep" => thread::sleep(Duration::from_millis(ju64(step, "ms", 100))),
            "retry" => {
                let tw = sh.tower(jstr(step, "t"));
                self.call_logged("retrytower", json!([tw.id.to_string()]), json!({"t": tw.name}), 3000);
            }
            "abandon" => {
                let tw = sh.tower(jstr(step, "t"));
                self.call_logged("abandontower", json!([tw.id.to_string()]), json!({"t": tw.name}), 3000);
            }
            "probe" => {
                // liveness probe: listtowers + gettowerinfo of every tower; all must answer
                let mut answered = true;
                let mut infos = Vec::new();
                match sh.client() {
                    Some(c) if !c.is_dead() && !sh.wedged.load(Ordering::SeqCst) => {
                        // an answer may take long on a busy machine: unless a panic was reported (then no answer is the
                        // expected outcome) a call that was not answered in 2 s is made once more, with 6 s
                        let patient = |m: &str, p: Value| -> Result<Value, ()> {
                            match c.call(m, p.clone(), Duration::from_millis(2000)) {
                                Ok(v) => Ok(v),
                                Err(_) => {
                                    if c.is_dead() || !c.panics.lock().unwrap().is_empty() {
                                        Err(())
                                    } else {
                                        c.call(m, p, Duration::from_millis(6000)).map_err(|_| ())
                                    }
                                }
                            }
                        };
                        answered &= patient("listtowers", json!({})).is_ok();
                        for tw in &sh.towers {
                            match patient("gettowerinfo", json!([tw.id.to_string()])) {
                                Ok(v) => {
                                    let names = sh.names.lock().unwrap();
                                    let r = v.get("result");
                                    let keys = |k: &str| -> Vec<String> {
                                        let mut v: Vec<String> = r.and_then(|r| r.get(k)).and_then(|a| a.as_object())
                                            .map(|o| o.keys().map(|x| names.loc(x)).collect()).unwrap_or_default();
                                        v.sort();
                                        v
                                    };
                                    infos.push(json!({"t": tw.name, "known": r.is_some(),
                                        "status": r.map(|r| jstr(r, "status")).unwrap_or(""),
                                        "accepted": keys("appointments"), "pending": keys("pending_appointments"),
                                        "invalid": keys("invalid_appointments"),
                                        "proof": r.map(|r| r.get("misbehaving_proof").is_some()).unwrap_or(false)}));
                                }
                                Err(_) => answered = false,
                            }
                        }
                    }
                    _ => answered = false,
                }
                sh.trace.emit(json!({"ev":"probe","answered":answered,"infos":infos}));
                emit_obs(&sh, "probe!");
            }
            "kill" => {
                do_kill(&sh, "script");
                thread::sleep(Duration::from_millis(60));
                emit_obs(&sh, "kill!");
            }
            "kill_on" => {
                let tw = sh.tower(jstr(step, "t"));
                tw.st.lock().unwrap().kill_on = Some((jstr(step, "when").to_owned(), ju64(step, "skip", 0), ju64(step, "delay_us", 0)));
            }
            "wait_dead" => {
                let deadline = Instant::now() + Duration::from_millis(ju64(step, "timeout_ms", 8000));
                while sh.client().is_some() && Instant::now() < deadline {
                    thread::sleep(Duration::from_millis(10));
                }
                if sh.client().is_some() {
                    sh.trace.emit(json!({"ev":"note","what":"wait_dead timed out"}));
                    do_kill(&sh, "script (armed kill did not fire)");
                }
                thread::sleep(Duration::from_millis(60));
                emit_obs(&sh, "kill!");
            }
            "restart" => {
                if sh.client().is_some() {
                    do_kill(&sh, "script (restart)");
                    thread::sleep(Duration::from_millis(60));
                    emit_obs(&sh, "kill!");
                }
                // answers of calls that were outstanding will never come
                for (l, id, _, m) in self.pending_calls.drain(..) {
                    sh.trace.emit(json!({"ev":"noret","id":id,"m":m,"l":l,"why":"dead"}));
                }
                self.boot()?;
            }
            other => return Err(format!("unknown step {other}")),
        }
        Ok(())
    }
}

fn run_scenario(scn: &Value, out_dir: &Path, bin: &Path, port0: u16) -> Value {
    let name = jstr(scn, "name").to_owned();
    let out_base = out_dir.join(&name);
    let data_dir = out_dir.join(format!("{name}.data"));
    let _ = fs::remove_dir_all(&data_dir);
    fs::create_dir_all(&data_dir).unwrap();
    let _ = fs::remove_file(out_base.with_extension("stderr"));
    let _ = fs::remove_file(out_base.with_extension("log"));
    let tower_names: Vec<String> = scn["towers"].as_array().cloned().unwrap_or_default().iter()
        .map(|x| x.as_str().unwrap_or("").to_owned()).collect();
    let mut names = Names::default();
    let mut towers = Vec::new();
    for (i, tn) in tower_names.iter().enumerate() {
        let (sk, pk) = key_from(&format!("{name}:{tn}"));
        let (osk, _) = key_from(&format!("{name}:{tn}:other"));
        let id = TowerId(pk);
        names.tower_by_hex.insert(id.to_string(), tn.clone());
        names.addr_by_port.insert(port0 + i as u16, 1);
        names.addr_by_port.insert(port0 + 4 + i as u16, 2);
        towers.push(Arc::new(Tower {
            name: tn.clone(),
            sk,
            other_sk: osk,
            id,
            port: port0 + i as u16,
            alt_port: port0 + 4 + i as u16,
            st: Mutex::new(TowerState {
                up: true,
                bound: false,
                mode: HashMap::new(),
                queue: HashMap::new(),
                slots: 0,
                start: 0,
                expiry: 0,
                nreq: 0,
                held: 0,
                release: 0,
                override_beh: HashMap::new(),
                inflight: 0,
                kill_on: None,
                stop: false,
            }),
            cv: Condvar::new(),
        }));
    }
    let sh = Arc::new(Shared {
        scn: name.clone(),
        trace: Trace::new(&out_base.with_extension("ndjson")),
        names: Mutex::new(names),
        towers,
        client: Mutex::new(None),
        db_path: data_dir.join("watchtowers_db.sql3"),
        wedged: AtomicBool::new(false),
        seq: AtomicU64::new(0),
        user_id: Mutex::new(None),
        inconclusive: Mutex::new(Vec::new()),
        done: AtomicBool::new(false),
    });
    sh.trace.emit(json!({"ev":"start","name":name,"scenario":scn}));
    let mut threads = Vec::new();
    for tw in &sh.towers {
        let (tw, sh2) = (tw.clone(), sh.clone());
        threads.push(thread::spawn(move || tower_acceptor(tw, sh2)));
    }
    // all towers listening before the client starts
    for tw in &sh.towers {
        let mut st = tw.st.lock().unwrap();
        let deadline = Instant::now() + Duration::from_secs(3);
        while !st.bound && Instant::now() < deadline {
            st = tw.cv.wait_timeout(st, Duration::from_millis(20)).unwrap().0;
        }
    }
    // background sampler: transient states between the rig's own actions
    let sampler = {
        let sh2 = sh.clone();
        let period = ju64(scn, "sample_ms", 100);
        thread::spawn(move || {
            while !sh2.done.load(Ordering::SeqCst) {
                let t = Instant::now();
                thread::sleep(Duration::from_millis(period));
                let lag = t.elapsed().as_millis() as u64;
                if lag > period + 1500 {
                    sh2.inconclusive.lock().unwrap().push(format!("the rig was not scheduled for {lag} ms (machine overloaded)"));
                }
                if sh2.client().is_some() {
                    let t = Instant::now();
                    emit_obs(&sh2, "tick");
                    let took = t.elapsed().as_millis() as u64;
                    if took > 3000 && !sh2.wedged.load(Ordering::SeqCst) {
                        sh2.inconclusive.lock().unwrap().push(format!("reading the client's state took {took} ms (machine overloaded)"));
                    }
                }
            }
        })
    };
    let mut ex = Exec {
        sh: sh.clone(),
        bin: bin.to_path_buf(),
        data_dir: data_dir.clone(),
        out_base: out_base.clone(),
        cfg: scn.get("cfg").cloned().unwrap_or(json!({})),
        pending_calls: Vec::new(),
        boots: 0,
    };
    let mut error: Option<String> = None;
    let t0 = Instant::now();
    match ex.boot() {
        Ok(()) => {
            for step in scn["steps"].as_array().cloned().unwrap_or_default() {
                if let Err(e) = ex.run_step(&step) {
                    error = Some(e);
                    break;
                }
            }
        }
        Err(e) => error = Some(e),
    }
    // outstanding hook calls: collect what arrived
    let pend: Vec<_> = ex.pending_calls.drain(..).collect();
    for (l, id, rx, m) in pend {
        match sh.client() {
            Some(c) => {
                let np = c.panics.lock().unwrap().len();
                ex.finish_call(&c, id, &rx, &m, &json!({"l": l}), 1500, np);
            }
            None => {
                sh.trace.emit(json!({"ev":"noret","id":id,"m":m,"l":l,"why":"dead"}));
            }
        }
    }
    sh.done.store(true, Ordering::SeqCst);
    let _ = sampler.join();
    // stop the towers (held answers are released) and let the handlers finish before the final observation
    for tw in &sh.towers {
        let mut st = tw.st.lock().unwrap();
        st.stop = true;
        tw.cv.notify_all();
    }
    for tw in &sh.towers {
        let deadline = Instant::now() + Duration::from_secs(2);
        let mut st = tw.st.lock().unwrap();
        while st.inflight > 0 && Instant::now() < deadline {
            st = tw.cv.wait_timeout(st, Duration::from_millis(20)).unwrap().0;
        }
    }
    thread::sleep(Duration::from_millis(ju64(scn, "settle_ms", 150)));
    emit_obs(&sh, "final!");
    if let Some(c) = sh.client.lock().unwrap().take() {
        c.kill();
    }
    for t in threads {
        let _ = t.join();
    }
    let inconclusive = sh.inconclusive.lock().unwrap().clone();
    sh.trace.emit(json!({"ev":"end","inconclusive":inconclusive,"error":error.clone().unwrap_or_default()}));
    json!({"name": name, "events": sh.trace.events(), "wall_ms": t0.elapsed().as_millis() as u64,
           "error": error, "inconclusive": inconclusive})
}

// ---------------------------------------------------------------------------------------------------------------------
// port blocks: every rig process claims disjoint ranges below the ephemeral range, so that a port released by a tower
// that is "down" cannot be taken by anybody else

struct PortBlock {
    base: u16,
    lock: PathBuf,
}

impl Drop for PortBlock {
    fn drop(&mut self) {
        let _ = fs::remove_file(&self.lock);
    }
}

const PORTS_PER_BLOCK: u16 = 8;

static CLAIM: Mutex<()> = Mutex::new(());

fn claim_block(dir: &Path) -> PortBlock {
    let _g = CLAIM.lock().unwrap();
    fs::create_dir_all(dir).ok();
    let start = (std::process::id() as u16 % 1200) * PORTS_PER_BLOCK;
    for k in 0..1500u32 {
        let base = 20000 + ((start as u32 + k * PORTS_PER_BLOCK as u32) % (1500 * PORTS_PER_BLOCK as u32)) as u16;
        let lock = dir.join(format!("{base}.lock"));
        if let Ok(s) = fs::read_to_string(&lock) {
            let pid: u32 = s.trim().parse().unwrap_or(0);
            let fresh = fs::metadata(&lock)
                .and_then(|m| m.modified())
                .ok()
                .and_then(|m| m.elapsed().ok())
                .map(|e| e < Duration::from_secs(20))
                .unwrap_or(true);
            // held by a live process, or just being written by somebody
            if (pid != 0 && Path::new(&format!("/proc/{pid}")).exists()) || (pid == 0 && fresh) {
                continue;
            }
            let _ = fs::remove_file(&lock);
        }
        match fs::OpenOptions::new().write(true).create_new(true).open(&lock) {
            Ok(mut f) => {
                let _ = write!(f, "{}", std::process::id());
                // the ports must really be free
                let free = (0..PORTS_PER_BLOCK).all(|i| TcpListener::bind(("127.0.0.1", base + i)).is_ok());
                if free {
                    return PortBlock { base, lock };
                }
                let _ = fs::remove_file(&lock);
            }
            Err(_) => continue,
        }
    }
    panic!("no free port block");
}

fn main() {
    let args: Vec<String> = std::env::args().collect();
    if args.len() < 4 || args[1] != "run" {
        eprintln!("usage: client_rig run <scenarios.ndjson> <outdir> --client <bin> [--jobs N]");
        std::process::exit(2);
    }
    let scen_path = PathBuf::from(&args[2]);
    let out_dir = PathBuf::from(&args[3]);
    let mut bin = PathBuf::from("/verif/harness/target/product/debug/watchtower-client");
    let mut jobs = 8usize;
    let mut i = 4;
    while i < args.len() {
        match args[i].as_str() {
            "--client" => {
                bin = PathBuf::from(&args[i + 1]);
                i += 2;
            }
            "--jobs" => {
                jobs = args[i + 1].parse().unwrap_or(8);
                i += 2;
            }
            _ => i += 1,
        }
    }
    fs::create_dir_all(&out_dir).unwrap();
    let scenarios: Vec<Value> = BufReader::new(File::open(&scen_path).expect("scenario file"))
        .lines()
        .map_while(Result::ok)
        .filter(|l| !l.trim().is_empty())
        .map(|l| serde_json::from_str(&l).expect("scenario json"))
        .collect();
    let queue = Arc::new(Mutex::new(scenarios.into_iter().collect::<VecDeque<_>>()));
    let results = Arc::new(Mutex::new(Vec::new()));
    let lock_dir = PathBuf::from("/verif/work/.ports");
    let mut workers = Vec::new();
    for _ in 0..jobs {
        let (queue, results, out_dir, bin, lock_dir) = (queue.clone(), results.clone(), out_dir.clone(), bin.clone(), lock_dir.clone());
        workers.push(thread::spawn(move || {
            let block = claim_block(&lock_dir);
            loop {
                let scn = match queue.lock().unwrap().pop_front() {
                    Some(s) => s,
                    None => break,
                };
                let r = run_scenario(&scn, &out_dir, &bin, block.base);
                results.lock().unwrap().push(r);
            }
        }));
    }
    for w in workers {
        let _ = w.join();
    }
    let results = results.lock().unwrap().clone();
    let errors: Vec<&Value> = results.iter().filter(|r| !r["error"].is_null()).collect();
    println!(
        "{}",
        json!({"scenarios": results.len(), "events": results.iter().map(|r| r["events"].as_u64().unwrap_or(0)).sum::<u64>(),
               "errors": errors, "results": results})
    );
}
