//! C19: binds spec/TxIndex.tla to teos::tx_index::TxIndex (both instantiations used by the tower).
//!
//! `replay <file>`: every line is a behaviour printed by TLC (MC_TxIndex, REPLAY lines already unwrapped to JSON):
//!    {"n":N,"h0":H,"ops":[{"op":"connect"|"disconnect","id":I,"h":H,"keys":[..],"obs":{"get":[..],"hts":[..]}}]}
//!    The behaviour is executed on the real index and every observation compared with the specification's.
//!    Output: one JSON summary on stdout; mismatches listed (first 20).
//! `random <n> <ops> <seed> <out.ndjson>`: drives the real index at production sizes with random connects /
//!    disconnects and records an implementation trace for Trace_TxIndex.tla.

use std::collections::HashMap;
use std::io::{BufRead, BufReader};

use bitcoin::block::Block;
use bitcoin::{BlockHash, Transaction, Txid};
use lightning_block_sync::poll::{Validate, ValidatedBlock};
use lightning_block_sync::BlockData;
use rand::rngs::StdRng;
use rand::{Rng, SeedableRng};
use serde_json::{json, Value};

use teos::verif::TxIndex;
use teos_common::appointment::Locator;
use verif_harness::chain::{genesis, make_block, unique_tx};
use verif_harness::trace::TraceWriter;

struct Rig {
    #[allow(dead_code)]
    n: usize,
    by_txid: TxIndex<Txid, BlockHash>,
    by_loc: TxIndex<Locator, Transaction>,
    /// model block id -> real block
    blocks: HashMap<u64, Block>,
    /// active chain as model ids (the rig's own bookkeeping of what it connected)
    active: Vec<u64>,
    key_tx: Vec<Transaction>,
    salt: u64,
}

fn validated(b: &Block) -> ValidatedBlock {
    BlockData::FullBlock(b.clone())
        .validate(b.block_hash())
        .expect("block does not validate")
}

impl Rig {
    /// Builds both indexes from `n` initial empty blocks with ids 1..=n, the newest at height `h0`.
    fn new(n: usize, h0: u32, nkeys: usize) -> Self {
        let mut blocks = HashMap::new();
        let mut prev = genesis().header;
        let mut chain = Vec::new();
        let mut salt = 0u64;
        for id in 1..=n as u64 {
            salt += 1;
            let b = make_block(&prev, salt, vec![]);
            prev = b.header;
            blocks.insert(id, b.clone());
            chain.push(b);
        }
        // `TxIndex::new` takes the blocks newest first (as `get_last_n_blocks` returns them).
        let last_n: Vec<ValidatedBlock> = chain.iter().rev().map(validated).collect();
        let by_txid = TxIndex::<Txid, BlockHash>::new(&last_n, h0);
        let by_loc = TxIndex::<Locator, Transaction>::new(&last_n, h0);
        Rig {
            n,
            by_txid,
            by_loc,
            blocks,
            active: (1..=n as u64).collect(),
            key_tx: (0..nkeys).map(|k| unique_tx(0x11, k as u64)).collect(),
            salt,
        }
    }

    fn tip_header(&self) -> bitcoin::block::Header {
        match self.active.last() {
            Some(id) => self.blocks[id].header,
            None => genesis().header,
        }
    }

    fn connect(&mut self, id: u64, keys: &[usize]) {
        self.salt += 1;
        let txs: Vec<Transaction> = keys.iter().map(|k| self.key_tx[*k - 1].clone()).collect();
        let b = make_block(&self.tip_header(), self.salt, txs);
        let m1: HashMap<Txid, BlockHash> = b
            .txdata
            .iter()
            .map(|tx| (tx.compute_txid(), b.block_hash()))
            .collect();
        let m2: HashMap<Locator, Transaction> = b
            .txdata
            .iter()
            .map(|tx| (Locator::new(tx.compute_txid()), tx.clone()))
            .collect();
        self.by_txid.update(b.header, &m1);
        self.by_loc.update(b.header, &m2);
        self.blocks.insert(id, b);
        self.active.push(id);
    }

    fn disconnect(&mut self, id: u64) {
        let h = self.blocks[&id].block_hash();
        self.by_txid.remove_disconnected_block(&h);
        self.by_loc.remove_disconnected_block(&h);
        assert_eq!(self.active.pop(), Some(id));
    }

    fn id_of_hash(&self, h: &BlockHash) -> u64 {
        self.blocks
            .iter()
            .find(|(_, b)| b.block_hash() == *h)
            .map(|(id, _)| *id)
            .unwrap_or(u64::MAX)
    }

    fn id_of_tx(&self, tx: &Transaction) -> u64 {
        // the held block containing this tx, searched from the tip of the rig's own active list backwards;
        // falls back to any known block.
        let txid = tx.compute_txid();
        for id in self.active.iter().rev() {
            if self.blocks[id].txdata.iter().any(|t| t.compute_txid() == txid) {
                return *id;
            }
        }
        u64::MAX - 1
    }

    /// Observations of the real indexes: for each key (1-based) the id of the block `get` maps it to (0 = none),
    /// taken from both instantiations; for each id 1..=maxid the height reported (0 = none).
    fn observe(&self, maxid: u64) -> Value {
        let mut get_txid = Vec::new();
        let mut get_loc = Vec::new();
        let mut loc_txok = Vec::new();
        for tx in &self.key_tx {
            let txid = tx.compute_txid();
            get_txid.push(match self.by_txid.get(&txid) {
                Some(h) => self.id_of_hash(h),
                None => 0,
            });
            match self.by_loc.get(&Locator::new(txid)) {
                Some(t) => {
                    get_loc.push(self.id_of_tx(t));
                    loc_txok.push(t.compute_txid() == txid);
                }
                None => {
                    get_loc.push(0);
                    loc_txok.push(true);
                }
            }
        }
        let mut hts_txid = Vec::new();
        let mut hts_loc = Vec::new();
        let mut filler_txid = Vec::new();
        let mut filler_loc = Vec::new();
        for id in 1..=maxid {
            match self.blocks.get(&id) {
                Some(b) => {
                    let h = b.block_hash();
                    hts_txid.push(self.by_txid.get_height(&h).unwrap_or(0));
                    hts_loc.push(self.by_loc.get_height(&h).unwrap_or(0));
                    let filler = b.txdata[0].compute_txid();
                    filler_txid.push(self.by_txid.get(&filler) == Some(&h));
                    filler_loc.push(
                        self.by_loc
                            .get(&Locator::new(filler))
                            .map(|t| t.compute_txid() == filler)
                            .unwrap_or(false),
                    );
                }
                None => {
                    hts_txid.push(0);
                    hts_loc.push(0);
                    filler_txid.push(false);
                    filler_loc.push(false);
                }
            }
        }
        json!({"get_txid": get_txid, "get_loc": get_loc, "loc_txok": loc_txok,
               "hts_txid": hts_txid, "hts_loc": hts_loc,
               "filler_txid": filler_txid, "filler_loc": filler_loc,
               "nblocks_txid": self.by_txid.verif_blocks().len(), "nblocks_loc": self.by_loc.verif_blocks().len()})
    }
}

fn as_u64s(v: &Value) -> Vec<u64> {
    v.as_array()
        .map(|a| a.iter().map(|x| x.as_u64().unwrap()).collect())
        .unwrap_or_default()
}

fn replay(path: &str) {
    let f = BufReader::new(std::fs::File::open(path).expect("cannot open replay file"));
    let mut behaviours = 0u64;
    let mut steps = 0u64;
    let mut comparisons = 0u64;
    let mut mismatches: Vec<Value> = Vec::new();
    let mut nmismatch = 0u64;
    let mut aborted = 0u64;
    for (lineno, line) in f.lines().enumerate() {
        let line = line.unwrap();
        if line.trim().is_empty() {
            continue;
        }
        let b: Value = serde_json::from_str(&line).expect("bad replay line");
        let n = b["n"].as_u64().unwrap() as usize;
        let h0 = b["h0"].as_u64().unwrap() as u32;
        let ops = b["ops"].as_array().unwrap();
        let nkeys = ops
            .first()
            .map(|o| o["obs"]["get"].as_array().unwrap().len())
            .unwrap_or(0);
        behaviours += 1;
        let res = std::panic::catch_unwind(|| {
            let mut rig = Rig::new(n, h0, nkeys);
            let mut local: Vec<Value> = Vec::new();
            let mut cmp = 0u64;
            let mut st = 0u64;
            for (i, op) in ops.iter().enumerate() {
                let id = op["id"].as_u64().unwrap();
                let keys: Vec<usize> = as_u64s(&op["keys"]).iter().map(|k| *k as usize).collect();
                match op["op"].as_str().unwrap() {
                    "connect" => rig.connect(id, &keys),
                    "disconnect" => rig.disconnect(id),
                    o => panic!("unknown op {o}"),
                }
                st += 1;
                let exp_get = as_u64s(&op["obs"]["get"]);
                let exp_hts = as_u64s(&op["obs"]["hts"]);
                let got = rig.observe(exp_hts.len() as u64);
                let mut bad = Vec::new();
                for (what, exp) in [("get_txid", &exp_get), ("get_loc", &exp_get), ("hts_txid", &exp_hts), ("hts_loc", &exp_hts)] {
                    cmp += exp.len() as u64;
                    if &as_u64s(&got[what]) != exp {
                        bad.push(what);
                    }
                }
                // filler transactions of held blocks are present, of other blocks absent
                let held: Vec<bool> = exp_hts.iter().map(|h| *h != 0).collect();
                for what in ["filler_txid", "filler_loc"] {
                    let g: Vec<bool> = got[what].as_array().unwrap().iter().map(|x| x.as_bool().unwrap()).collect();
                    cmp += g.len() as u64;
                    if g != held {
                        bad.push(what);
                    }
                }
                if got["loc_txok"].as_array().unwrap().iter().any(|x| !x.as_bool().unwrap()) {
                    bad.push("loc_txok");
                }
                if !bad.is_empty() {
                    local.push(json!({"line": lineno + 1, "step": i + 1, "op": op, "got": got, "differs": bad}));
                }
            }
            (local, cmp, st)
        });
        match res {
            Ok((local, cmp, st)) => {
                comparisons += cmp;
                steps += st;
                nmismatch += local.len() as u64;
                for m in local {
                    if mismatches.len() < 20 {
                        mismatches.push(m);
                    }
                }
            }
            Err(_) => {
                aborted += 1;
                nmismatch += 1;
                if mismatches.len() < 20 {
                    mismatches.push(json!({"line": lineno + 1, "abort": true}));
                }
            }
        }
    }
    println!(
        "{}",
        json!({"behaviours": behaviours, "steps": steps, "comparisons": comparisons,
               "mismatches": nmismatch, "aborted": aborted, "first": mismatches})
    );
}

/// The ids whose height / presence is probed after a step: the most recent n + 6 and a few older ones.
fn probe_ids(rng: &mut StdRng, n: usize, maxid: u64) -> Vec<u64> {
    let lo = maxid.saturating_sub(n as u64 + 6).max(1);
    let mut ids: Vec<u64> = (lo..=maxid).collect();
    for _ in 0..6 {
        if lo > 1 {
            ids.push(rng.gen_range(1..lo));
        }
    }
    ids.sort();
    ids.dedup();
    ids
}

/// Keeps only the probed ids of the per-id observation arrays: rows [id, hts_txid, hts_loc, filler_txid, filler_loc].
fn sparse(obs: &Value, probes: &[u64]) -> Value {
    let rows: Vec<Value> = probes
        .iter()
        .map(|id| {
            let i = (*id - 1) as usize;
            json!([id, obs["hts_txid"][i], obs["hts_loc"][i], obs["filler_txid"][i], obs["filler_loc"][i]])
        })
        .collect();
    json!({"get_txid": obs["get_txid"], "get_loc": obs["get_loc"], "loc_txok": obs["loc_txok"], "rows": rows,
           "nblocks_txid": obs["nblocks_txid"], "nblocks_loc": obs["nblocks_loc"]})
}

fn random(n: usize, nops: usize, seed: u64, out: &str) {
    let mut rng = StdRng::seed_from_u64(seed);
    let nkeys = 8usize;
    let h0 = 200u32;
    let mut rig = Rig::new(n, h0, nkeys);
    let mut tw = TraceWriter::create(out);
    let mut next_id = n as u64 + 1;
    let mut heights: HashMap<u64, u32> = (1..=n as u64).map(|i| (i, h0 - n as u32 + i as u32)).collect();
    let mut keys_of: HashMap<u64, Vec<usize>> = HashMap::new();
    tw.emit(&json!({"ev": "init", "n": n, "h0": h0, "nkeys": nkeys}));
    let mut burst = 0i32; // >0: keep disconnecting, <0: keep connecting
    for _ in 0..nops {
        let on_chain: Vec<usize> = rig
            .active
            .iter()
            .flat_map(|id| keys_of.get(id).cloned().unwrap_or_default())
            .collect();
        let do_disc = if burst > 0 {
            burst -= 1;
            true
        } else if burst < 0 {
            burst += 1;
            false
        } else {
            let r: f64 = rng.gen();
            if r < 0.05 {
                burst = rng.gen_range(1..=(n as i32 + 2));
                true
            } else if r < 0.08 {
                burst = -rng.gen_range(1..=(n as i32 + 2));
                false
            } else {
                r < 0.3
            }
        };
        // reorgs deeper than the window are outside C19/C04's quantifier (depth <= index size)
        if do_disc && rig.active.len() > 0 && rig.by_txid.verif_blocks().len() > 0 {
            let id = *rig.active.last().unwrap();
            rig.disconnect(id);
            let probes = probe_ids(&mut rng, n, next_id - 1);
            tw.emit(&json!({"ev": "disconnect", "id": id, "h": heights[&id], "keys": keys_of.get(&id).cloned().unwrap_or_default(),
                            "obs": sparse(&rig.observe(next_id - 1), &probes)}));
        } else {
            let free: Vec<usize> = (1..=nkeys).filter(|k| !on_chain.contains(k)).collect();
            let mut ks = Vec::new();
            for k in free {
                if rng.gen::<f64>() < 0.25 {
                    ks.push(k);
                }
            }
            let id = next_id;
            next_id += 1;
            let h = match rig.active.last() {
                Some(t) => heights[t] + 1,
                // every block of the window was disconnected: the chain goes on from the block below the window
                None => h0 - n as u32 + 1,
            };
            heights.insert(id, h);
            keys_of.insert(id, ks.clone());
            rig.connect(id, &ks);
            let probes = probe_ids(&mut rng, n, next_id - 1);
            tw.emit(&json!({"ev": "connect", "id": id, "h": h, "keys": ks, "obs": sparse(&rig.observe(next_id - 1), &probes)}));
        }
    }
    let n_ev = tw.finish();
    println!("{}", json!({"events": n_ev, "out": out}));
}

fn main() {
    let args: Vec<String> = std::env::args().collect();
    // keep panics of the code under test quiet; they are reported as data
    std::panic::set_hook(Box::new(|_| {}));
    match args.get(1).map(|s| s.as_str()) {
        Some("replay") => replay(&args[2]),
        Some("random") => random(
            args[2].parse().unwrap(),
            args[3].parse().unwrap(),
            args[4].parse().unwrap(),
            &args[5],
        ),
        _ => {
            eprintln!("usage: txindex_rig replay <file> | random <n> <ops> <seed> <out>");
            std::process::exit(2);
        }
    }
}
