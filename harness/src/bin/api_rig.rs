//! api_rig - the tower's public HTTP API and the client's request / response code, executed for real (C15, C16).
//!
//!   api_rig info  <workdir> <n_fresh_keys>
//!       prints one JSON line: the concrete keys / locators of the tower-state classes the `http` mode sets up
//!   api_rig http  <cases.ndjson> <results.ndjson> <workdir>
//!       boots two real towers (harness/src/tower.rs: real Watcher / Responder / Gatekeeper / InternalAPI over SQLite and
//!       the simulated bitcoind), serves each through the REAL tonic PublicTowerServicesServer and the REAL warp router
//!       `teos::api::http::serve` (as teos/src/main.rs does), brings them into the state classes of spec/HttpApi.tla, then
//!       sends every case as raw bytes over a TcpStream and records status, headers, body, elapsed time, a dump of the
//!       durable tables and of the gatekeeper's memory before / after, and panics of the code under test.
//!   api_rig wire  <cases.ndjson> <results.ndjson> <workdir>
//!       C16: the client's real request code (watchtower_plugin::net::http) talks to the real warp router in front of a
//!       SCRIPTED tonic service that records what the router parsed and answers what the case says; the bytes on the wire
//!       are recorded by a forwarding proxy; the client's real response parsing is reported field by field.  "joint"
//!       cases run the same client code against a real tower.  The signed byte strings (to_vec) are reported as well.
//!
//! The comparison with the expectations of the TLA+ cases is made by lib/c15.py / lib/c16.py.

use std::collections::BTreeMap;
use std::io::{BufRead, BufReader, Read, Write};
use std::net::{Shutdown, SocketAddr, TcpListener, TcpStream};
use std::panic::{catch_unwind, AssertUnwindSafe};
use std::path::{Path, PathBuf};
use std::sync::{Arc, Mutex};
use std::time::{Duration, Instant};

use bitcoin::secp256k1::{PublicKey, Secp256k1, SecretKey};
use serde_json::{json, Value};
use tonic::{Request, Response, Status};

use teos::protos::public_tower_services_server::{PublicTowerServices, PublicTowerServicesServer};
use teos_common::appointment::{Appointment, Locator};
use teos_common::cryptography;
use teos_common::net::http::Endpoint;
use teos_common::net::NetAddr;
use teos_common::protos as common_msgs;
use teos_common::receipts::{AppointmentReceipt, RegistrationReceipt};
use teos_common::{TowerId, UserId};
use watchtower_plugin::net::http as chttp;

use verif_harness::simnode::{Node, NodeState, Verdict};
use verif_harness::tower::{install_panic_hook, Cfg, Rig, LAST_PANIC};

// ---------------------------------------------------------------------------------------------------
// small helpers

fn die(msg: &str) -> ! {
    eprintln!("api_rig: {msg}");
    std::process::exit(2);
}

fn free_port() -> u16 {
    let l = TcpListener::bind("127.0.0.1:0").unwrap_or_else(|e| die(&format!("cannot bind a loopback port: {e}")));
    l.local_addr().unwrap().port()
}

fn take_panic() -> Option<String> {
    LAST_PANIC.lock().ok().and_then(|mut g| g.take()).map(|(f, l, m)| format!("{f}:{l}: {}", m.chars().take(200).collect::<String>()))
}

fn new_node(h0: u32) -> Node {
    let mut n = NodeState::new();
    for _ in 0..h0 {
        n.mine(vec![]);
    }
    Arc::new(Mutex::new(n))
}

fn fresh_sk(i: u32) -> SecretKey {
    let mut b = [0x42u8; 32];
    b[28..].copy_from_slice(&(i + 1).to_be_bytes());
    SecretKey::from_slice(&b).unwrap()
}

fn pk_of(sk: &SecretKey) -> PublicKey {
    PublicKey::from_secret_key(&Secp256k1::new(), sk)
}

fn unreg_sk() -> SecretKey {
    SecretKey::from_slice(&[0x77; 32]).unwrap()
}

/// Serves a PublicTowerServices implementation over tonic and the REAL warp router in front of it, both on free
/// loopback ports, the way teos/src/main.rs does.  Returns the HTTP address.
fn serve<S: PublicTowerServices + Clone>(rt: &tokio::runtime::Runtime, svc: S) -> SocketAddr {
    // the ports are probed and then bound by tonic / warp themselves: a lost race for a port is retried
    for _attempt in 0..5 {
        let grpc: SocketAddr = format!("127.0.0.1:{}", free_port()).parse().unwrap();
        let (shutdown_trigger, shutdown_signal) = triggered::trigger();
        let sig_grpc = shutdown_signal.clone();
        let server = PublicTowerServicesServer::new(svc.clone());
        let failed = Arc::new(Mutex::new(false));
        let failed2 = failed.clone();
        rt.spawn(async move {
            let r = tonic::transport::Server::builder().add_service(server).serve_with_shutdown(grpc, sig_grpc).await;
            if r.is_err() {
                *failed2.lock().unwrap() = true;
            }
        });
        let t0 = Instant::now();
        let mut ok = false;
        while t0.elapsed() < Duration::from_secs(10) && !*failed.lock().unwrap() {
            if TcpStream::connect_timeout(&grpc, Duration::from_millis(200)).is_ok() {
                ok = true;
                break;
            }
            std::thread::sleep(Duration::from_millis(10));
        }
        if !ok || *failed.lock().unwrap() {
            shutdown_trigger.trigger();
            continue;
        }
        let http: SocketAddr = format!("127.0.0.1:{}", free_port()).parse().unwrap();
        let (ready_trigger, ready_signal) = triggered::trigger();
        rt.spawn(teos::api::http::serve(http, grpc, ready_trigger, shutdown_signal));
        let ready = rt.block_on(async move { tokio::time::timeout(Duration::from_secs(15), ready_signal).await.is_ok() });
        if !ready || TcpStream::connect_timeout(&http, Duration::from_secs(2)).is_err() {
            shutdown_trigger.trigger();
            continue;
        }
        std::mem::forget(shutdown_trigger);
        return http;
    }
    die("could not bring the tonic server and the HTTP API up on loopback ports");
}

fn runtime() -> tokio::runtime::Runtime {
    tokio::runtime::Builder::new_multi_thread().worker_threads(8).enable_all().build().unwrap()
}

// ---------------------------------------------------------------------------------------------------
// durable + in-memory state dump

struct StateReader {
    conn: rusqlite::Connection,
    /// (PRAGMA data_version, dump) of the last full read: the tables are only read again after another connection
    /// (the tower's) has committed something
    cache: std::cell::RefCell<Option<(i64, BTreeMap<String, String>)>>,
}

impl StateReader {
    fn open(db: &Path) -> Self {
        let conn = rusqlite::Connection::open_with_flags(
            db,
            rusqlite::OpenFlags::SQLITE_OPEN_READ_ONLY | rusqlite::OpenFlags::SQLITE_OPEN_NO_MUTEX,
        )
        .unwrap_or_else(|e| die(&format!("cannot open {db:?} read-only: {e}")));
        StateReader { conn, cache: std::cell::RefCell::new(None) }
    }

    fn data_version(&self) -> i64 {
        self.conn.query_row("PRAGMA data_version", [], |r| r.get::<_, i64>(0)).unwrap_or(-1)
    }

    /// table name -> every row, every column, sorted (re-read only when the file was committed to since the last read)
    fn dump(&self) -> BTreeMap<String, String> {
        let v = self.data_version();
        if let Some((cv, d)) = self.cache.borrow().as_ref() {
            if *cv == v && v >= 0 {
                return d.clone();
            }
        }
        let d = self.dump_tables();
        // a commit may have landed while the tables were being read: keep the version seen BEFORE the read
        *self.cache.borrow_mut() = Some((v, d.clone()));
        d
    }

    fn dump_tables(&self) -> BTreeMap<String, String> {
        let mut out = BTreeMap::new();
        let tables: Vec<String> = {
            let mut st = self.conn.prepare("SELECT name FROM sqlite_master WHERE type='table' ORDER BY name").unwrap();
            let rows = st.query_map([], |r| r.get::<_, String>(0)).unwrap();
            rows.filter_map(|x| x.ok()).collect()
        };
        for t in tables {
            let mut st = match self.conn.prepare(&format!("SELECT * FROM \"{t}\"")) {
                Ok(s) => s,
                Err(_) => continue,
            };
            let ncol = st.column_count();
            let mut rows_out: Vec<String> = Vec::new();
            let mut rows = st.query([]).unwrap();
            while let Ok(Some(r)) = rows.next() {
                let mut cols = Vec::with_capacity(ncol);
                for i in 0..ncol {
                    let s = match r.get_ref(i) {
                        Ok(rusqlite::types::ValueRef::Null) => "null".to_string(),
                        Ok(rusqlite::types::ValueRef::Integer(x)) => format!("i{x}"),
                        Ok(rusqlite::types::ValueRef::Real(x)) => format!("r{x}"),
                        Ok(rusqlite::types::ValueRef::Text(x)) => format!("t{}", hex::encode(x)),
                        Ok(rusqlite::types::ValueRef::Blob(x)) => format!("b{}", hex::encode(x)),
                        Err(_) => "?".to_string(),
                    };
                    cols.push(s);
                }
                rows_out.push(cols.join(","));
            }
            rows_out.sort();
            out.insert(t, rows_out.join(";"));
        }
        out
    }
}

fn mem_dump(rig: &Rig) -> String {
    let t = rig.tower.as_ref().unwrap();
    let r = catch_unwind(AssertUnwindSafe(|| {
        let (h, users) = t.gatekeeper.verif_state();
        // order-independent digest of (user, slots, start, expiry) records
        let mut acc: u64 = 0;
        for (id, s, st, e) in users.iter() {
            let mut x: u64 = 0xcbf29ce484222325;
            for b in id.to_vec().iter().copied().chain(s.to_be_bytes()).chain(st.to_be_bytes()).chain(e.to_be_bytes()) {
                x ^= b as u64;
                x = x.wrapping_mul(0x100000001b3);
            }
            acc = acc.wrapping_add(x);
        }
        format!("h{h};n{};{acc:016x}", users.len())
    }));
    match r {
        Ok(s) => s,
        Err(_) => {
            let _ = take_panic();
            "poisoned".to_string()
        }
    }
}

fn full_state(rig: &Rig, rd: &StateReader) -> BTreeMap<String, String> {
    let mut d = rd.dump();
    d.insert("(memory:gatekeeper)".to_string(), mem_dump(rig));
    d
}

fn diff_state(a: &BTreeMap<String, String>, b: &BTreeMap<String, String>) -> Vec<String> {
    let mut out = Vec::new();
    for (k, v) in a {
        if b.get(k) != Some(v) {
            out.push(k.clone());
        }
    }
    for k in b.keys() {
        if !a.contains_key(k) {
            out.push(k.clone());
        }
    }
    out
}

fn fnv(s: &BTreeMap<String, String>) -> String {
    let mut h: u64 = 0xcbf29ce484222325;
    for (k, v) in s {
        for b in k.bytes().chain([0u8]).chain(v.bytes()).chain([1u8]) {
            h ^= b as u64;
            h = h.wrapping_mul(0x100000001b3);
        }
    }
    format!("{h:016x}")
}

// ---------------------------------------------------------------------------------------------------
// raw HTTP exchange

struct HttpObs {
    io: &'static str,
    status: Option<u16>,
    headers: Vec<(String, String)>,
    body: Vec<u8>,
    elapsed_ms: u128,
    raw_len: usize,
}

fn find(hay: &[u8], needle: &[u8]) -> Option<usize> {
    if needle.is_empty() || hay.len() < needle.len() {
        return None;
    }
    (0..=hay.len() - needle.len()).find(|&i| &hay[i..i + needle.len()] == needle)
}

fn replace_all(hay: &[u8], needle: &[u8], with: &[u8]) -> Vec<u8> {
    let mut out = Vec::with_capacity(hay.len());
    let mut i = 0;
    while i < hay.len() {
        if hay[i..].starts_with(needle) {
            out.extend_from_slice(with);
            i += needle.len();
        } else {
            out.push(hay[i]);
            i += 1;
        }
    }
    out
}

fn parse_response(buf: &[u8]) -> Option<(u16, Vec<(String, String)>, usize)> {
    let end = find(buf, b"\r\n\r\n")?;
    let head = String::from_utf8_lossy(&buf[..end]).to_string();
    let mut lines = head.split("\r\n");
    let status_line = lines.next()?;
    let mut parts = status_line.split(' ');
    let ver = parts.next()?;
    if !ver.starts_with("HTTP/") {
        return None;
    }
    let status: u16 = parts.next()?.parse().ok()?;
    let mut headers = Vec::new();
    for l in lines {
        if let Some(i) = l.find(':') {
            headers.push((l[..i].trim().to_ascii_lowercase(), l[i + 1..].trim().to_string()));
        }
    }
    Some((status, headers, end + 4))
}

fn dechunk(mut b: &[u8]) -> Option<Vec<u8>> {
    let mut out = Vec::new();
    loop {
        let i = find(b, b"\r\n")?;
        let line = std::str::from_utf8(&b[..i]).ok()?;
        let n = usize::from_str_radix(line.split(';').next()?.trim(), 16).ok()?;
        b = &b[i + 2..];
        if n == 0 {
            return Some(out);
        }
        if b.len() < n + 2 {
            return None;
        }
        out.extend_from_slice(&b[..n]);
        b = &b[n + 2..];
    }
}

/// Sends `payload` and reads one HTTP response (or whatever comes) until it is complete, EOF, or the deadline.
fn exchange(addr: SocketAddr, payload: Vec<u8>, half_close: bool, is_head: bool, deadline: Duration) -> HttpObs {
    let t0 = Instant::now();
    let mut obs = HttpObs { io: "ok", status: None, headers: vec![], body: vec![], elapsed_ms: 0, raw_len: 0 };
    let stream = match TcpStream::connect_timeout(&addr, Duration::from_secs(5)) {
        Ok(s) => s,
        Err(_) => {
            obs.io = "connect_failed";
            obs.elapsed_ms = t0.elapsed().as_millis();
            return obs;
        }
    };
    let _ = stream.set_nodelay(true);
    let _ = stream.set_read_timeout(Some(Duration::from_millis(100)));
    let mut wstream = stream.try_clone().unwrap();
    // the writer runs beside the reader: the server may answer (and close) before a large body has been sent
    let writer = std::thread::spawn(move || {
        let _ = wstream.write_all(&payload);
        let _ = wstream.flush();
        if half_close {
            let _ = wstream.shutdown(Shutdown::Write);
        }
    });
    let mut rstream = stream;
    let mut buf: Vec<u8> = Vec::new();
    let mut chunk = [0u8; 16384];
    let mut state = "eof";
    loop {
        if t0.elapsed() > deadline {
            state = "timeout";
            break;
        }
        match rstream.read(&mut chunk) {
            Ok(0) => break,
            Ok(n) => {
                buf.extend_from_slice(&chunk[..n]);
                if let Some((_, headers, off)) = parse_response(&buf) {
                    if is_head {
                        state = "done";
                        break;
                    }
                    let cl = headers.iter().find(|(k, _)| k == "content-length").and_then(|(_, v)| v.parse::<usize>().ok());
                    let chunked = headers.iter().any(|(k, v)| k == "transfer-encoding" && v.to_ascii_lowercase().contains("chunked"));
                    if let Some(cl) = cl {
                        if buf.len() >= off + cl {
                            state = "done";
                            break;
                        }
                    } else if chunked && dechunk(&buf[off..]).is_some() {
                        state = "done";
                        break;
                    }
                }
            }
            Err(e) if e.kind() == std::io::ErrorKind::WouldBlock || e.kind() == std::io::ErrorKind::TimedOut => continue,
            Err(_) => {
                state = "reset";
                break;
            }
        }
    }
    obs.elapsed_ms = t0.elapsed().as_millis();
    let _ = rstream.shutdown(Shutdown::Both);
    let _ = writer.join();
    obs.raw_len = buf.len();
    match parse_response(&buf) {
        Some((status, headers, off)) => {
            obs.status = Some(status);
            let chunked = headers.iter().any(|(k, v)| k == "transfer-encoding" && v.to_ascii_lowercase().contains("chunked"));
            let cl = headers.iter().find(|(k, _)| k == "content-length").and_then(|(_, v)| v.parse::<usize>().ok());
            let rest = &buf[off..];
            obs.body = if chunked {
                dechunk(rest).unwrap_or_else(|| rest.to_vec())
            } else if let Some(cl) = cl {
                rest[..cl.min(rest.len())].to_vec()
            } else {
                rest.to_vec()
            };
            obs.headers = headers;
            obs.io = if state == "timeout" { "timeout_after_headers" } else { "ok" };
        }
        None => {
            obs.io = match state {
                "timeout" => "timeout",
                "reset" => "reset",
                _ => "closed_without_response",
            };
            obs.body = buf;
        }
    }
    obs
}

// ---------------------------------------------------------------------------------------------------
// the towers of the `http` mode and their state classes

struct Served {
    rig: Rig,
    http: SocketAddr,
    reader: StateReader,
    /// a request did not return: its thread may hold the tower's locks for ever, so the tower's state is not read again
    /// (the snapshot accessors take the same locks) and no further case is sent to it
    hung: bool,
}

const LOC_WATCHED: i64 = 10;
const LOC_TRIGGERED: i64 = 20;
/// locators of appointments whose dispute was confirmed while the node said their penalty is already on chain (-27):
/// still held, no tracker.  A pool: an accepted re-submission changes the state of the one it uses.
const LOC_RESOLVED_BASE: i64 = 1000;
const N_RESOLVED: i64 = 40;
const U_REG: i64 = 1;
const U_EXPIRED: i64 = 2;
const U_NOSLOTS: i64 = 3;
const U_MAXED: i64 = 4;
const SLOTS_A: u32 = 4;
const DURATION_A: u32 = 10;
const H0: u32 = 110;

fn expect_code(v: &Value, code: &str, what: &str) {
    if v["code"] != code {
        die(&format!("setup step '{what}' answered {v} instead of {code}"));
    }
}

fn blob_spec(d: i64) -> Value {
    json!({"kind": "valid", "d": d, "p": d + 1})
}

/// Tower A: 4 slots per registration, 10 blocks per subscription.  Users: reg (many slots, one watched appointment,
/// one triggered appointment), expired (subscription over, still within the grace period), noslots (0 slots left).
fn boot_tower_a(wd: &Path) -> Rig {
    let db = wd.join("tower_a.sql3");
    let _ = std::fs::remove_file(&db);
    let cfg = Cfg { scale: 1, slots: SLOTS_A, duration: DURATION_A, grace: 100000, cache_n: 6, idx_n: 100 };
    let mut rig = Rig::new(wd.join("setup_a.ndjson").to_str().unwrap(), db, cfg, new_node(H0));
    if !rig.boot() || !rig.poll() {
        die("tower A did not boot");
    }
    expect_code(&rig.register(U_EXPIRED), "ok", "register(expired)");
    expect_code(&rig.add(U_EXPIRED, 70, &blob_spec(70), 42, "valid"), "ok", "add(expired)");
    for _ in 0..DURATION_A {
        rig.node.lock().unwrap().mine(vec![]);
    }
    if !rig.poll() {
        die("tower A: poll failed");
    }
    for _ in 0..30 {
        expect_code(&rig.register(U_REG), "ok", "register(reg)");
    }
    expect_code(&rig.add(U_REG, LOC_WATCHED, &blob_spec(LOC_WATCHED), 42, "valid"), "ok", "add(watched)");
    expect_code(&rig.add(U_REG, LOC_TRIGGERED, &blob_spec(LOC_TRIGGERED), 42, "valid"), "ok", "add(triggered)");
    let dispute = rig.rec.lock().unwrap().sym.tx(LOC_TRIGGERED);
    let mut block = vec![dispute];
    for i in 0..N_RESOLVED {
        let l = LOC_RESOLVED_BASE + 10 * i;
        expect_code(&rig.add(U_REG, l, &blob_spec(l), 42, "valid"), "ok", "add(resolved)");
        let penalty = rig.rec.lock().unwrap().sym.tx(l + 1);
        rig.node.lock().unwrap().scripted.entry(penalty.compute_txid()).or_default().push_back(Verdict::Code(-27));
        block.push(rig.rec.lock().unwrap().sym.tx(l));
    }
    rig.node.lock().unwrap().mine(block);
    if !rig.poll() {
        die("tower A: poll failed");
    }
    let g = rig.get(U_REG, LOC_RESOLVED_BASE, "valid");
    if g["status"] != "watched" {
        die(&format!("tower A: the resolved appointment is not held without a tracker: {g}"));
    }
    let g = rig.get(U_REG, LOC_TRIGGERED, "valid");
    if g["status"] != "responded" {
        die(&format!("tower A: the triggered appointment has no tracker: {g}"));
    }
    let g = rig.get(U_REG, LOC_WATCHED, "valid");
    if g["status"] != "watched" {
        die(&format!("tower A: the watched appointment is not held: {g}"));
    }
    expect_code(&rig.register(U_NOSLOTS), "ok", "register(noslots)");
    for i in 0..SLOTS_A as i64 {
        let l = 300 + 10 * i;
        expect_code(&rig.add(U_NOSLOTS, l, &blob_spec(l), 42, "valid"), "ok", "add(noslots)");
    }
    let s = rig.sub(U_NOSLOTS, "valid");
    if s["slots"] != 0 {
        die(&format!("tower A: the noslots user has slots left: {s}"));
    }
    let s = rig.sub(U_EXPIRED, "valid");
    if s["code"] != "expired" {
        die(&format!("tower A: the expired user is not expired: {s}"));
    }
    rig
}

/// Tower B: 2^31 slots per registration, so that a second registration overflows the slot counter.
fn boot_tower_b(wd: &Path) -> Rig {
    let db = wd.join("tower_b.sql3");
    let _ = std::fs::remove_file(&db);
    let cfg = Cfg { scale: 1, slots: 0x8000_0000, duration: 1000, grace: 100000, cache_n: 6, idx_n: 100 };
    let mut rig = Rig::new(wd.join("setup_b.ndjson").to_str().unwrap(), db, cfg, new_node(H0));
    if !rig.boot() || !rig.poll() {
        die("tower B did not boot");
    }
    expect_code(&rig.register(U_MAXED), "ok", "register(maxed)");
    rig
}

fn user_pk(rig: &Rig, u: i64) -> PublicKey {
    rig.rec.lock().unwrap().sym.user(u).1
}

fn user_sk(rig: &Rig, u: i64) -> SecretKey {
    rig.rec.lock().unwrap().sym.user(u).0
}

fn locator_of(rig: &Rig, l: i64) -> Locator {
    let tx = rig.rec.lock().unwrap().sym.tx(l);
    Locator::new(tx.compute_txid())
}

fn info(wd: &Path, n_fresh: u32) -> Value {
    // keys and locators are deterministic: a throw-away Rig gives the symbol tables without booting anything
    let rig = Rig::new(
        wd.join("info.ndjson").to_str().unwrap(),
        wd.join("info.sql3"),
        Cfg { scale: 1, slots: 1, duration: 1, grace: 1, cache_n: 6, idx_n: 100 },
        new_node(1),
    );
    let fresh: Vec<String> = (0..n_fresh).map(|i| hex::encode(pk_of(&fresh_sk(i)).serialize())).collect();
    json!({
        "pk": {
            "reg": hex::encode(user_pk(&rig, U_REG).serialize()),
            "expired": hex::encode(user_pk(&rig, U_EXPIRED).serialize()),
            "noslots": hex::encode(user_pk(&rig, U_NOSLOTS).serialize()),
            "maxed": hex::encode(user_pk(&rig, U_MAXED).serialize()),
            "unreg": hex::encode(pk_of(&unreg_sk()).serialize()),
        },
        "loc": {
            "watched": hex::encode(locator_of(&rig, LOC_WATCHED).to_vec()),
            "triggered": hex::encode(locator_of(&rig, LOC_TRIGGERED).to_vec()),
            "resolved": (0..N_RESOLVED).map(|i| hex::encode(locator_of(&rig, LOC_RESOLVED_BASE + 10 * i).to_vec())).collect::<Vec<_>>(),
        },
        "fresh": fresh,
        "slots_per_registration": SLOTS_A,
        "signature_len": cryptography::sign(b"x", &unreg_sk()).len(),
    })
}

fn reg_slots(rig: &Rig) -> u32 {
    let pk = user_pk(rig, U_REG);
    let (_, users) = rig.tower.as_ref().unwrap().gatekeeper.verif_state();
    users.iter().find(|(id, _, _, _)| id.0 == pk).map(|(_, s, _, _)| *s).unwrap_or(0)
}

fn http_mode(cases: &str, results: &str, wd: &Path) {
    let rt = runtime();
    let rig_a = boot_tower_a(wd);
    let rig_b = boot_tower_b(wd);
    let http_a = serve(&rt, rig_a.tower.as_ref().unwrap().api.clone());
    let http_b = serve(&rt, rig_b.tower.as_ref().unwrap().api.clone());
    let reader_a = StateReader::open(&rig_a.db_path);
    let reader_b = StateReader::open(&rig_b.db_path);
    let mut a = Served { rig: rig_a, http: http_a, reader: reader_a, hung: false };
    let mut b = Served { rig: rig_b, http: http_b, reader: reader_b, hung: false };
    let _ = take_panic();

    let input = BufReader::new(std::fs::File::open(cases).unwrap_or_else(|e| die(&format!("cannot read {cases}: {e}"))));
    let mut out = std::io::BufWriter::new(std::fs::File::create(results).unwrap());
    let (mut n, mut topups, mut panics, mut hangs) = (0usize, 0usize, 0usize, 0usize);
    for line in input.lines() {
        let line = line.unwrap();
        if line.trim().is_empty() {
            continue;
        }
        let c: Value = serde_json::from_str(&line).unwrap_or_else(|e| die(&format!("bad case line: {e}")));
        let tower_hung = if c["tower"] == "B" { b.hung } else { a.hung };
        if hangs >= 6 || tower_hung {
            // the tower hangs: do not spend the deadline on every remaining case
            let res = json!({"id": c["id"], "io": "skipped", "status": null, "headers": [], "body_hex": "", "elapsed_ms": 0,
                             "changed": [], "panic": null});
            serde_json::to_writer(&mut out, &res).unwrap();
            out.write_all(b"\n").unwrap();
            n += 1;
            continue;
        }
        let t: &mut Served = if c["tower"] == "B" { &mut b } else { &mut a };
        // ---- build the bytes
        let mut head = hex::decode(c["head_hex"].as_str().unwrap_or("")).unwrap_or_else(|_| die("bad head_hex"));
        let mut body = hex::decode(c["body_hex"].as_str().unwrap_or("")).unwrap_or_else(|_| die("bad body_hex"));
        if c["sign"].is_object() {
            let who = c["sign"]["who"].as_str().unwrap();
            let sk = match who {
                "reg" => user_sk(&t.rig, U_REG),
                "expired" => user_sk(&t.rig, U_EXPIRED),
                "noslots" => user_sk(&t.rig, U_NOSLOTS),
                "maxed" => user_sk(&t.rig, U_MAXED),
                "unreg" => unreg_sk(),
                other => die(&format!("unknown signer {other}")),
            };
            let msg = hex::decode(c["sign"]["msg_hex"].as_str().unwrap()).unwrap_or_else(|_| die("bad msg_hex"));
            let sig = cryptography::sign(&msg, &sk);
            body = replace_all(&body, b"@SIG@", sig.as_bytes());
        }
        if let Some(n) = c["pad_to"].as_u64() {
            // JSON white space before the closing brace of the object
            let n = n as usize;
            if body.len() < n {
                let pos = body.iter().rposition(|&x| x == b'}').unwrap_or(body.len());
                let pad = vec![b' '; n - body.len()];
                let mut nb = body[..pos].to_vec();
                nb.extend_from_slice(&pad);
                nb.extend_from_slice(&body[pos..]);
                body = nb;
            }
        }
        let body_len = body.len();
        if c["chunked"].as_bool().unwrap_or(false) {
            let mut enc = Vec::new();
            let cut = body.len() / 2;
            for part in [&body[..cut], &body[cut..]] {
                if !part.is_empty() {
                    enc.extend_from_slice(format!("{:x}\r\n", part.len()).as_bytes());
                    enc.extend_from_slice(part);
                    enc.extend_from_slice(b"\r\n");
                }
            }
            enc.extend_from_slice(b"0\r\n\r\n");
            body = enc;
        }
        head = replace_all(&head, b"@CL@", body_len.to_string().as_bytes());
        let mut payload = head;
        payload.extend_from_slice(&body);
        let sent_len = payload.len();
        // ---- tower state class "node"
        let down = c["node"] == "down";
        let reachable = t.rig.tower.as_ref().unwrap().reachable.clone();
        if down {
            *reachable.0.lock().unwrap() = false;
        }
        let pre = full_state(&t.rig, &t.reader);
        let deadline = Duration::from_millis(c["deadline_ms"].as_u64().unwrap_or(8000));
        let obs = exchange(t.http, payload, c["half_close"].as_bool().unwrap_or(false), c["is_head"].as_bool().unwrap_or(false), deadline);
        if obs.io.starts_with("timeout") {
            t.hung = true;
        }
        let post = if t.hung { pre.clone() } else { full_state(&t.rig, &t.reader) };
        if down {
            *reachable.0.lock().unwrap() = true;
            reachable.1.notify_all();
        }
        let panic = take_panic();
        if panic.is_some() {
            panics += 1;
        }
        if obs.io.starts_with("timeout") {
            hangs += 1;
        }
        let changed = diff_state(&pre, &post);
        let res = json!({
            "id": c["id"],
            "io": obs.io,
            "status": obs.status,
            "headers": obs.headers.iter().map(|(k, v)| json!([k, v])).collect::<Vec<_>>(),
            "body_hex": hex::encode(&obs.body),
            "elapsed_ms": obs.elapsed_ms as u64,
            "sent_len": sent_len,
            "body_len": body_len,
            "pre": fnv(&pre),
            "post": fnv(&post),
            "changed": changed,
            "panic": panic,
        });
        serde_json::to_writer(&mut out, &res).unwrap();
        out.write_all(b"\n").unwrap();
        n += 1;
        // keep the "reg" user supplied with slots (outside the observed window)
        if c["tower"] != "B" && !a.hung && reg_slots(&a.rig) < 40 {
            for _ in 0..20 {
                expect_code(&a.rig.register(U_REG), "ok", "top-up register(reg)");
            }
            topups += 1;
        }
    }
    out.flush().unwrap();
    // liveness at the end: both towers still answer ping
    let mut alive = true;
    for t in [&a, &b] {
        if t.hung {
            alive = false;
            continue;
        }
        let o = exchange(t.http, b"GET /ping HTTP/1.1\r\nHost: x\r\nConnection: close\r\n\r\n".to_vec(), false, false, Duration::from_secs(5));
        alive &= o.status == Some(200);
    }
    println!("{}", json!({"cases": n, "topups": topups, "panics": panics, "hangs": hangs, "alive_at_end": alive}));
    if a.hung || b.hung {
        // a handler thread is blocked for ever inside the tower: dropping the runtime / the rig would wait for it
        std::io::stdout().flush().unwrap();
        std::process::exit(0);
    }
}

// ---------------------------------------------------------------------------------------------------
// C16: scripted service, recording proxy, client calls

#[derive(Default)]
struct Script {
    captured: Vec<Value>,
    reply: Value,
}

#[derive(Clone)]
struct Scripted(Arc<Mutex<Script>>);

fn grpc_code(name: &str) -> tonic::Code {
    match name {
        "InvalidArgument" => tonic::Code::InvalidArgument,
        "NotFound" => tonic::Code::NotFound,
        "AlreadyExists" => tonic::Code::AlreadyExists,
        "ResourceExhausted" => tonic::Code::ResourceExhausted,
        "Unauthenticated" => tonic::Code::Unauthenticated,
        "Unavailable" => tonic::Code::Unavailable,
        other => die(&format!("unknown grpc code {other}")),
    }
}

fn u32_of(v: &Value) -> u32 {
    v.as_u64().unwrap_or_else(|| die(&format!("not a u32: {v}"))) as u32
}

fn bytes_of(v: &Value) -> Vec<u8> {
    hex::decode(v.as_str().unwrap_or_else(|| die(&format!("not a hex string: {v}")))).unwrap_or_else(|_| die("bad hex in case"))
}

fn str_of(v: &Value) -> String {
    v.as_str().unwrap_or_else(|| die(&format!("not a string: {v}"))).to_string()
}

impl Scripted {
    fn err(&self) -> Option<Status> {
        let s = self.0.lock().unwrap();
        if s.reply["kind"] == "err" {
            Some(Status::new(grpc_code(s.reply["grpc"].as_str().unwrap()), str_of(&s.reply["msg"])))
        } else {
            None
        }
    }
}

#[tonic::async_trait]
impl PublicTowerServices for Scripted {
    async fn register(&self, request: Request<common_msgs::RegisterRequest>) -> Result<Response<common_msgs::RegisterResponse>, Status> {
        let m = request.into_inner();
        self.0.lock().unwrap().captured.push(json!({"ep": "register", "user_id": hex::encode(&m.user_id)}));
        if let Some(e) = self.err() {
            return Err(e);
        }
        let r = self.0.lock().unwrap().reply.clone();
        Ok(Response::new(common_msgs::RegisterResponse {
            user_id: bytes_of(&r["user_id"]),
            available_slots: u32_of(&r["available_slots"]),
            subscription_start: u32_of(&r["subscription_start"]),
            subscription_expiry: u32_of(&r["subscription_expiry"]),
            subscription_signature: str_of(&r["subscription_signature"]),
        }))
    }

    async fn add_appointment(
        &self,
        request: Request<common_msgs::AddAppointmentRequest>,
    ) -> Result<Response<common_msgs::AddAppointmentResponse>, Status> {
        let m = request.into_inner();
        let a = m.appointment.clone();
        self.0.lock().unwrap().captured.push(json!({
            "ep": "add_appointment",
            "has_appointment": a.is_some(),
            "locator": a.as_ref().map(|x| hex::encode(&x.locator)),
            "encrypted_blob": a.as_ref().map(|x| hex::encode(&x.encrypted_blob)),
            "to_self_delay": a.as_ref().map(|x| x.to_self_delay),
            "signature": m.signature,
        }));
        if let Some(e) = self.err() {
            return Err(e);
        }
        let r = self.0.lock().unwrap().reply.clone();
        Ok(Response::new(common_msgs::AddAppointmentResponse {
            locator: bytes_of(&r["locator"]),
            start_block: u32_of(&r["start_block"]),
            signature: str_of(&r["signature"]),
            available_slots: u32_of(&r["available_slots"]),
            subscription_expiry: u32_of(&r["subscription_expiry"]),
        }))
    }

    async fn get_appointment(
        &self,
        request: Request<common_msgs::GetAppointmentRequest>,
    ) -> Result<Response<common_msgs::GetAppointmentResponse>, Status> {
        let m = request.into_inner();
        self.0.lock().unwrap().captured.push(json!({"ep": "get_appointment", "locator": hex::encode(&m.locator), "signature": m.signature}));
        if let Some(e) = self.err() {
            return Err(e);
        }
        let r = self.0.lock().unwrap().reply.clone();
        let data = if r["data"] == "appointment" {
            common_msgs::appointment_data::AppointmentData::Appointment(common_msgs::Appointment {
                locator: bytes_of(&r["locator"]),
                encrypted_blob: bytes_of(&r["encrypted_blob"]),
                to_self_delay: u32_of(&r["to_self_delay"]),
            })
        } else {
            common_msgs::appointment_data::AppointmentData::Tracker(common_msgs::Tracker {
                dispute_txid: bytes_of(&r["dispute_txid"]),
                penalty_txid: bytes_of(&r["penalty_txid"]),
                penalty_rawtx: bytes_of(&r["penalty_rawtx"]),
            })
        };
        Ok(Response::new(common_msgs::GetAppointmentResponse {
            appointment_data: Some(common_msgs::AppointmentData { appointment_data: Some(data) }),
            status: r["status"].as_i64().unwrap_or(0) as i32,
        }))
    }

    async fn get_subscription_info(
        &self,
        request: Request<common_msgs::GetSubscriptionInfoRequest>,
    ) -> Result<Response<common_msgs::GetSubscriptionInfoResponse>, Status> {
        let m = request.into_inner();
        self.0.lock().unwrap().captured.push(json!({"ep": "get_subscription_info", "signature": m.signature}));
        if let Some(e) = self.err() {
            return Err(e);
        }
        let r = self.0.lock().unwrap().reply.clone();
        Ok(Response::new(common_msgs::GetSubscriptionInfoResponse {
            available_slots: u32_of(&r["available_slots"]),
            subscription_expiry: u32_of(&r["subscription_expiry"]),
            locators: r["locators"].as_array().map(|a| a.iter().map(bytes_of).collect()).unwrap_or_default(),
        }))
    }
}

type WireLog = Arc<Mutex<(Vec<u8>, Vec<u8>)>>;

/// Forwards every connection to `target`, recording the bytes of both directions.
fn start_proxy(rt: &tokio::runtime::Runtime, target: SocketAddr, log: WireLog) -> SocketAddr {
    use tokio::io::{AsyncReadExt, AsyncWriteExt};
    let listener = rt.block_on(async { tokio::net::TcpListener::bind("127.0.0.1:0").await }).unwrap_or_else(|e| die(&format!("proxy bind: {e}")));
    let addr = listener.local_addr().unwrap();
    rt.spawn(async move {
        loop {
            let (mut inbound, _) = match listener.accept().await {
                Ok(x) => x,
                Err(_) => continue,
            };
            let log = log.clone();
            tokio::spawn(async move {
                let mut outbound = match tokio::net::TcpStream::connect(target).await {
                    Ok(s) => s,
                    Err(_) => return,
                };
                let (mut ri, mut wi) = inbound.split();
                let (mut ro, mut wo) = outbound.split();
                let l1 = log.clone();
                let c2s = async {
                    let mut buf = vec![0u8; 65536];
                    loop {
                        match ri.read(&mut buf).await {
                            Ok(0) | Err(_) => break,
                            Ok(n) => {
                                l1.lock().unwrap().0.extend_from_slice(&buf[..n]);
                                if wo.write_all(&buf[..n]).await.is_err() {
                                    break;
                                }
                            }
                        }
                    }
                    let _ = wo.shutdown().await;
                };
                let l2 = log.clone();
                let s2c = async {
                    let mut buf = vec![0u8; 65536];
                    loop {
                        match ro.read(&mut buf).await {
                            Ok(0) | Err(_) => break,
                            Ok(n) => {
                                l2.lock().unwrap().1.extend_from_slice(&buf[..n]);
                                if wi.write_all(&buf[..n]).await.is_err() {
                                    break;
                                }
                            }
                        }
                    }
                    let _ = wi.shutdown().await;
                };
                tokio::join!(c2s, s2c);
            });
        }
    });
    addr
}

fn request_error(e: &chttp::RequestError) -> Value {
    match e {
        chttp::RequestError::ConnectionError(m) => json!({"kind": "connection_error", "msg": m}),
        chttp::RequestError::DeserializeError(m) => json!({"kind": "deserialize_error", "msg": m}),
        chttp::RequestError::Unexpected(m) => json!({"kind": "unexpected", "msg": m}),
    }
}

fn api_error(e: &chttp::ApiError) -> Value {
    json!({"kind": "api_error", "error": e.error, "error_code": e.error_code})
}

fn reg_response_json(r: &common_msgs::RegisterResponse) -> Value {
    json!({"kind": "ok", "user_id": hex::encode(&r.user_id), "available_slots": r.available_slots, "subscription_start": r.subscription_start,
           "subscription_expiry": r.subscription_expiry, "subscription_signature": r.subscription_signature})
}

fn add_response_json(r: &common_msgs::AddAppointmentResponse) -> Value {
    json!({"kind": "ok", "locator": hex::encode(&r.locator), "start_block": r.start_block, "signature": r.signature,
           "available_slots": r.available_slots, "subscription_expiry": r.subscription_expiry})
}

fn get_response_json(r: &common_msgs::GetAppointmentResponse) -> Value {
    let mut v = json!({"kind": "ok", "status": r.status});
    match r.appointment_data.as_ref().and_then(|d| d.appointment_data.as_ref()) {
        Some(common_msgs::appointment_data::AppointmentData::Appointment(a)) => {
            v["data"] = json!("appointment");
            v["locator"] = json!(hex::encode(&a.locator));
            v["encrypted_blob"] = json!(hex::encode(&a.encrypted_blob));
            v["to_self_delay"] = json!(a.to_self_delay);
        }
        Some(common_msgs::appointment_data::AppointmentData::Tracker(t)) => {
            v["data"] = json!("tracker");
            v["dispute_txid"] = json!(hex::encode(&t.dispute_txid));
            v["penalty_txid"] = json!(hex::encode(&t.penalty_txid));
            v["penalty_rawtx"] = json!(hex::encode(&t.penalty_rawtx));
        }
        None => {
            v["data"] = json!("none");
        }
    }
    v
}

fn sub_response_json(r: &common_msgs::GetSubscriptionInfoResponse) -> Value {
    json!({"kind": "ok", "available_slots": r.available_slots, "subscription_expiry": r.subscription_expiry,
           "locators": r.locators.iter().map(hex::encode).collect::<Vec<_>>()})
}

fn registration_receipt_json(r: &RegistrationReceipt) -> Value {
    json!({"kind": "ok", "user_id": hex::encode(r.user_id().to_vec()), "available_slots": r.available_slots(),
           "subscription_start": r.subscription_start(), "subscription_expiry": r.subscription_expiry(),
           "subscription_signature": r.signature(), "to_vec": hex::encode(r.to_vec())})
}

fn appointment_receipt_json(r: &AppointmentReceipt) -> Value {
    json!({"user_signature": r.user_signature(), "start_block": r.start_block(), "signature": r.signature(), "to_vec": hex::encode(r.to_vec())})
}

fn tower_key() -> (SecretKey, PublicKey) {
    let sk = SecretKey::from_slice(&[0x55; 32]).unwrap();
    (sk, pk_of(&sk))
}

/// One client call of a wire case: which client function, with which values.  Returns what the client made of the answer.
fn client_call(rt: &tokio::runtime::Runtime, addr: &NetAddr, tower_id: TowerId, c: &Value) -> Value {
    let ep = c["ep"].as_str().unwrap();
    let via = c["via"].as_str().unwrap_or("generic");
    let req = &c["req"];
    let r = catch_unwind(AssertUnwindSafe(|| {
        rt.block_on(async {
            match (ep, via) {
                ("register", "typed") => {
                    let user_id = UserId::from_slice(&bytes_of(&req["user_id"])).unwrap_or_else(|_| die("case user_id is no key"));
                    match chttp::register(tower_id, user_id, addr, &None).await {
                        Ok(receipt) => registration_receipt_json(&receipt),
                        Err(e) => request_error(&e),
                    }
                }
                ("register", _) => {
                    let m = common_msgs::RegisterRequest { user_id: bytes_of(&req["user_id"]) };
                    match chttp::process_post_response::<chttp::ApiResponse<common_msgs::RegisterResponse>>(
                        chttp::post_request(addr, Endpoint::Register, &m, &None).await,
                    )
                    .await
                    {
                        Ok(chttp::ApiResponse::Response(r)) => reg_response_json(&r),
                        Ok(chttp::ApiResponse::Error(e)) => api_error(&e),
                        Err(e) => request_error(&e),
                    }
                }
                ("add_appointment", "typed") => {
                    let locator = Locator::from_slice(&bytes_of(&req["locator"])).unwrap_or_else(|_| die("case locator is not 16 bytes"));
                    let appointment = Appointment::new(locator, bytes_of(&req["encrypted_blob"]), u32_of(&req["to_self_delay"]));
                    let sig = str_of(&req["signature"]);
                    match chttp::send_appointment(tower_id, addr, &None, &appointment, &sig).await {
                        Ok((r, receipt)) => {
                            let mut v = add_response_json(&r);
                            v["receipt"] = appointment_receipt_json(&receipt);
                            v
                        }
                        Err(chttp::AddAppointmentError::ApiError(e)) => api_error(&e),
                        Err(chttp::AddAppointmentError::RequestError(e)) => request_error(&e),
                        Err(chttp::AddAppointmentError::SignatureError(p)) => json!({
                            "kind": "signature_error",
                            "locator": hex::encode(p.locator.to_vec()),
                            "receipt": appointment_receipt_json(&p.appointment_receipt),
                            "recovered_id": hex::encode(p.recovered_id.to_vec()),
                        }),
                    }
                }
                ("add_appointment", _) => {
                    let m = common_msgs::AddAppointmentRequest {
                        appointment: Some(
                            Appointment::new(
                                Locator::from_slice(&bytes_of(&req["locator"])).unwrap_or_else(|_| die("case locator is not 16 bytes")),
                                bytes_of(&req["encrypted_blob"]),
                                u32_of(&req["to_self_delay"]),
                            )
                            .into(),
                        ),
                        signature: str_of(&req["signature"]),
                    };
                    match chttp::process_post_response::<chttp::ApiResponse<common_msgs::AddAppointmentResponse>>(
                        chttp::post_request(addr, Endpoint::AddAppointment, &m, &None).await,
                    )
                    .await
                    {
                        Ok(chttp::ApiResponse::Response(r)) => add_response_json(&r),
                        Ok(chttp::ApiResponse::Error(e)) => api_error(&e),
                        Err(e) => request_error(&e),
                    }
                }
                ("get_appointment", _) => {
                    // as watchtower-plugin/src/main.rs::get_appointment does
                    let locator = Locator::from_slice(&bytes_of(&req["locator"])).unwrap_or_else(|_| die("case locator is not 16 bytes"));
                    let m = common_msgs::GetAppointmentRequest { locator: locator.to_vec(), signature: str_of(&req["signature"]) };
                    match chttp::process_post_response::<chttp::ApiResponse<common_msgs::GetAppointmentResponse>>(
                        chttp::post_request(addr, Endpoint::GetAppointment, &m, &None).await,
                    )
                    .await
                    {
                        Ok(chttp::ApiResponse::Response(r)) => get_response_json(&r),
                        Ok(chttp::ApiResponse::Error(e)) => api_error(&e),
                        Err(e) => request_error(&e),
                    }
                }
                ("get_subscription_info", "typed") => {
                    // as watchtower-plugin/src/main.rs::get_subscription_info does (no ApiResponse wrapper)
                    let m = common_msgs::GetSubscriptionInfoRequest { signature: str_of(&req["signature"]) };
                    match chttp::process_post_response::<common_msgs::GetSubscriptionInfoResponse>(
                        chttp::post_request(addr, Endpoint::GetSubscriptionInfo, &m, &None).await,
                    )
                    .await
                    {
                        Ok(r) => sub_response_json(&r),
                        Err(e) => request_error(&e),
                    }
                }
                ("get_subscription_info", _) => {
                    let m = common_msgs::GetSubscriptionInfoRequest { signature: str_of(&req["signature"]) };
                    match chttp::process_post_response::<chttp::ApiResponse<common_msgs::GetSubscriptionInfoResponse>>(
                        chttp::post_request(addr, Endpoint::GetSubscriptionInfo, &m, &None).await,
                    )
                    .await
                    {
                        Ok(chttp::ApiResponse::Response(r)) => sub_response_json(&r),
                        Ok(chttp::ApiResponse::Error(e)) => api_error(&e),
                        Err(e) => request_error(&e),
                    }
                }
                (other, _) => die(&format!("unknown endpoint {other}")),
            }
        })
    }));
    match r {
        Ok(v) => v,
        Err(_) => json!({"kind": "panic", "what": take_panic()}),
    }
}

/// The signed byte strings of a case's values, from the real to_vec implementations.
fn layouts(c: &Value) -> Value {
    let mut out = json!({});
    let req = &c["req"];
    if c["ep"] == "add_appointment" {
        if let Ok(locator) = Locator::from_slice(&bytes_of(&req["locator"])) {
            let a = Appointment::new(locator, bytes_of(&req["encrypted_blob"]), u32_of(&req["to_self_delay"]));
            out["appointment"] = json!(hex::encode(a.to_vec()));
        }
    }
    let rep = &c["reply"];
    if rep["kind"] == "ok" && c["ep"] == "register" {
        if let Ok(uid) = UserId::from_slice(&bytes_of(&req["user_id"])) {
            let r = RegistrationReceipt::new(
                uid,
                u32_of(&rep["available_slots"]),
                u32_of(&rep["subscription_start"]),
                u32_of(&rep["subscription_expiry"]),
            );
            out["registration_receipt"] = json!(hex::encode(r.to_vec()));
        }
    }
    if rep["kind"] == "ok" && c["ep"] == "add_appointment" {
        let r = AppointmentReceipt::new(str_of(&req["signature"]), u32_of(&rep["start_block"]));
        out["appointment_receipt"] = json!(hex::encode(r.to_vec()));
    }
    out
}

fn joint_case(rt: &tokio::runtime::Runtime, addr: &NetAddr, tower_id: TowerId, c: &Value) -> Value {
    let sk = fresh_sk(1000 + u32_of(&c["user"]));
    let user_id = UserId(pk_of(&sk));
    let locator = Locator::from_slice(&bytes_of(&c["locator"])).unwrap_or_else(|_| die("joint: bad locator"));
    let appointment = Appointment::new(locator, bytes_of(&c["encrypted_blob"]), u32_of(&c["to_self_delay"]));
    let r = catch_unwind(AssertUnwindSafe(|| {
        rt.block_on(async {
            let mut out = json!({});
            match chttp::register(tower_id, user_id, addr, &None).await {
                Ok(receipt) => {
                    out["register"] = registration_receipt_json(&receipt);
                    out["register"]["verifies"] = json!(receipt.verify(&tower_id));
                }
                Err(e) => {
                    out["register"] = request_error(&e);
                    return out;
                }
            }
            let sig = cryptography::sign(&appointment.to_vec(), &sk);
            out["user_signature"] = json!(sig);
            match chttp::add_appointment(tower_id, addr, &None, &appointment, &sig).await {
                Ok((slots, receipt)) => {
                    out["add"] = json!({"kind": "ok", "available_slots": slots, "receipt": appointment_receipt_json(&receipt),
                                        "verifies": receipt.verify(&tower_id)});
                }
                Err(chttp::AddAppointmentError::ApiError(e)) => out["add"] = api_error(&e),
                Err(chttp::AddAppointmentError::RequestError(e)) => out["add"] = request_error(&e),
                Err(chttp::AddAppointmentError::SignatureError(_)) => out["add"] = json!({"kind": "signature_error"}),
            }
            let gm = common_msgs::GetAppointmentRequest {
                locator: locator.to_vec(),
                signature: cryptography::sign(format!("get appointment {locator}").as_bytes(), &sk),
            };
            out["get"] = match chttp::process_post_response::<chttp::ApiResponse<common_msgs::GetAppointmentResponse>>(
                chttp::post_request(addr, Endpoint::GetAppointment, &gm, &None).await,
            )
            .await
            {
                Ok(chttp::ApiResponse::Response(r)) => get_response_json(&r),
                Ok(chttp::ApiResponse::Error(e)) => api_error(&e),
                Err(e) => request_error(&e),
            };
            let sm = common_msgs::GetSubscriptionInfoRequest { signature: cryptography::sign("get subscription info".as_bytes(), &sk) };
            out["sub"] = match chttp::process_post_response::<common_msgs::GetSubscriptionInfoResponse>(
                chttp::post_request(addr, Endpoint::GetSubscriptionInfo, &sm, &None).await,
            )
            .await
            {
                Ok(r) => sub_response_json(&r),
                Err(e) => request_error(&e),
            };
            out
        })
    }));
    match r {
        Ok(v) => v,
        Err(_) => json!({"kind": "panic", "what": take_panic()}),
    }
}

struct Lane {
    script: Arc<Mutex<Script>>,
    log: WireLog,
    addr: NetAddr,
}

/// The plugin's conversion of what CLN hands it (watchtower-plugin/src/convert.rs): a commitment_revocation hook payload
/// and the parameters of getappointment.  The locator the client derives from a transaction id must be the one the
/// tower derives from the transaction.
fn convert_case(c: &Value) -> Value {
    use std::convert::TryFrom;
    let r = catch_unwind(AssertUnwindSafe(|| {
        let tx = verif_harness::chain::unique_tx(0xc1, c["n"].as_u64().unwrap_or(1));
        let txid = tx.compute_txid();
        let penalty = verif_harness::chain::spend_tx(&tx, 1, c["pad"].as_u64().unwrap_or(0) as usize);
        let penalty_hex = hex::encode(bitcoin::consensus::serialize(&penalty));
        let mut out = json!({"real_txid_display": txid.to_string(), "tower_locator_of_real_tx": hex::encode(Locator::new(txid).to_vec())});
        for (name, display) in [("given", str_of(&c["commitment_txid"])), ("real", txid.to_string())] {
            let hook = json!({"channel_id": "aa".repeat(32), "commitnum": c["commitnum"], "commitment_txid": display, "penalty_tx": penalty_hex});
            out[name] = match serde_json::from_value::<watchtower_plugin::convert::CommitmentRevocation>(hook) {
                Ok(cr) => json!({
                    "locator": hex::encode(Locator::new(cr.commitment_txid).to_vec()),
                    "commit_num": cr.commit_num,
                    "penalty_tx_same": cr.penalty_tx == penalty,
                }),
                Err(e) => json!({"error": e.to_string()}),
            };
        }
        let tower_id = hex::encode(tower_key().1.serialize());
        for (name, params) in [
            ("get_params_array", json!([tower_id, c["locator"]])),
            ("get_params_object", json!({"tower_id": tower_id, "locator": c["locator"]})),
        ] {
            out[name] = match watchtower_plugin::convert::GetAppointmentParams::try_from(params) {
                Ok(p) => json!({"locator": hex::encode(p.locator.to_vec()), "tower_id": hex::encode(p.tower_id.to_vec())}),
                Err(e) => json!({"error": e.to_string()}),
            };
        }
        out["tower_id"] = json!(tower_id);
        out
    }));
    match r {
        Ok(v) => v,
        Err(_) => json!({"kind": "panic", "what": take_panic()}),
    }
}

/// One scripted exchange (or one joint sequence) of the wire mode.
fn wire_case(rt: &tokio::runtime::Runtime, lane: &Lane, real_addr: &NetAddr, real_id: TowerId, mut c: Value) -> Value {
    let (tower_sk, tower_pk) = tower_key();
    let tower_id = TowerId(tower_pk);
    if c["ep"] == "joint" {
        let v = joint_case(rt, real_addr, real_id, &c);
        return json!({"id": c["id"], "joint": v, "tower_id": hex::encode(real_id.to_vec())});
    }
    if c["ep"] == "convert" {
        return json!({"id": c["id"], "convert": convert_case(&c)});
    }
    // a reply signature the client can verify: the tower's signature over the receipt the client will build
    if c["reply"]["kind"] == "ok" && c["ep"] == "add_appointment" && c["sign_reply"].as_bool().unwrap_or(false) {
        let receipt = AppointmentReceipt::new(str_of(&c["req"]["signature"]), u32_of(&c["reply"]["start_block"]));
        c["reply"]["signature"] = json!(cryptography::sign(&receipt.to_vec(), &tower_sk));
    }
    if c["reply"]["kind"] == "ok" && c["ep"] == "register" && c["sign_reply"].as_bool().unwrap_or(false) {
        if let Ok(uid) = UserId::from_slice(&bytes_of(&c["req"]["user_id"])) {
            let mut receipt = RegistrationReceipt::new(
                uid,
                u32_of(&c["reply"]["available_slots"]),
                u32_of(&c["reply"]["subscription_start"]),
                u32_of(&c["reply"]["subscription_expiry"]),
            );
            receipt.sign(&tower_sk);
            c["reply"]["subscription_signature"] = json!(receipt.signature().unwrap());
        }
    }
    {
        let mut s = lane.script.lock().unwrap();
        s.captured.clear();
        s.reply = c["reply"].clone();
        let mut l = lane.log.lock().unwrap();
        l.0.clear();
        l.1.clear();
    }
    let client = client_call(rt, &lane.addr, tower_id, &c);
    let captured = lane.script.lock().unwrap().captured.clone();
    let (req_raw, rep_raw) = {
        let l = lane.log.lock().unwrap();
        (l.0.clone(), l.1.clone())
    };
    json!({
        "id": c["id"],
        "scripted_reply": c["reply"],
        "captured": captured,
        "client": client,
        "wire_request_hex": hex::encode(&req_raw),
        "wire_reply_hex": hex::encode(&rep_raw),
        "layouts": layouts(&c),
        "tower_id": hex::encode(tower_id.to_vec()),
    })
}

fn wire_mode(cases: &str, results: &str, wd: &Path) {
    // The client builds a fresh reqwest client (and with it a TLS context that loads the system's CA bundle, ~100 ms
    // of CPU under OpenSSL 3) for every request.  Everything here is plain HTTP on loopback: point OpenSSL at a store
    // holding a single certificate.  This is process environment of the rig, not a change of the client.
    let empty_dir = wd.join("no_certs");
    std::fs::create_dir_all(&empty_dir).unwrap();
    let bundle = std::env::var("SSL_CERT_FILE").unwrap_or_else(|_| "/etc/ssl/certs/ca-certificates.crt".to_string());
    if let Ok(text) = std::fs::read_to_string(&bundle) {
        const END: &str = "-----END CERTIFICATE-----";
        if let Some(i) = text.find(END) {
            let one = wd.join("one_cert.pem");
            std::fs::write(&one, format!("{}\n", &text[..i + END.len()])).unwrap();
            std::env::set_var("SSL_CERT_FILE", &one);
            std::env::set_var("SSL_CERT_DIR", &empty_dir);
        }
    }
    let rt = runtime();
    // lanes: each is a scripted tower behind its own instance of the real router, recorded by its own proxy
    let n_lanes = std::thread::available_parallelism().map(|n| n.get()).unwrap_or(4).clamp(2, 8);
    let lanes: Vec<Lane> = (0..n_lanes)
        .map(|_| {
            let script = Arc::new(Mutex::new(Script::default()));
            let http = serve(&rt, Scripted(script.clone()));
            let log: WireLog = Arc::new(Mutex::new((Vec::new(), Vec::new())));
            let proxy = start_proxy(&rt, http, log.clone());
            Lane { script, log, addr: NetAddr::new(format!("http://127.0.0.1:{}", proxy.port())) }
        })
        .collect();
    // a real tower for the joint cases
    let db = wd.join("tower_joint.sql3");
    let _ = std::fs::remove_file(&db);
    let cfg = Cfg { scale: 1, slots: 1000, duration: 1000, grace: 10, cache_n: 6, idx_n: 100 };
    let mut real = Rig::new(wd.join("setup_joint.ndjson").to_str().unwrap(), db, cfg, new_node(H0));
    if !real.boot() || !real.poll() {
        die("the joint tower did not boot");
    }
    let real_http = serve(&rt, real.tower.as_ref().unwrap().api.clone());
    let real_addr = NetAddr::new(format!("http://127.0.0.1:{}", real_http.port()));
    let real_id = TowerId(real.tower.as_ref().unwrap().tower_pk);
    let _ = take_panic();

    let input = BufReader::new(std::fs::File::open(cases).unwrap_or_else(|e| die(&format!("cannot read {cases}: {e}"))));
    let all: Vec<Value> = input
        .lines()
        .map(|l| l.unwrap())
        .filter(|l| !l.trim().is_empty())
        .map(|l| serde_json::from_str(&l).unwrap_or_else(|e| die(&format!("bad case line: {e}"))))
        .collect();
    let collected: Mutex<Vec<(usize, Value)>> = Mutex::new(Vec::with_capacity(all.len()));
    std::thread::scope(|s| {
        for (li, lane) in lanes.iter().enumerate() {
            let (rt, all, collected, real_addr) = (&rt, &all, &collected, &real_addr);
            s.spawn(move || {
                for (idx, c) in all.iter().enumerate().filter(|(i, _)| i % n_lanes == li) {
                    let res = wire_case(rt, lane, real_addr, real_id, c.clone());
                    collected.lock().unwrap().push((idx, res));
                }
            });
        }
    });
    let mut collected = collected.into_inner().unwrap();
    collected.sort_by_key(|(i, _)| *i);
    let mut out = std::io::BufWriter::new(std::fs::File::create(results).unwrap());
    for (_, res) in &collected {
        serde_json::to_writer(&mut out, res).unwrap();
        out.write_all(b"\n").unwrap();
    }
    out.flush().unwrap();
    drop(real.tower.take());
    println!("{}", json!({"cases": collected.len(), "lanes": n_lanes, "panics_seen": take_panic()}));
}

fn main() {
    let args: Vec<String> = std::env::args().collect();
    install_panic_hook();
    match args.get(1).map(|s| s.as_str()) {
        Some("info") if args.len() >= 4 => {
            let wd = PathBuf::from(&args[2]);
            std::fs::create_dir_all(&wd).unwrap();
            println!("{}", info(&wd, args[3].parse().unwrap_or(100)));
        }
        Some("http") if args.len() >= 5 => {
            let wd = PathBuf::from(&args[4]);
            std::fs::create_dir_all(&wd).unwrap();
            http_mode(&args[2], &args[3], &wd);
            std::process::exit(0);
        }
        Some("wire") if args.len() >= 5 => {
            let wd = PathBuf::from(&args[4]);
            std::fs::create_dir_all(&wd).unwrap();
            wire_mode(&args[2], &args[3], &wd);
            std::process::exit(0);
        }
        _ => {
            eprintln!("usage: api_rig info <workdir> <n> | http <cases> <results> <workdir> | wire <cases> <results> <workdir>");
            std::process::exit(2);
        }
    }
}
